#!/bin/sh
# offline setup: third-party helpers go into /verif/.deps (git-ignored)
cd "$(dirname "$0")" || exit 2
exec /venv/bin/python -m vf.deps
