#!/bin/sh
# development aid: run the quick tier of the listed (default: all registered) checks one after the
# other in /verif against /repo, keeping the exit codes; evidence/<id>.json is rewritten by each run
cd "$(dirname "$0")" || exit 2
ids="$*"
[ -z "$ids" ] && ids=$(grep -v '^#' vf/registered.txt | sort -u)
for c in $ids; do
  ./check $c --tier ${VERIF_TIER:-quick} > /var/tmp/runall_$c.log 2>&1; rc=$?
  echo "$c rc=$rc $(tail -1 /var/tmp/runall_$c.log | cut -c1-200)"
done
