"""Worker process: runs one shard of one check and writes its observations.

    python -m vf.worker <module> <params.json> <out.json>
"""
import hashlib
import importlib
import json
import os
import sys
import traceback


class Recorder(object):
    """What a monitor observed in one shard."""
    MAX_DISTINCT = 400000

    def __init__(self):
        self.evaluations = 0
        self.counters = {}
        self._distinct = set()
        self.distinct_overflow = False
        self.samples = []
        self.failures = []
        self.extra = {}
        self._fail_per_key = {}

    def ev(self, n=1):
        self.evaluations += n

    def count(self, name, n=1):
        self.counters[name] = self.counters.get(name, 0) + n

    def distinct(self, key):
        if len(self._distinct) >= self.MAX_DISTINCT:
            self.distinct_overflow = True
            return
        if not isinstance(key, (bytes, str)):
            key = repr(key)
        if isinstance(key, str):
            key = key.encode("utf-8", "backslashreplace")
        self._distinct.add(hashlib.blake2b(key, digest_size=8).hexdigest())

    def sample(self, obj, limit=6):
        if len(self.samples) < limit:
            self.samples.append(obj)

    def fail(self, key, what, witness=None, limit=4):
        n = self._fail_per_key.get(key, 0)
        self._fail_per_key[key] = n + 1
        self.count("failures")
        if n < limit:
            self.failures.append(dict(key=key, what=str(what)[:2000], witness=witness))

    def result(self):
        return dict(evaluations=self.evaluations, counters=self.counters,
                    distinct=sorted(self._distinct), distinct_overflow=self.distinct_overflow,
                    samples=self.samples, failures=self.failures, extra=self.extra,
                    failure_counts=self._fail_per_key)


def main():
    modname, pfile, ofile = sys.argv[1:4]
    params = json.load(open(pfile))
    rec = Recorder()
    out = None
    try:
        mod = importlib.import_module(modname)
        mod.run_shard(params, rec)
        out = rec.result()
    except BaseException:  # noqa: harness errors are reported, never a verdict
        out = rec.result()
        out["harness_error"] = traceback.format_exc()
    tmp = ofile + ".tmp"
    with open(tmp, "w") as fd:
        json.dump(out, fd, default=str)
    os.rename(tmp, ofile)


if __name__ == "__main__":
    main()
