"""Random IR (AssignBlocks, IRBlocks, IRCFGs) over the registers of a real
lifter, for the symbolic-execution and IR-analysis checks."""
from miasm.analysis.machine import Machine
from miasm.core.locationdb import LocationDB
from miasm.expression.expression import (ExprInt, ExprId, ExprMem, ExprOp, ExprSlice, ExprCompose,
                                         ExprCond, ExprLoc, ExprAssign)
from miasm.ir.ir import AssignBlock, IRBlock, IRCFG

from vf.exprgen import boundary_values


class Ctx(object):
    """a lifter + the registers the generator plays with"""

    def __init__(self, machine_name="x86_32"):
        self.machine = Machine(machine_name)
        self.loc_db = LocationDB()
        self.lifter = self.machine.lifter(self.loc_db)
        self.lifter_model_call = self.machine.lifter_model_call(self.loc_db)
        regs = self.lifter.arch.regs
        self.bits = self.lifter.addrsize
        if machine_name == "x86_32":
            self.gpr = [regs.EAX, regs.EBX, regs.ECX, regs.EDX, regs.ESI, regs.EDI]
            self.sp = regs.ESP
            self.ptrs = [regs.ESP, regs.EBP, regs.ESI, regs.EDI]
        else:
            self.gpr = [regs.RAX, regs.RBX, regs.RCX, regs.RDX, regs.RSI, regs.RDI]
            self.sp = regs.RSP
            self.ptrs = [regs.RSP, regs.RBP, regs.RSI, regs.RDI]
        self.flags = [regs.zf, regs.cf, regs.nf, regs.of]
        self.IRDst = self.lifter.IRDst
        self.pc = self.lifter.pc

    def all_regs(self):
        out = []
        for r in self.gpr + self.ptrs + self.flags:
            if r not in out:
                out.append(r)
        return out


class IRGen(object):
    def __init__(self, rng, ctx, mem=True, calls=False, div=False, wide_ops=True):
        self.rng = rng
        self.ctx = ctx
        self.mem = mem
        self.calls = calls
        self.div = div
        self.wide_ops = wide_ops
        self.bits = ctx.bits

    # ---- expressions
    merge_irdst = 0.3

    def const(self, n):
        r = self.rng
        if r.random() < 0.6:
            return ExprInt(r.choice(boundary_values(n)), n)
        return ExprInt(r.getrandbits(n), n)

    def reg(self, n):
        c = self.ctx
        if n == self.bits:
            return self.rng.choice(c.gpr + c.ptrs)
        if n == 1:
            return self.rng.choice(c.flags)
        if n < self.bits:
            base = self.rng.choice(c.gpr)
            start = self.rng.choice([0, 0, 8]) if n == 8 else 0
            return ExprSlice(base, start, start + n)
        return None

    def ptr(self):
        """pointer: one pointer register plus a small offset, sometimes a constant address"""
        r = self.rng
        k = r.random()
        if k < 0.08:
            return ExprInt(0x5000 + r.randrange(0, 24), self.bits)
        base = r.choice(self.ctx.ptrs)
        off = r.choice([0, 0, 1, 2, 3, 4, 4, 8, -1, -2, -4, -4, -8, 5, 7, -9, 9])
        if off == 0:
            return base
        return base + ExprInt(off, self.bits)

    def memread(self, n):
        return ExprMem(self.ptr(), n)

    def value(self, n, depth):
        r = self.rng
        if depth <= 0 or r.random() < 0.2:
            k = r.random()
            if k < 0.35:
                return self.const(n)
            if k < 0.85 or not self.mem or n % 8:
                e = self.reg(n)
                return e if e is not None else self.const(n)
            return self.memread(n)
        d = depth - 1
        k = r.random()
        if n == 1:
            if k < 0.5:
                w = r.choice([8, 16, self.bits])
                op = r.choice(['==', '<u', '<s', '<=u', '<=s'])
                return ExprOp(op, self.value(w, d), self.value(w, d))
            if k < 0.7:
                w = r.choice([8, 16, self.bits])
                x = self.value(w, d)
                return ExprSlice(x, w - 1, w)
            if k < 0.8:
                return ExprOp('parity', self.value(8, d))
            return ExprOp(r.choice(['^', '&', '|']), self.value(1, d), self.value(1, d))
        if k < 0.35:
            op = r.choice(['+', '+', '-', '^', '&', '|', '*'])
            if op == '-':
                return self.value(n, d) - self.value(n, d)
            return ExprOp(op, self.value(n, d), self.value(n, d))
        if k < 0.45:
            op = r.choice(['<<', '>>', 'a>>', '<<<', '>>>'])
            return ExprOp(op, self.value(n, d), ExprInt(r.randrange(0, n + 2) % (1 << n), n))
        if k < 0.5 and self.div:
            op = r.choice(['udiv', 'umod', 'sdiv', 'smod'])
            return ExprOp(op, self.value(n, d), self.value(n, d))
        if k < 0.6:
            c = self.value(r.choice([1, 1, n]), d)
            return ExprCond(c, self.value(n, d), self.value(n, d))
        if k < 0.7 and n >= 16 and n % 2 == 0:
            h = n // 2
            return ExprCompose(self.value(h, d), self.value(h, d))
        if k < 0.78 and n < self.bits:
            return ExprSlice(self.value(self.bits, d), 0, n)
        if k < 0.86 and n > 8:
            m = r.choice([w for w in (1, 8, 16, 32) if w < n])
            return ExprOp(r.choice(['zeroExt_%d', 'signExt_%d']) % n, self.value(m, d))
        if k < 0.95 and self.mem and n % 8 == 0:
            return self.memread(n)
        e = self.reg(n)
        return e if e is not None else self.const(n)

    # ---- assignments
    def dst_reg(self, allow_sp=True):
        c = self.ctx
        pool = c.gpr + c.flags + [r for r in c.ptrs if allow_sp or r is not c.sp]
        return self.rng.choice(pool)

    def assignblk(self, depth=2, with_mem=True, n_assign=None):
        r = self.rng
        n_assign = n_assign or r.choice([1, 1, 2, 2, 3])
        assigns = {}
        mem_bytes = set()
        k = r.random()
        if k < 0.12:
            # swap pattern: parallel semantics matter
            a, b = r.sample(self.ctx.gpr, 2)
            assigns[a] = b
            assigns[b] = a + ExprInt(1, a.size) if r.random() < 0.5 else a
        elif k < 0.2 and with_mem and self.mem:
            # push-like: store below a pointer and move the pointer
            p = r.choice(self.ctx.ptrs)
            sz = r.choice([4, 8]) if self.bits == 64 else 4
            assigns[ExprMem(p - ExprInt(sz, self.bits), sz * 8)] = self.value(sz * 8, 1)
            assigns[p] = p - ExprInt(sz, self.bits)
        for _ in range(n_assign):
            if with_mem and self.mem and r.random() < 0.3:
                sz = r.choice([8, 16, 32, 64] if self.bits == 64 else [8, 16, 32])
                dst = ExprMem(self.ptr(), sz)
                if any(d.is_mem() for d in assigns):
                    continue  # one store per assignblock: no intra-block store order
            else:
                dst = self.dst_reg()
            if dst in assigns:
                continue
            assigns[dst] = self.value(dst.size, depth)
        if not assigns:
            d = self.dst_reg()
            assigns[d] = self.value(d.size, depth)
        return AssignBlock(assigns)

    def irdst_assign(self, succs, depth=1):
        """AssignBlock setting IRDst to one of @succs (LocKeys)"""
        ctx = self.ctx
        if len(succs) == 1:
            dst = ExprLoc(succs[0], self.bits)
        else:
            c = self.value(self.rng.choice([1, 1, self.bits]), depth)
            dst = ExprCond(c, ExprLoc(succs[0], self.bits), ExprLoc(succs[1], self.bits))
        return AssignBlock({ctx.IRDst: dst})

    def block(self, loc_key, succs, n_blks=None, depth=2):
        n_blks = n_blks if n_blks is not None else self.rng.choice([1, 2, 2, 3])
        blks = [self.assignblk(depth) for _ in range(n_blks)]
        last = self.irdst_assign(succs)
        if blks and self.rng.random() < self.merge_irdst:
            # IRDst shares the last AssignBlock with other assignments (what lifters emit for one-
            # AssignBlock instructions: conditional moves, LOOP, delay slots): the destination is
            # computed from the values before this AssignBlock
            both = dict(blks.pop())
            both.update(last)
            last = AssignBlock(both)
        blks.append(last)
        return IRBlock(self.ctx.loc_db, loc_key, blks)

    def new_ircfg(self):
        return IRCFG(self.ctx.IRDst, self.ctx.loc_db)


def initial_state(rng, ctx, seed):
    """concrete register file satisfying the non-aliasing discipline: pointer
    registers hold values >= 2^20 apart, far from the constant addresses"""
    from vf import refsem
    ids = {}
    regs = ctx.all_regs()
    slots = list(range(2, 2 + len(ctx.ptrs) * 3))
    rng.shuffle(slots)
    for i, r in enumerate(ctx.ptrs):
        ids[r] = (slots[i] << 20) + rng.choice([0, 0x100, 0x8000, 0xfff8, 0x1000])
    for r in regs:
        if r in ids:
            continue
        if r.size == 1:
            ids[r] = rng.getrandbits(1)
        elif rng.random() < 0.5:
            ids[r] = rng.choice(boundary_values(r.size))
        else:
            ids[r] = rng.getrandbits(r.size)
    return refsem.Env(ids=ids, seed=seed)


class LocMap(object):
    """Env.locs adapter: loc_key -> offset through a LocationDB"""

    def __init__(self, loc_db):
        self.loc_db = loc_db

    def get(self, loc_key, default=None):
        off = self.loc_db.get_location_offset(loc_key)
        return default if off is None else off
