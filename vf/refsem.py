"""Reference semantics of miasm expressions: an independent big-int evaluator.

Shares nothing with miasm except the Expr classes it walks.  Written from the
documented meaning of the IR: fixed-width two's complement, C-like signed
division (truncate toward zero), shifts by >= width give zero (sign fill for
the arithmetic shift), rotations modulo the width, cntleadzeros(0) ==
cnttrailzeros(0) == width, parity of the low byte, flag operators by their
arithmetic definition.

  evaluate(expr, env)  ->  int in [0, 2^size)

env: Env instance (identifier values + a total memory function).
Raises Undef on division/modulo by zero, Unsupported for operators without a
value semantics here (calls, segments, floating point, cpuid ...).
"""
import hashlib

from miasm.expression.expression import (ExprInt, ExprId, ExprLoc, ExprMem, ExprOp,
                                         ExprSlice, ExprCompose, ExprCond, ExprAssign)


class Undef(Exception):
    pass


class Unsupported(Exception):
    pass


def mask(n):
    return (1 << n) - 1


def to_signed(v, n):
    return v - (1 << n) if v >> (n - 1) else v


class Env(object):
    """Concrete valuation: identifier -> int, and a total, deterministic
    memory (address, address width) -> byte derived from a seed.  `mem` holds
    explicit overrides (address -> byte); `reads` logs (addr, size_bytes)."""

    def __init__(self, ids=None, seed=0, mem=None, big_endian=False, locs=None):
        self.ids = ids if ids is not None else {}
        self.seed = seed
        self.mem = mem if mem is not None else {}
        self.big_endian = big_endian
        self.locs = locs if locs is not None else {}
        self.reads = []
        self._cache = {}

    def default_byte(self, addr):
        b = self._cache.get(addr)
        if b is None:
            h = hashlib.blake2b(b"%d:%d" % (self.seed, addr), digest_size=1).digest()
            b = h[0]
            if len(self._cache) < 100000:
                self._cache[addr] = b
        return b

    def byte(self, addr):
        b = self.mem.get(addr)
        if b is None:
            b = self.default_byte(addr)
        return b

    def read(self, addr, size, ptr_size):
        """size in bits; non multiple of 8 sizes read ceil(size/8) bytes and
        keep the low `size` bits."""
        nbytes = (size + 7) // 8
        self.reads.append((addr, nbytes, ptr_size))
        amask = mask(ptr_size)
        val = 0
        if self.big_endian:
            for i in range(nbytes):
                val = (val << 8) | self.byte((addr + i) & amask)
        else:
            for i in range(nbytes):
                val |= self.byte((addr + i) & amask) << (8 * i)
        return val & mask(size)

    def ident(self, expr):
        try:
            return self.ids[expr] & mask(expr.size)
        except KeyError:
            h = hashlib.blake2b(("%d:%s:%d" % (self.seed, expr.name, expr.size)).encode(
                "utf-8", "backslashreplace"), digest_size=32).digest()
            v = int.from_bytes(h, "little") & mask(expr.size)
            self.ids[expr] = v
            return v


def parity8(v):
    """1 iff the low byte has an even number of set bits"""
    return 1 - (bin(v & 0xff).count("1") & 1)


def _sdiv(a, b, n):
    if b == 0:
        raise Undef("sdiv by zero")
    sa, sb = to_signed(a, n), to_signed(b, n)
    q = abs(sa) // abs(sb)
    if (sa < 0) != (sb < 0):
        q = -q
    return q & mask(n)


def _smod(a, b, n):
    if b == 0:
        raise Undef("smod by zero")
    sa, sb = to_signed(a, n), to_signed(b, n)
    r = abs(sa) % abs(sb)
    if sa < 0:
        r = -r
    return r & mask(n)


def _carry_add(a, b, c, n):
    return 1 if a + b + c >= (1 << n) else 0


def _overflow_add(a, b, c, n):
    s = to_signed(a, n) + to_signed(b, n) + c
    return 0 if -(1 << (n - 1)) <= s < (1 << (n - 1)) else 1


def _borrow_sub(a, b, c, n):
    return 1 if a < b + c else 0


def _overflow_sub(a, b, c, n):
    s = to_signed(a, n) - to_signed(b, n) - c
    return 0 if -(1 << (n - 1)) <= s < (1 << (n - 1)) else 1


def eval_op(op, args, sizes, size):
    """args: list of ints, sizes: their widths, size: result width"""
    n = sizes[0]
    m = mask(n)
    if op == '+':
        return sum(args) & m
    if op == '*':
        r = 1
        for a in args:
            r = (r * a) & m
        return r
    if op == '^':
        r = 0
        for a in args:
            r ^= a
        return r
    if op == '&':
        r = m
        for a in args:
            r &= a
        return r
    if op == '|':
        r = 0
        for a in args:
            r |= a
        return r
    if op == '-':
        if len(args) == 1:
            return (-args[0]) & m
        if len(args) == 2:
            return (args[0] - args[1]) & m
        raise Unsupported("'-' with %d args" % len(args))
    if op in ('>>', '<<', 'a>>', '>>>', '<<<'):
        if len(args) != 2:
            raise Unsupported("shift arity")
        a, c = args
        if op == '>>':
            return 0 if c >= n else a >> c
        if op == '<<':
            return 0 if c >= n else (a << c) & m
        if op == 'a>>':
            if c >= n:
                return m if a >> (n - 1) else 0
            return (to_signed(a, n) >> c) & m
        c %= n
        if op == '>>>':
            return ((a >> c) | (a << (n - c))) & m
        return ((a << c) | (a >> (n - c))) & m
    if op in ('/', 'udiv'):
        if len(args) != 2:
            raise Unsupported("div arity")
        if args[1] == 0:
            raise Undef("div by zero")
        return args[0] // args[1]
    if op in ('%', 'umod'):
        if len(args) != 2:
            raise Unsupported("mod arity")
        if args[1] == 0:
            raise Undef("mod by zero")
        return args[0] % args[1]
    if op == 'sdiv':
        return _sdiv(args[0], args[1], n)
    if op == 'smod':
        return _smod(args[0], args[1], n)
    if op == '**':
        if len(args) != 2:
            raise Unsupported("pow arity")
        return pow(args[0], args[1], 1 << n)
    if op == 'parity':
        return parity8(args[0])
    if op == 'cntleadzeros':
        a = args[0]
        return n - a.bit_length()
    if op == 'cnttrailzeros':
        a = args[0]
        if a == 0:
            return n
        return (a & -a).bit_length() - 1
    if op.startswith('zeroExt_'):
        return args[0]
    if op.startswith('signExt_'):
        return to_signed(args[0], n) & mask(size)
    if op == '==':
        return 1 if args[0] == args[1] else 0
    if op == '<u':
        return 1 if args[0] < args[1] else 0
    if op == '<=u':
        return 1 if args[0] <= args[1] else 0
    if op == '<s':
        return 1 if to_signed(args[0], n) < to_signed(args[1], n) else 0
    if op == '<=s':
        return 1 if to_signed(args[0], n) <= to_signed(args[1], n) else 0
    if op in ('bcdadd', 'bcdadd_cf'):
        # packed-BCD addition of two 4-digit numbers; unspecified for invalid digits
        if n != 16:
            raise Unsupported("bcdadd width")
        digs = []
        for v in args:
            ds = [(v >> (4 * i)) & 0xf for i in range(4)]
            if any(d > 9 for d in ds):
                raise Undef("invalid BCD digit")
            digs.append(ds[0] + 10 * ds[1] + 100 * ds[2] + 1000 * ds[3])
        s = digs[0] + digs[1]
        if op == 'bcdadd_cf':
            return 1 if s >= 10000 else 0
        s %= 10000
        return (s % 10) | ((s // 10 % 10) << 4) | ((s // 100 % 10) << 8) | ((s // 1000) << 12)
    # ---- flags, by arithmetic definition
    if op == 'FLAG_EQ':
        return 1 if args[0] == 0 else 0
    if op == 'FLAG_EQ_AND':
        return 1 if (args[0] & args[1]) == 0 else 0
    if op == 'FLAG_EQ_CMP':
        return 1 if args[0] == args[1] else 0
    if op == 'FLAG_SIGN_SUB':
        return ((args[0] - args[1]) & m) >> (n - 1)
    if op == 'FLAG_SIGN_ADD':
        return ((args[0] + args[1]) & m) >> (n - 1)
    if op == 'FLAG_ADD_CF':
        return _carry_add(args[0], args[1], 0, n)
    if op == 'FLAG_ADD_OF':
        return _overflow_add(args[0], args[1], 0, n)
    if op == 'FLAG_SUB_CF':
        return _borrow_sub(args[0], args[1], 0, n)
    if op == 'FLAG_SUB_OF':
        return _overflow_sub(args[0], args[1], 0, n)
    if op == 'FLAG_EQ_ADDWC':
        return 1 if (args[0] + args[1] + args[2]) & m == 0 else 0
    if op == 'FLAG_EQ_SUBWC':
        return 1 if (args[0] - args[1] - args[2]) & m == 0 else 0
    if op == 'FLAG_SIGN_ADDWC':
        return ((args[0] + args[1] + args[2]) & m) >> (n - 1)
    if op == 'FLAG_SIGN_SUBWC':
        return ((args[0] - args[1] - args[2]) & m) >> (n - 1)
    if op == 'FLAG_ADDWC_CF':
        return _carry_add(args[0], args[1], args[2], n)
    if op == 'FLAG_ADDWC_OF':
        return _overflow_add(args[0], args[1], args[2], n)
    if op == 'FLAG_SUBWC_CF':
        return _borrow_sub(args[0], args[1], args[2], n)
    if op == 'FLAG_SUBWC_OF':
        return _overflow_sub(args[0], args[1], args[2], n)
    # ---- condition codes over 1-bit flags
    if op == 'CC_U<=':
        cf, zf = args
        return (cf | zf) & 1
    if op == 'CC_U>=':
        return (~args[0]) & 1
    if op == 'CC_U<':
        return args[0] & 1
    if op == 'CC_U>':
        cf, zf = args
        return (~(cf | zf)) & 1
    if op == 'CC_S<':
        nf, of = args
        return (nf ^ of) & 1
    if op == 'CC_S>=':
        nf, of = args
        return (~(nf ^ of)) & 1
    if op == 'CC_S>':
        nf, of, zf = args
        return (~(zf | (nf ^ of))) & 1
    if op == 'CC_S<=':
        nf, of, zf = args
        return (zf | (nf ^ of)) & 1
    if op == 'CC_EQ':
        return args[0] & 1
    if op == 'CC_NE':
        return (~args[0]) & 1
    if op == 'CC_NEG':
        return args[0] & 1
    if op == 'CC_POS':
        return (~args[0]) & 1
    raise Unsupported(op)


# operators whose operand widths may differ (carry-in is 1 bit)
_WC_OPS = frozenset([
    "FLAG_EQ_ADDWC", "FLAG_EQ_SUBWC", "FLAG_SIGN_ADDWC", "FLAG_SIGN_SUBWC",
    "FLAG_ADDWC_CF", "FLAG_ADDWC_OF", "FLAG_SUBWC_CF", "FLAG_SUBWC_OF"])


def evaluate(expr, env, hook=None):
    """Evaluate @expr under @env.  @hook(op_expr, argvalues) may return a value
    for operators refsem does not define (uninterpreted calls), else None."""
    return _ev(expr, env, hook)


def _ev(e, env, hook):
    cls = e.__class__
    if cls is ExprInt:
        return int(e) & mask(e.size)
    if cls is ExprId:
        return env.ident(e)
    if cls is ExprLoc:
        v = env.locs.get(e.loc_key)
        if v is None:
            raise Unsupported("location without offset")
        return v & mask(e.size)
    if cls is ExprMem:
        addr = _ev(e.ptr, env, hook)
        return env.read(addr, e.size, e.ptr.size)
    if cls is ExprSlice:
        v = _ev(e.arg, env, hook)
        return (v >> e.start) & mask(e.stop - e.start)
    if cls is ExprCompose:
        v = 0
        idx = 0
        for a in e.args:
            v |= _ev(a, env, hook) << idx
            idx += a.size
        return v
    if cls is ExprCond:
        c = _ev(e.cond, env, hook)
        return _ev(e.src1 if c else e.src2, env, hook)
    if cls is ExprOp:
        args = [_ev(a, env, hook) for a in e.args]
        sizes = [a.size for a in e.args]
        try:
            return eval_op(e.op, args, sizes, e.size) & mask(e.size)
        except Unsupported:
            if hook is not None:
                r = hook(e, args)
                if r is not None:
                    return r & mask(e.size)
            raise
    if cls is ExprAssign:
        raise Unsupported("assignment has no value")
    raise Unsupported(repr(cls))
