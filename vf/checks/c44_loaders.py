"""C44 loading a binary maps its sections and imports faithfully.

Monitored: miasm/jitter/loader/pe.py (vm_load_pe, preload_pe with libimp_pe) and
miasm/jitter/loader/elf.py (vm_load_elf, preload_elf with libimp_elf) on a native VmMngr.
Inputs: PE32 / PE32+ images built with miasm.loader.pe_init (page-aligned and unaligned section
layouts, raw size smaller / equal / larger than the virtual size, imports by name and ordinal);
ELF images produced at check time by gcc/ld (PIE, non-PIE, shared objects, -m32 freestanding,
several linker layouts) plus hand-assembled minimal ELF32/ELF64, little and big endian.
Oracle: an independent struct-based parse of the *file* (section table / program headers / import
directory; readelf for relocation symbols): expected bytes = file data + zero padding up to the
virtual size at the virtual address, expected write permission = header flag, expected target of an
import slot = the (library, function) named by the file.
"""
import os
import struct
import subprocess

from vf import common

CHECK = dict(
    id="C44", level="exploration",
    rule=("generated PE images: 1-5 sections, aligned (0x1000) or unaligned (0x10/0x200 grid) layout, "
          "virtual size 1..0x2800, raw size <, =, > virtual size, write flag random, 0-3 imported DLLs "
          "with 1-12 functions by name or ordinal, functions listed twice in a descriptor and a second "
          "descriptor for the same DLL (same / other case of its name), PE32 and PE32+; ELF: gcc/ld outputs for 7 link "
          "modes x 6 linker layouts with random numbers of functions / initialised / zero data and "
          "imported libc symbols, loaded at base 0 or a random page-aligned base (ET_DYN), and "
          "synthetic minimal ELF32/64 LSB/MSB with unaligned vaddrs and memsz > filesz; distinct = "
          "distinct (format, layout, section/segment shape tuple); non-trivial = all"),
    assumptions=["the section table / program header parse in this module follows the PE-COFF and ELF "
                 "gABI field layouts",
                 "bytes past the virtual size of a section (alignment slack) are not constrained",
                 "a section whose bytes are shadowed by a later section in the same image (overlapping "
                 "layouts) is never generated",
                 "import slots are compared after preload_*; section contents before it"],
    timeout={"quick": 900, "thorough": 3400},
    exhaustive={"quick": False, "thorough": False},
    overlay="plain",
    crash_is_violation=True,
    technique="runtime monitoring: model of the mapped image computed from the file, compared with VmMngr",
)

NSHARDS = int(os.environ.get("VERIF_DEV_SHARDS", "16"))   # development aid
PAGE_WRITE = 2


def shards(tier, seed, scale):
    per = 20 if tier == "quick" else 320
    return common.mk_shards(NSHARDS, seed, tier, per * 16 // NSHARDS, scale, salt="c44")


def new_vm():
    from miasm.jitter.VmMngr import Vm
    vm = Vm()
    vm.init_memory_page_pool()
    vm.init_code_bloc_pool()
    vm.init_memory_breakpoint()
    return vm


# ============================================================================ PE
def parse_pe(data):
    """independent parse: image base, sections, import slots"""
    lfanew = struct.unpack_from("<I", data, 0x3c)[0]
    assert data[lfanew:lfanew + 4] == b"PE\0\0"
    nsec, = struct.unpack_from("<H", data, lfanew + 6)
    optsize, = struct.unpack_from("<H", data, lfanew + 20)
    opt = lfanew + 24
    magic, = struct.unpack_from("<H", data, opt)
    plus = magic == 0x20b
    base = struct.unpack_from("<Q", data, opt + 24)[0] if plus else struct.unpack_from("<I", data, opt + 28)[0]
    ddir = opt + (112 if plus else 96)
    imp_rva, imp_size = struct.unpack_from("<II", data, ddir + 8)
    secs = []
    p = opt + optsize
    for i in range(nsec):
        name, vsize, va, rawsize, rawptr, _, _, _, _, flags = struct.unpack_from("<8sIIIIIIHHI", data, p + 40 * i)
        secs.append(dict(name=name.rstrip(b"\0").decode("latin1"), vsize=vsize, va=va, rawsize=rawsize,
                         rawptr=rawptr, flags=flags))

    def rva2off(rva):
        for s in secs:
            if s["va"] <= rva < s["va"] + max(s["vsize"], s["rawsize"]):
                return rva - s["va"] + s["rawptr"]
        return None

    def cstr(off):
        return data[off:data.index(b"\0", off)].decode("latin1")

    imports = []
    if imp_rva:
        off = rva2off(imp_rva)
        wb = 8 if plus else 4
        while True:
            oft, _, _, name_rva, ft = struct.unpack_from("<IIIII", data, off)
            if not (oft or name_rva or ft):
                break
            dll = cstr(rva2off(name_rva))
            lookup = oft or ft
            i = 0
            while True:
                toff = rva2off(lookup + wb * i)
                thunk = struct.unpack_from("<Q" if plus else "<I", data, toff)[0]
                if thunk == 0:
                    break
                if thunk >> (wb * 8 - 1):
                    func = thunk & 0xffff
                else:
                    func = cstr(rva2off(thunk & 0x7fffffff) + 2)
                imports.append((ft + wb * i, dll, func))
                i += 1
            off += 20
    return dict(base=base, plus=plus, secs=secs, imports=imports)


FUNCS = ["CreateFileA", "ReadFile", "WriteFile", "CloseHandle", "ExitProcess", "GetProcAddress", "LoadLibraryA",
         "VirtualAlloc", "GetLastError", "MessageBoxA", "RegOpenKeyExA", "lstrlenA", "HeapAlloc", "Sleep"]
DLLS = ["kernel32.dll", "USER32.dll", "ADVAPI32.DLL", "ntdll.dll", "msvcrt.dll"]


def gen_pe(rng):
    from miasm.loader import pe_init
    wsize = rng.choice([32, 32, 64])
    unaligned = rng.random() < 0.4
    e = pe_init.PE(wsize=wsize)
    e.NThdr.ImageBase = rng.choice([0x400000, 0x10000000, 0x1000000]) if wsize == 32 else \
        rng.choice([0x140000000, 0x180000000, 0x400000])
    nsec = rng.randint(1, 5)
    va = 0x1000
    shape = []
    for i in range(nsec):
        vsize = rng.choice([1, 0x10, 0x123, 0x200, 0x400, 0xfff, 0x1000, 0x1001, 0x2800])
        r = rng.random()
        if r < 0.3:
            nraw = vsize
        elif r < 0.65:
            nraw = rng.randrange(0, vsize + 1)          # zero padding needed
        else:
            nraw = (vsize + 0x1ff) & ~0x1ff             # file-aligned raw data larger than the virtual size
        if unaligned:
            va = (va + rng.choice([0x10, 0x20, 0x200, 0x210])) & ~0xf
            if i == 0 and va & 0xfff == 0:
                va += 0x10
        else:
            va = (va + 0xfff) & ~0xfff
        data = bytes((rng.randrange(1, 256)) for _ in range(min(nraw, 64))) * (nraw // 64 + 1)
        data = data[:nraw]
        writable = rng.random() < 0.5
        flags = 0x40000040 | (0x80000000 if writable else 0) | (0x20000020 if i == 0 else 0)
        s = e.SHList.add_section(name=".s%d" % i, addr=va, data=data, flags=flags)
        s.size = vsize
        shape.append((vsize > nraw, vsize < nraw, writable))
        span = max(vsize, nraw)
        va = va + span
        if not unaligned:
            va += rng.choice([0, 0, 0x1000, 0x3000])
    nimp = 0
    if rng.random() < 0.8:
        va = (va + 0xfff) & ~0xfff
        dlls = rng.sample(DLLS, rng.randint(1, 3))
        desc = []
        for k, dll in enumerate(dlls):
            funcs = []
            for f in rng.sample(FUNCS, rng.randint(1, 12)):
                funcs.append(f if rng.random() < 0.8 else rng.randrange(1, 500))
            if rng.random() < 0.35:
                # the same function (name or ordinal) listed again in the same descriptor
                for f in rng.sample(funcs, min(len(funcs), rng.randint(1, 2))):
                    funcs.insert(rng.randrange(len(funcs) + 1), f)
            desc.append(({"name": dll, "firstthunk": None}, funcs))
        if rng.random() < 0.45:
            # a second import descriptor for a DLL already imported (same or different case of its
            # name), sharing some of its functions
            first_name, first_funcs = rng.choice([(d[0]["name"], d[1]) for d in desc])
            name = rng.choice([first_name, first_name.lower(), first_name.upper(), first_name.capitalize()])
            funcs = rng.sample(first_funcs, rng.randint(1, len(first_funcs)))
            if rng.random() < 0.5:
                funcs.append(rng.choice(FUNCS))
            desc.insert(rng.randrange(len(desc) + 1), ({"name": name, "firstthunk": None}, funcs))
        nimp = sum(len(d[1]) for d in desc)
        siat = e.SHList.add_section(name=".iat", addr=va, rawsize=0x400, flags=0xC0000040)
        desc[0][0]["firstthunk"] = siat.addr + rng.choice([0, 8, 0x40])
        e.DirImport.add_dlldesc(desc)
        va = (siat.addr + 0x1000 + 0xfff) & ~0xfff
        simp = e.SHList.add_section(name=".idata", addr=va, rawsize=len(e.DirImport), flags=0xC0000040)
        e.DirImport.set_rva(simp.addr)
    return bytes(e), dict(fmt="PE32+" if wsize == 64 else "PE32", layout="unaligned" if unaligned else "aligned",
                          shape=tuple(shape), nimp=nimp)


def check_region(rec, fail, vm, what, addr, want, writable, keyp, permp=None):
    """bytes and write permission of [addr, addr+len(want))"""
    rec.ev()
    try:
        got = vm.get_mem(addr, len(want))
    except Exception as exc:
        vm.set_exception(0)
        fail(keyp + ": bytes of the virtual range are not mapped", "%s at 0x%x size 0x%x: %s" % (what, addr, len(want), exc))
        return False
    ok = True
    if got != want:
        k = next(i for i in range(len(want)) if got[i] != want[i])
        region = "file data" if want[k:] .strip(b"\0") else "zero padding"
        fail("%s: content differs in the %s" % (keyp, region),
             "%s: byte 0x%x is 0x%02x, file says 0x%02x" % (what, addr + k, got[k], want[k]))
        ok = False
    # write permission of every page holding a byte of the range
    pages = vm.get_all_memory()
    seen = False
    for pad, info in pages.items():
        if pad < addr + len(want) and addr < pad + info["size"]:
            seen = True
            has_w = bool(info["access"] & PAGE_WRITE)
            if has_w != writable:
                fail("%s: %s" % (permp or keyp, "not writable although the header requests write access" if writable
                                 else "mapped writable although the header does not request write access"),
                     "%s at 0x%x: page 0x%x access %d" % (what, addr, pad, info["access"]))
                ok = False
                break
    if ok and seen:
        rec.count("regions_verified")
    return ok


def run_pe(rng, rec, idx):
    from miasm.jitter.loader.pe import vm_load_pe, preload_pe, libimp_pe
    try:
        data, meta = gen_pe(rng)
    except Exception as exc:            # the builder (pe_init) is C42's subject, not this property's
        rec.count("pe_build_failed:%s" % type(exc).__name__)
        return
    info = parse_pe(data)
    layout = meta["layout"]
    rec.count("pe:%s/%s" % (meta["fmt"], layout))
    rec.distinct("pe/%s/%s/%r" % (meta["fmt"], layout, meta["shape"]))
    witness = dict(format=meta["fmt"], layout=layout, image_base=hex(info["base"]),
                   sections=[(s["name"], hex(s["va"]), hex(s["vsize"]), hex(s["rawsize"]), hex(s["flags"]))
                             for s in info["secs"]], file_hex_head=data[:0x40].hex(), n_imports=len(info["imports"]))
    if idx < 2:
        rec.sample(dict(witness))

    def fail(key, what):
        rec.fail(key, what, dict(witness, page_table=repr(vm).split("\n")[1:30]))

    vm = new_vm()
    load_hdr = rng.random() < 0.8
    try:
        pe = vm_load_pe(vm, data, load_hdr=load_hdr)
    except Exception as exc:
        rec.fail("vm_load_pe (%s layout): raises %s" % (layout, type(exc).__name__), repr(exc), witness)
        return
    for s in info["secs"]:
        raw = data[s["rawptr"]:s["rawptr"] + s["rawsize"]]
        want = (raw[:s["vsize"]] + b"\0" * s["vsize"])[:s["vsize"]]
        cls = "raw<virtual" if s["rawsize"] < s["vsize"] else ("raw>virtual" if s["rawsize"] > s["vsize"] else "raw=virtual")
        rec.count("pe_section:%s/%s/%s" % (layout, cls, "W" if s["flags"] & 0x80000000 else "RO"))
        check_region(rec, fail, vm, "section %s" % s["name"], info["base"] + s["va"], want,
                     bool(s["flags"] & 0x80000000), "PE %s layout, section (%s)" % (layout, cls),
                     "PE %s layout, section" % layout)
    if not info["imports"]:
        return
    libs = libimp_pe()
    try:
        preload_pe(vm, pe, libs)
    except Exception as exc:
        rec.fail("preload_pe: raises %s" % type(exc).__name__, repr(exc), witness)
        return
    wb = 8 if info["plus"] else 4
    owners = {}
    for slot, dll, func in info["imports"]:
        owners[(dll.lower(), func)] = owners.get((dll.lower(), func), 0) + 1
    for slot, dll, func in info["imports"]:
        rec.ev()
        kind = "ordinal" if isinstance(func, int) else "name"
        shared = owners[(dll.lower(), func)] > 1
        if shared:
            kind += ", function imported through several slots"
            rec.count("pe_import_slots_sharing_their_function")
        try:
            p = int.from_bytes(vm.get_mem(info["base"] + slot, wb), "little")
        except Exception as exc:
            vm.set_exception(0)
            fail("PE import slot not mapped", "slot 0x%x of %s!%s" % (info["base"] + slot, dll, func))
            continue
        base = libs.name2off.get(dll.lower())
        back = libs.fad2info.get(p)
        if base is None or back != (base, func):
            fail("PE import slot (%s) does not map back to its function" % kind,
                 "slot 0x%x of %s!%s holds 0x%x -> %r (library base %r)" % (info["base"] + slot, dll, func, p, back, base))
        else:
            rec.count("import_slots_verified")
            rec.count("pe_import:" + kind)


# ============================================================================ ELF
def parse_elf(data):
    assert data[:4] == b"\x7fELF"
    is64 = data[4] == 2
    end = "<" if data[5] == 1 else ">"
    if is64:
        etype, _, _, _, phoff = struct.unpack_from(end + "HHIQQ", data, 16)
        phentsize, phnum = struct.unpack_from(end + "HH", data, 54)
    else:
        etype, _, _, _, phoff = struct.unpack_from(end + "HHIII", data, 16)
        phentsize, phnum = struct.unpack_from(end + "HH", data, 42)
    segs = []
    for i in range(phnum):
        off = phoff + i * phentsize
        if is64:
            ptype, flags, offset, vaddr, _, filesz, memsz, _ = struct.unpack_from(end + "IIQQQQQQ", data, off)
        else:
            ptype, offset, vaddr, _, filesz, memsz, flags, _ = struct.unpack_from(end + "IIIIIIII", data, off)
        if ptype == 1:
            segs.append(dict(vaddr=vaddr, memsz=memsz, offset=offset, filesz=filesz, flags=flags))
    return dict(is64=is64, end=end, etype=etype, segs=segs)


def readelf_relocs(path):
    """offset -> symbol name, for relocations that name a symbol (binutils readelf: independent parser)"""
    out = {}
    r = subprocess.run(["readelf", "-rW", path], stdout=subprocess.PIPE, stderr=subprocess.DEVNULL)
    for line in r.stdout.decode(errors="replace").splitlines():
        parts = line.split()
        if len(parts) >= 5 and parts[2].startswith("R_"):
            try:
                off = int(parts[0], 16)
                int(parts[3], 16)
            except ValueError:
                continue
            name = parts[4].split("@")[0]
            if name and not name.startswith(("+", "-")):
                out.setdefault(off, name)
    return out


LIBC = ["puts", "strlen", "malloc", "free", "getenv", "atoi", "memcpy", "strcmp", "abs", "rand"]
LINK_MODES = ["pie", "nopie", "shared", "static-nostdlib", "m32-static", "m32-shared", "nopie"]
LAYOUTS = [[], ["-Wl,-z,noseparate-code"], ["-Wl,-z,norelro"], ["-Wl,-N"], ["-Wl,-z,max-page-size=0x10000"],
           ["-Wl,-z,now", "-fno-plt"]]


def gen_c(rng, freestanding):
    nfun = rng.randint(1, 6)
    ninit = rng.choice([0, 1, 16, 1000, 5000])
    nbss = rng.choice([0, 1, 64, 5000, 70000])
    nconst = rng.choice([0, 3, 300])
    ext = rng.sample(LIBC, rng.randint(0, 5))
    src = []
    protos = {"puts": "int puts(const char*);", "strlen": "unsigned long strlen(const char*);",
              "malloc": "void *malloc(unsigned long);", "free": "void free(void*);",
              "getenv": "char *getenv(const char*);", "atoi": "int atoi(const char*);",
              "memcpy": "void *memcpy(void*, const void*, unsigned long);",
              "strcmp": "int strcmp(const char*, const char*);", "abs": "int abs(int);", "rand": "int rand(void);"}
    for e in ext:
        src.append(protos[e])
    if ninit:
        src.append("unsigned char init_data[%d] = {%s};" % (ninit, ",".join(str(rng.randrange(1, 256)) for _ in range(min(ninit, 40)))))
    if nbss:
        src.append("unsigned char zero_data[%d];" % nbss)
    if nconst:
        src.append("const unsigned short const_data[%d] = {%s};" % (nconst, ",".join(str(rng.randrange(1, 65536)) for _ in range(min(nconst, 40)))))
    for i in range(nfun):
        body = "int r = a * %d + %d;" % (rng.randrange(2, 99), rng.randrange(1000))
        if ninit:
            body += " r += init_data[a & 0];"
        if nbss:
            body += " zero_data[0] = (unsigned char)r;"
        if nconst:
            body += " r ^= const_data[1];"
        src.append("int f%d(int a) { %s return r; }" % (i, body))
    calls = []
    for e in ext:
        calls.append({"puts": "puts(\"x\");", "strlen": "r += (int)strlen(\"abc\");", "malloc": "p = malloc(r & 15);",
                      "free": "free(p);", "getenv": "p = getenv(\"HOME\");", "atoi": "r += atoi(\"12\");",
                      "memcpy": "memcpy(&r, \"abcd\", 4);", "strcmp": "r += strcmp(\"a\", \"b\");",
                      "abs": "r = abs(r);", "rand": "r += rand();"}[e])
    entry = "_start" if freestanding else "main"
    src.append("int %s(void) { int r = 0; void *p = 0; %s %s return r + (p != 0); }" % (
        entry, " ".join("r += f%d(r);" % i for i in range(nfun)), " ".join(calls)))
    return "\n".join(src) + "\n", (nfun, ninit > 0, nbss > 0, nconst > 0, len(ext))


def gen_elf_toolchain(rng, rec, workdir, idx):
    mode = rng.choice(LINK_MODES)
    layout = rng.choice(LAYOUTS)
    freestanding = mode in ("static-nostdlib", "m32-static", "m32-shared")
    src, shape = gen_c(rng, freestanding)
    cpath = os.path.join(workdir, "t%d.c" % idx)
    opath = os.path.join(workdir, "t%d.elf" % idx)
    with open(cpath, "w") as fd:
        fd.write(src)
    flags = {"pie": ["-fPIE", "-pie"], "nopie": ["-no-pie", "-fno-pie"], "shared": ["-shared", "-fPIC"],
             "static-nostdlib": ["-static", "-nostdlib", "-ffreestanding", "-no-pie", "-fno-pie",
                                 "-Wl,--unresolved-symbols=ignore-all"],
             "m32-static": ["-m32", "-static", "-nostdlib", "-ffreestanding", "-no-pie", "-fno-pie",
                            "-Wl,--unresolved-symbols=ignore-all"],
             "m32-shared": ["-m32", "-shared", "-fPIC", "-nostdlib", "-ffreestanding"]}[mode]
    opt = rng.choice(["-O0", "-O1", "-Os"])
    cmd = ["gcc", opt, "-w", "-fno-builtin", "-o", opath, cpath] + flags + layout
    env = dict(os.environ)
    env.pop("LD_PRELOAD", None)
    r = subprocess.run(cmd, stdout=subprocess.PIPE, stderr=subprocess.STDOUT, env=env)
    if r.returncode != 0 or not os.path.exists(opath):
        rec.count("elf_toolchain_rejected:%s" % mode)
        if rec.counters.get("elf_toolchain_rejected:%s" % mode, 0) <= 1:
            rec.extra.setdefault("toolchain_errors", {})[mode] = r.stdout.decode(errors="replace")[-300:]
        return None
    data = open(opath, "rb").read()
    return data, dict(kind="toolchain", mode=mode, layout=" ".join(layout) or "default", shape=shape, path=opath,
                      cmd=" ".join(cmd[1:]))


def gen_elf_synth(rng):
    is64 = rng.random() < 0.5
    end = rng.choice("<>")
    nseg = rng.randint(1, 3)
    ehsize = 64 if is64 else 52
    phsize = 56 if is64 else 32
    segs = []
    off = ehsize + phsize * nseg
    va = rng.choice([0x8048000, 0x400000, 0x10000])
    blobs = b""
    for i in range(nseg):
        filesz = rng.choice([0, 1, 0x33, 0x200, 0xfff, 0x1000, 0x1234])
        memsz = filesz + rng.choice([0, 0, 1, 0x100, 0x2000])
        if memsz == 0:
            memsz = 1
        skew = rng.choice([0, 0, 4, 0x123, 0xff0])
        va = ((va + 0xfff) & ~0xfff) + skew
        blob = bytes(rng.randrange(1, 256) for _ in range(min(filesz, 48))) * (filesz // 48 + 1)
        blob = blob[:filesz]
        flags = rng.choice([4, 5, 6, 7, 6, 4])
        segs.append(dict(vaddr=va, memsz=memsz, offset=off, filesz=filesz, flags=flags))
        blobs += blob
        off += filesz
        va += memsz
    machine = {("<", True): 62, ("<", False): 3, (">", True): 21, (">", False): 8}[(end, is64)]
    ident = b"\x7fELF" + bytes([2 if is64 else 1, 1 if end == "<" else 2, 1]) + b"\0" * 9
    if is64:
        hdr = ident + struct.pack(end + "HHIQQQIHHHHHH", 2, machine, 1, segs[0]["vaddr"], ehsize, 0, 0, ehsize, phsize, nseg, 64, 0, 0)
        ph = b"".join(struct.pack(end + "IIQQQQQQ", 1, s["flags"], s["offset"], s["vaddr"], s["vaddr"], s["filesz"],
                                  s["memsz"], 0x1000) for s in segs)
    else:
        hdr = ident + struct.pack(end + "HHIIIIIHHHHHH", 2, machine, 1, segs[0]["vaddr"], ehsize, 0, 0, ehsize, phsize, nseg, 40, 0, 0)
        ph = b"".join(struct.pack(end + "IIIIIIII", 1, s["offset"], s["vaddr"], s["vaddr"], s["filesz"], s["memsz"],
                                  s["flags"], 0x1000) for s in segs)
    return hdr + ph + blobs, dict(kind="synthetic", mode="%s%s" % ("ELF64" if is64 else "ELF32", "LSB" if end == "<" else "MSB"),
                                  layout="n%d" % nseg, shape=tuple((s["memsz"] > s["filesz"], s["vaddr"] & 0xfff != 0,
                                                                     bool(s["flags"] & 2)) for s in segs))


def run_elf(rng, rec, idx, workdir):
    from miasm.jitter.loader.elf import vm_load_elf, preload_elf, libimp_elf
    if rng.random() < 0.55:
        res = gen_elf_toolchain(rng, rec, workdir, idx)
        if res is None:
            return
    else:
        res = gen_elf_synth(rng)
    data, meta = res
    info = parse_elf(data)
    rec.count("elf:%s/%s" % (meta["kind"], meta["mode"]))
    rec.distinct("elf/%s/%s/%s/%r" % (meta["kind"], meta["mode"], meta["layout"], meta["shape"]))
    base = 0
    if info["etype"] == 3 and rng.random() < 0.5:
        base = 0x1000 * rng.randrange(1, 0x7000)
    witness = dict(kind=meta["kind"], mode=meta["mode"], layout=meta["layout"], cmd=meta.get("cmd"),
                   base_addr=hex(base), segments=[(hex(s["vaddr"]), hex(s["memsz"]), hex(s["offset"]), hex(s["filesz"]),
                                                   s["flags"]) for s in info["segs"]])
    if meta["kind"] == "synthetic":
        witness["file_hex"] = data[:0x200].hex()
    if idx < 2:
        rec.sample(dict(witness))
    vm = new_vm()

    def fail(key, what):
        rec.fail(key, what, dict(witness, page_table=repr(vm).split("\n")[1:30]))

    try:
        elf = vm_load_elf(vm, data, base_addr=base)
    except Exception as exc:
        rec.fail("vm_load_elf (%s): raises %s" % (meta["kind"], type(exc).__name__), repr(exc), witness)
        return
    for s in info["segs"]:
        raw = data[s["offset"]:s["offset"] + s["filesz"]]
        want = (raw[:s["memsz"]] + b"\0" * s["memsz"])[:s["memsz"]]
        if not want:
            continue
        cls = "memsz>filesz" if s["memsz"] > s["filesz"] else "memsz=filesz"
        rec.count("elf_segment:%s/%s" % (cls, "W" if s["flags"] & 2 else "RO"))
        check_region(rec, fail, vm, "segment 0x%x" % s["vaddr"], base + s["vaddr"], want, bool(s["flags"] & 2),
                     "ELF segment (%s)" % cls, "ELF segment")
    if meta["kind"] != "toolchain" or base != 0:
        return
    relocs = readelf_relocs(meta["path"])
    libs = libimp_elf()
    try:
        preload_elf(vm, elf, libs)
    except Exception as exc:
        vm.set_exception(0)
        rec.fail("preload_elf: raises %s" % type(exc).__name__, repr(exc), witness)
        return
    wb = 8 if info["is64"] else 4
    for libad, table in libs.lib_imp2dstad.items():
        for func, slots in table.items():
            for slot in slots:
                if slot is None:
                    continue
                rec.ev()
                try:
                    p = int.from_bytes(vm.get_mem(slot, wb), "little" if info["end"] == "<" else "big")
                except Exception:
                    vm.set_exception(0)
                    fail("ELF import slot not mapped", "slot 0x%x of %s" % (slot, func))
                    continue
                back = libs.fad2info.get(p)
                named = relocs.get(slot)
                if back != (libad, func):
                    fail("ELF import slot does not map back to its function",
                         "slot 0x%x of %s holds 0x%x -> %r" % (slot, func, p, back))
                elif named is not None and named != func:
                    fail("ELF import slot resolved to another symbol than the file names",
                         "slot 0x%x: readelf says %s, loader %s" % (slot, named, func))
                else:
                    rec.count("import_slots_verified")
                    rec.count("elf_import_slots")
                    if named is not None:
                        rec.count("elf_import_slots_confirmed_by_readelf")


def run_shard(params, rec):
    common.quiet()
    rng = common.rng_for(params)
    workdir = os.path.join(os.environ.get("TMPDIR", "/tmp"), "c44_%d" % params["shard"])
    os.makedirs(workdir, exist_ok=True)
    for i in range(params["n"]):
        if rng.random() < 0.6:
            run_pe(rng, rec, i)
        else:
            run_elf(rng, rec, i, workdir)


def floors(tier, c, evaluations):
    miss = []
    need = ["pe:PE32/aligned", "pe:PE32/unaligned", "pe:PE32+/aligned", "pe:PE32+/unaligned", "pe_import:name",
            "pe_import:ordinal", "pe_import:name, function imported through several slots",
            "pe_import:ordinal, function imported through several slots",
            "elf_import_slots_confirmed_by_readelf"]
    for lay in ("aligned", "unaligned"):
        for cls in ("raw<virtual", "raw>virtual", "raw=virtual"):
            need.append("pe_section:%s/%s/W" % (lay, cls))
            need.append("pe_section:%s/%s/RO" % (lay, cls))
    for cls in ("memsz>filesz", "memsz=filesz"):
        for w in ("W", "RO"):
            need.append("elf_segment:%s/%s" % (cls, w))
    for k in need:
        if c.get(k, 0) == 0:
            miss.append("never observed: " + k)
    tool = sum(v for k, v in c.items() if k.startswith("elf:toolchain/"))
    synth = sum(v for k, v in c.items() if k.startswith("elf:synthetic/"))
    if tool < 8:
        miss.append("fewer than 8 toolchain ELF images (%d)" % tool)
    if synth < 8:
        miss.append("fewer than 8 synthetic ELF images (%d)" % synth)
    if len([k for k in c if k.startswith("elf:toolchain/")]) < 3:
        miss.append("fewer than 3 toolchain link modes produced an image")
    if c.get("pe_import_slots_sharing_their_function", 0) < 30:
        miss.append("fewer than 30 PE import slots share their (dll, function) with another slot (%d)" %
                    c.get("pe_import_slots_sharing_their_function", 0))
    if c.get("regions_verified", 0) + c.get("failures", 0) < 100:
        miss.append("fewer than 100 sections/segments compared")
    return miss
