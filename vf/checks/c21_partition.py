"""C21 emulation results do not depend on block partitioning or caching."""
import os

from vf import common

CHECK = dict(
    id="C21", level="exploration",
    rule=("programs with counted loops (C20 generator) run on one back end under a reference "
          "configuration (jit_maxline=1, max_exec_per_call=1, cold, unbounded cache; PC trace from exec_cb) "
          "and under other configurations: jit_maxline in {1,2,3,5,50}, max_exec_per_call in {0,1,2,7}, "
          "warm re-run on the same jitter, block cache bounded to 2/3/5 entries (evictions), trace-log "
          "toggling; final state compared in all, executed-address sequence (log_mn lines captured from "
          "fd 1, consecutive repeats collapsed) in the traced ones; distinct = (arch, backend, program, config)"),
    assumptions=["LLVM back end unavailable", "the address sequence is compared after collapsing "
                 "consecutive repeats of one address (REP-style self loops print once per iteration)"],
    overlay={"quick": "plain", "thorough": "asan"},
    crash_is_violation=True,
    timeout={"quick": 1500, "thorough": 6000},
    technique="runtime monitoring: same program under different translation/caching configurations, trace and state comparison",
)

ARCHS = ["x86_32", "x86_64", "arml", "aarch64l", "mips32l", "mips32b", "ppc32b", "msp430", "x86_16",
         "armb", "armtl", "mepl"]


def shards(tier, seed, scale):
    per = 5 if tier == "quick" else 150
    out = []
    n = 24 if tier == "quick" else 32
    for i in range(n):
        out.append(dict(seed=seed, shard=i, tier=tier, hashseed=0 if i % 2 == 0 else 1 + seed + i,
                        arch=ARCHS[i % len(ARCHS)], backend="gcc" if (i // len(ARCHS)) % 2 == 0 else "python",
                        n=max(1, int(per * scale))))
    return out


class FdCapture(object):
    """capture everything written to fd 1 (Python print and C printf)"""

    def __init__(self, path):
        self.path = path

    def __enter__(self):
        import sys
        sys.stdout.flush()
        self.saved = os.dup(1)
        self.fd = os.open(self.path, os.O_WRONLY | os.O_CREAT | os.O_TRUNC, 0o600)
        os.dup2(self.fd, 1)
        return self

    def __exit__(self, *a):
        import ctypes
        import sys
        sys.stdout.flush()
        try:
            ctypes.CDLL(None).fflush(None)
        except Exception:
            pass
        os.dup2(self.saved, 1)
        os.close(self.saved)
        os.close(self.fd)
        return False


def collapse(seq):
    out = []
    for a in seq:
        if not out or out[-1] != a:
            out.append(a)
    return out


def parse_log(path):
    pcs = []
    with open(path, "rb") as fd:
        for line in fd:
            parts = line.split(None, 1)
            if not parts or len(parts[0]) != 8:
                continue
            try:
                pcs.append(int(parts[0], 16))
            except ValueError:
                continue
    return pcs


def reset_state(jitter, prog, spec, all_regs):
    """bring registers and data pages back to the program's initial state (warm re-run)"""
    jitter.cpu.set_gpreg(all_regs)        # every register, not only those the program initialises
    for addr, perm, data, name in prog.pages:
        # pages the first run left untouched are not rewritten (a write into the code page would
        # throw the translated blocks away, which is exactly what a warm run wants to keep)
        if jitter.vm.get_mem(addr, len(data)) != data:
            jitter.vm.set_mem(addr, data)
    jitter.vm.set_exception(0)
    jitter.cpu.set_exception(0)


def run_cfg(jitlib, spec, backend, prog, cfg, tmpdir, max_steps):
    """-> (Outcome, trace or None)"""
    from miasm.jitter import jitcore
    opts = dict(jit_maxline=cfg["maxline"], max_exec_per_call=cfg["maxexec"])
    saved = jitcore.JitCore.jitted_block_max_size
    if cfg.get("cache"):
        jitcore.JitCore.jitted_block_max_size = cfg["cache"]
    try:
        jitter = jitlib.new_jitter(spec, backend, prog, opts)
    finally:
        jitcore.JitCore.jitted_block_max_size = saved
    all_regs = jitter.cpu.get_gpreg()
    cache = jitter.jit.offset_to_jitted_func
    added = [0]
    orig_add = jitter.jit.add_block

    def counting_add(block):
        added[0] += 1
        return orig_add(block)
    jitter.jit.add_block = counting_add
    trace = None
    if cfg.get("toggle"):
        jitter.set_trace_log(True, False, False)
        jitter.set_trace_log(False, False, False)
    if cfg.get("warm"):
        # first run to translate everything, then restore the initial state
        out0 = jitlib.run(spec, backend, prog, max_steps=max_steps, jitter=jitter, int_handler=True)
        if out0.budget:
            return out0, None, 0
        reset_state(jitter, prog, spec, all_regs)
        jitter.exec_cb = None
        cfg["_first"] = out0
    if cfg.get("traced"):
        jitter.set_trace_log(True, False, False)
        path = os.path.join(tmpdir, "trace.log")
        with FdCapture(path):
            out = rerun(jitlib, spec, backend, prog, jitter, max_steps, cfg)
        trace = parse_log(path)
    else:
        out = rerun(jitlib, spec, backend, prog, jitter, max_steps, cfg)
    return out, trace, max(0, added[0] - len(cache))


def rerun(jitlib, spec, backend, prog, jitter, max_steps, cfg):
    if cfg.get("warm"):
        # handlers are already installed by the first run: just run again
        out = jitlib.Outcome()
        state = dict(steps=0)
        n_first = len(cfg["_first"].int_log)
        # the scratch register formula of the handler depends on the number of logged calls: restart it
        del cfg["_first"].int_log[:]
        n_first = 0

        def count(j):
            state["steps"] += 1
            if state["steps"] > max_steps:
                out.budget = True
                return False
            return True
        jitter.exec_cb = count
        try:
            jitter.run(spec.L.CODE)
        except Exception as exc:
            out.raised = type(exc).__name__
        jitlib.snapshot(jitter, spec, out)
        out.steps = state["steps"]
        # the handlers installed by the first run keep logging into its outcome
        first = cfg["_first"]
        out.int_log = first.int_log[n_first:]
        return out
    return jitlib.run(spec, backend, prog, max_steps=max_steps, jitter=jitter, int_handler=True)


def run_shard(params, rec):
    common.quiet()
    import tempfile
    from vf import jitlib
    rng = common.rng_for(params)
    spec = jitlib.ArchSpec(params["arch"])
    backend = params["backend"]
    pool = jitlib.instr_pool(spec, rng, 70)
    if len(pool) < 20:
        rec.count("pool_too_small:" + spec.mname)
        return
    tmpdir = tempfile.mkdtemp()
    thorough = params["tier"] == "thorough"
    for i in range(params["n"]):
        prog = jitlib.make_prog(spec, rng, pool, rng.randrange(4, 12), with_loop=True,
                                fault_bias=rng.choice([0.0, 0.0, 0.0, 0.1]), soft_int=rng.random() < 0.4)
        rec.ev()
        # reference: single-step configuration; its address sequence is read from the same
        # instruction log as the other configurations (exec_cb sees blocks, and a delay-slot
        # instruction never starts a block)
        refj = jitlib.new_jitter(spec, backend, prog, dict(jit_maxline=1, max_exec_per_call=1))
        refj.set_trace_log(True, False, False)
        path = os.path.join(tmpdir, "ref.log")
        with FdCapture(path):
            ref = jitlib.run(spec, backend, prog, max_steps=600, trace=True, jitter=refj, int_handler=True)
        if ref.raised == "CalledProcessError":
            rec.count("unsupported_by_backend")   # the C compiler rejected a generated block
            continue
        if ref.budget:
            rec.count("discarded_budget")
            continue
        ref_trace = collapse(parse_log(path))
        rec.count("programs:%s:%s" % (spec.mname, backend))
        if prog.loop is not None and ref.steps > len(prog.instrs) + 1:
            rec.count("with_taken_loop")
        cfgs = []
        for _ in range(7 if not thorough else 22):
            cfgs.append(dict(maxline=rng.choice([1, 2, 3, 5, 50]), maxexec=rng.choice([0, 1, 2, 7]),
                             warm=rng.random() < 0.3, cache=rng.choice([None, None, None, None, 2, 3, 5]),
                             traced=rng.random() < 0.6, toggle=rng.random() < 0.2))
        partitions = set()
        for cfg in cfgs:
            rec.count("configs_run")
            try:
                out, trace, cache_len = run_cfg(jitlib, spec, backend, prog, cfg, tmpdir, 600)
            except Exception as exc:
                rec.count("harness_cfg_error")
                rec.extra.setdefault("harness_cfg_error", repr(exc)[:300])
                continue
            if out.raised == "CalledProcessError":
                rec.count("unsupported_by_backend")
                continue
            if out.budget:
                rec.fail("%s: configuration does not finish within the reference step budget" % backend,
                         "%s %s cfg=%s" % (spec.mname, backend, cfg), dict(prog=prog.describe(), cfg=cfg))
                continue
            partitions.add((cfg["maxline"], cfg["maxexec"], cfg["cache"], cfg["warm"]))
            rec.distinct("%s|%s|%s|%s" % (spec.mname, backend, i, sorted(cfg.items())))
            if cfg.get("cache"):
                rec.count("bounded_cache_runs")
                if cache_len > 0:      # blocks translated minus blocks still cached = evictions
                    rec.count("bounded_cache_runs_with_eviction_pressure")
                    rec.count("evictions_observed", cache_len)
            cfg.pop("_first", None)
            d = jitlib.diff_outcomes(ref, out, spec, ignore_regs=(spec.pc_name,))
            rec.count("states_compared")
            if ref.int_log:
                rec.count("states_compared_with_interrupt_handler_calls")
            cls = "maxline=%s maxexec=%s%s%s%s" % (
                "1" if cfg["maxline"] == 1 else ">1", "0" if cfg["maxexec"] == 0 else ">0",
                " warm" if cfg["warm"] else "", " bounded-cache" if cfg["cache"] else "",
                " traced" if cfg["traced"] else "")
            if d is not None:
                rec.fail("%s: final state depends on configuration (%s): %s" % (backend, cls, d[0]),
                         "%s %s cfg=%s: %s %s" % (spec.mname, backend, cfg, d[0], d[1]),
                         dict(prog=prog.describe(), cfg=cfg, diff=d, ref=ref.summary(spec),
                              got=out.summary(spec)))
                continue
            if trace is not None:
                rec.count("traces_compared")
                got = collapse(trace)
                if got != ref_trace:
                    k = next((j for j in range(min(len(got), len(ref_trace))) if got[j] != ref_trace[j]),
                             min(len(got), len(ref_trace)))
                    rec.fail("%s: executed address sequence depends on configuration (%s)" % (backend, cls),
                             "%s %s cfg=%s: traces differ at position %d: reference %s, got %s" % (
                                 spec.mname, backend, cfg, k, [hex(x) for x in ref_trace[k:k + 4]],
                                 [hex(x) for x in got[k:k + 4]]),
                             dict(prog=prog.describe(), cfg=cfg, ref_trace=[hex(x) for x in ref_trace[:60]],
                                  got_trace=[hex(x) for x in got[:60]]))
        rec.count("distinct_partitions", len(partitions))
        if i % 10 == 0:
            rec.sample(dict(machine=spec.mname, backend=backend, instrs=[t for _, _, t, _ in prog.instrs][:8],
                            ref_steps=ref.steps, configs=cfgs[:3]), limit=6)


def floors(tier, counters, evaluations):
    miss = []
    if counters.get("states_compared", 0) < 3 * max(1, evaluations) * 0.5:
        miss.append("too few configurations compared (%d)" % counters.get("states_compared", 0))
    if counters.get("traces_compared", 0) < counters.get("states_compared", 0) * 0.3:
        miss.append("too few traces compared")
    if counters.get("with_taken_loop", 0) < 0.15 * max(1, evaluations - counters.get("discarded_budget", 0)):
        miss.append("fewer than 15% of programs take their loop")
    if counters.get("bounded_cache_runs_with_eviction_pressure", 0) < 0.3 * max(1, counters.get("bounded_cache_runs", 0)):
        miss.append("evictions observed in fewer than 30% of bounded-cache runs")
    return miss
