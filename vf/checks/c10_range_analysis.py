"""C10 range analysis over-approximates every concrete value.

Two monitors:
 (A) ModularIntervals operations: the brute-force image of the operand sets
     under the reference operation (refsem.eval_op) must be inside the result.
 (B) expr_range(expr): refsem.evaluate(expr, assignment) must be a member of the
     result, for every assignment (small widths) or sampled assignments.
"""
import itertools

from vf import common
from vf.models import cpulimit

CHECK = dict(
    id="C10", level="exploration",
    rule=("(A) exhaustive: every pair of single ranges [a,b]x[c,d] of width 1..4 (quick) / 1..6 (thorough) for "
          "each binary ModularIntervals operation, every range for unary minus and every modulus, integer "
          "promotion, every pair of non-empty interval sets of width <=3 (all subsets; thorough: also width 4 "
          "with <=2 intervals for + and the shifts/rotations), set union/intersection; random sets of 1-3 wrapped/unwrapped intervals at "
          "widths 5..16 with sampled members. (B) random expression trees over the operators with range "
          "handlers (+ & | ^ * shifts rotations unary- % slice compose cond, unhandled operators for the "
          "default), widths 1..16; all assignments when the identifiers total <=12 bits, else 24 sampled "
          "boundary/random assignments; distinct = (operation,width,operands) resp. alpha-renamed shape"),
    assumptions=["refsem.py defines the concrete operations (saturating shifts, rotations modulo the width)",
                 "assignments on which the expression divides by zero are skipped",
                 "empty operand sets (vacuous) are not submitted to the interval operations",
                 "precision is not demanded, only containment; exceptions of expr_range on an expression that "
                 "has a defined value are reported"],
    # the interval-operation monitor (A) is exhaustive for the stated small widths, the expression monitor (B)
    # samples trees: the check as a whole is not an exhaustive enumeration of its domain
    exhaustive={"quick": False, "thorough": False},
    timeout={"quick": 900, "thorough": 3600},
    technique="runtime monitoring: brute-force image / reference-semantics membership oracle",
    level_text=("interval operations exhaustive for widths <=4 (quick) / <=6 (thorough) on single ranges and "
                "<=3 on arbitrary sets; expressions sampled"),
)

NSHARDS = 16
BIN = ['+', '&', '|', '^', '*', 'a>>', '<<', '>>', '>>>', '<<<']
OPNAME = {'+': '__add__', '&': '__and__', '|': '__or__', '^': '__xor__', '*': '__mul__'}


def apply_bin(op, x, y):
    if op == '+':
        return x + y
    if op == '&':
        return x & y
    if op == '|':
        return x | y
    if op == '^':
        return x ^ y
    if op == '*':
        return x * y
    if op == 'a>>':
        return x.arithmetic_shift_right(y)
    if op == '<<':
        return x << y
    if op == '>>':
        return x >> y
    if op == '>>>':
        return x.rotation_right(y)
    if op == '<<<':
        return x.rotation_left(y)
    raise ValueError(op)


def shards(tier, seed, scale):
    items = []
    maxw = 4 if tier == "quick" else 6
    for w in range(1, maxw + 1):
        parts = {5: 4, 6: 16}.get(w, 1)
        for op in BIN:
            for p in range(parts):
                items.append(("range2", op, w, p, parts, 16 ** w // parts * (4 if '>' in op or '<' in op else 1)))
        items.append(("unary", "", w, 0, 1, 8 ** w))
    for w in range(1, 4):
        for op in BIN:
            items.append(("sets2", op, w, 0, 1, 70 ** w))
    if tier == "thorough":
        # the product/union wrapper is shared by + & | ^ *: one of them and the count-enumerating operations
        for op in ['+', 'a>>', '<<', '>>', '>>>', '<<<']:
            for p in range(16):
                items.append(("sets2w4", op, 4, p, 16, 16 ** 5))
    items.sort(key=lambda it: -it[-1])
    per_expr = 2500 if tier == "quick" else 30000
    per_rand = 1500 if tier == "quick" else 40000
    out = common.mk_shards(NSHARDS, seed, tier, per_expr, scale)
    # greedy balance of the exhaustive items
    load = [0] * NSHARDS
    mine = [[] for _ in range(NSHARDS)]
    for it in items:
        i = load.index(min(load))
        load[i] += it[-1]
        mine[i].append(list(it[:-1]))
    for i, sh in enumerate(out):
        sh["items"] = mine[i]
        sh["nrand"] = max(1, int(per_rand * scale))
        sh["stride"] = max(1, int(round(1.0 / scale))) if scale < 1 else 1
    return out


def run_shard(params, rec):
    common.quiet()
    cpulimit.install()
    rng = common.rng_for(params)
    if params.get("stride", 1) > 1:
        rec.count("thinned")
    mon = IntervalMonitor(rec, rng, params.get("stride", 1))
    for kind, op, w, part, parts in params["items"]:
        kind, op = str(kind), str(op)
        if kind == "range2":
            mon.range_pairs(op, w, part, parts)
        elif kind == "unary":
            mon.unary(w)
        elif kind == "sets2":
            mon.set_pairs(op, w, None, 0, 1)
        elif kind == "sets2w4":
            mon.set_pairs(op, w, 2, part, parts)
    mon.random_sets(params["nrand"])
    ExprMonitor(rec, rng, params["tier"]).run(params["n"])


def all_runs(n):
    return [(a, b) for a in range(n) for b in range(a, n)]


def runs_of_mask(m):
    out = []
    i = 0
    while m >> i:
        if (m >> i) & 1:
            j = i
            while (m >> (j + 1)) & 1:
                j += 1
            out.append((i, j))
            i = j + 1
        else:
            i += 1
    return out


class IntervalMonitor(object):
    def __init__(self, rec, rng, stride):
        from miasm.analysis.modularintervals import ModularIntervals
        from vf.models import c10_rangegen as rg
        self.MI = ModularIntervals
        self.rg = rg
        self.rec = rec
        self.rng = rng
        self.stride = stride
        self._img = {}
        self.hung = {}

    def mk(self, w, runs):
        return self.MI(w, [tuple(r) for r in runs])

    def rows(self, op, w):
        f = self.rg.concrete(op, w)
        n = 1 << w
        return [[1 << f(x, y) for y in range(n)] for x in range(n)]

    def report(self, opname, w, cls, xs, ys, res, missing, extra=None):
        wit = dict(op=opname, width=w, x=[list(r) for r in xs], y=ys if isinstance(ys, int) else
                   [list(r) for r in ys], result=str(res), missing_values=missing[:8])
        if extra:
            wit.update(extra)
        self.rec.fail("ModularIntervals %s result misses a concrete value%s" % (opname, cls),
                      "width %d: %s %s %s = %s lacks %s" % (w, xs, opname, ys, res, missing[:8]), wit)

    def call(self, opname, w, xs, ys, fn):
        self.rec.ev()
        self.rec.count("mi_op:" + opname)
        self.rec.count("mi_width:%d" % w)
        if self.hung.get(opname, 0) >= 2:
            self.rec.count("skipped_after_hangs:" + opname)
            return None, None
        try:
            with cpulimit.cpu_limit(5):
                r = fn()
                got = self.rg.to_mask(r)
        except cpulimit.CpuTimeout:
            self.hung[opname] = self.hung.get(opname, 0) + 1
            self.rec.fail("ModularIntervals %s does not terminate (5s CPU)" % opname,
                          "width %d: %s %s %s" % (w, xs, opname, ys),
                          dict(op=opname, width=w, x=repr(xs), y=repr(ys)))
            return None, None
        except Exception as exc:
            self.rec.fail("ModularIntervals %s raises %s" % (opname, type(exc).__name__),
                          "width %d: %s %s %s raised %r" % (w, xs, opname, ys, exc),
                          dict(op=opname, width=w, x=repr(xs), y=repr(ys), exc=repr(exc)))
            return None, None
        if r.size != w or got >> (1 << w):
            self.rec.fail("ModularIntervals %s result outside the width" % opname,
                          "width %d: %s %s %s = %s" % (w, xs, opname, ys, r),
                          dict(op=opname, width=w, x=repr(xs), y=repr(ys), result=str(r)))
        return r, got

    @staticmethod
    def bits(m):
        return [i for i in range(m.bit_length()) if (m >> i) & 1]

    def shift_class(self, op, w, ys):
        if op not in ('a>>', '<<', '>>', '>>>', '<<<'):
            return ""
        hi = ys if isinstance(ys, int) else max(r[1] for r in ys)
        return " (count may reach the width)" if hi >= w else " (count below the width)"

    # ---- every pair of single ranges
    def range_pairs(self, op, w, part, parts):
        rec = self.rec
        n = 1 << w
        rows = self.rows(op, w)
        ops = {r: self.mk(w, [r]) for r in all_runs(n)}
        exact = 0
        total = 0
        for c in range(n):
            if c % parts != part:
                continue
            acc = [0] * n
            for d in range(c, n):
                for x in range(n):
                    acc[x] |= rows[x][d]
                if self.stride > 1 and (c * n + d) % self.stride:
                    continue
                Y = ops[(c, d)]
                for a in range(n):
                    img = 0
                    for b in range(a, n):
                        img |= acc[b]
                        X = ops[(a, b)]
                        r, got = self.call(op, w, [(a, b)], [(c, d)], lambda: apply_bin(op, X, Y))
                        total += 1
                        if r is None:
                            continue
                        if img & ~got:
                            self.report(op, w, self.shift_class(op, w, [(c, d)]), [(a, b)], [(c, d)], r,
                                        self.bits(img & ~got))
                        elif img == got:
                            exact += 1
                        if w <= 4 and c == d:
                            # the integer-promotion path of the same operation
                            r2, got2 = self.call(op + " int", w, [(a, b)], c, lambda: apply_bin(op, X, c))
                            if r2 is not None and img & ~got2:
                                self.report(op + " int", w, self.shift_class(op, w, c), [(a, b)], c, r2,
                                            self.bits(img & ~got2))
        for r, o in ops.items():
            if o.intervals.intervals != [r] or o.size != w:
                rec.fail("ModularIntervals %s changes its operand" % op, "operand %r became %s" % (r, o),
                         dict(op=op, width=w, operand=list(r), now=str(o)))
        rec.count("mi_exact:" + op, exact)
        rec.count("mi_range_pairs:" + op, total)
        rec.distinct("range2/%s/%d/%d/%d" % (op, w, part, parts))
        if len(rec.samples) < 2 and w == 4:
            X, Y = ops[(3, 9)], ops[(2, 5)]
            rec.sample(dict(op=op, width=w, x="[3,9]", y="[2,5]", result=str(apply_bin(op, X, Y))))

    # ---- unary minus, modulo, set operations on single ranges and on all sets
    def unary(self, w):
        n = 1 << w
        sets = [runs_of_mask(m) for m in range(1, 1 << n)] if w <= 3 else [[r] for r in all_runs(n)]
        if w == 4:
            sets += [[r1, r2] for r1 in all_runs(n) for r2 in all_runs(n) if r1[1] + 1 < r2[0]]
        for runs in sets:
            members = [v for a, b in runs for v in range(a, b + 1)]
            X = self.mk(w, runs)
            img = 0
            for v in members:
                img |= 1 << ((-v) & (n - 1))
            r, got = self.call("neg", w, runs, "", lambda: -X)
            if r is not None and img & ~got:
                self.report("neg", w, "", runs, [], r, self.bits(img & ~got))
            for m in range(1, n):
                img = 0
                for v in members:
                    img |= 1 << (v % m)
                r, got = self.call("mod", w, runs, m, lambda: X % m)
                if r is not None and img & ~got:
                    self.report("mod", w, "", runs, m, r, self.bits(img & ~got))
        if w <= 3:
            for ra in sets:
                for rb in sets:
                    A, B = self.mk(w, ra), self.mk(w, rb)
                    ma, mb = self.rg.to_mask(A), self.rg.to_mask(B)
                    r, got = self.call("union", w, ra, rb, lambda: A.union(B))
                    if r is not None and (ma | mb) & ~got:
                        self.report("union", w, "", ra, rb, r, self.bits((ma | mb) & ~got))
                    r, got = self.call("intersection", w, ra, rb, lambda: A.intersection(B))
                    if r is not None and (ma & mb) & ~got:
                        self.report("intersection", w, "", ra, rb, r, self.bits((ma & mb) & ~got))

    def images(self, op, w):
        """image bit set of every pair of single ranges (cached per op, width)"""
        key = (op, w)
        if key in self._img:
            return self._img[key]
        n = 1 << w
        rows = self.rows(op, w)
        tab = {}
        for c in range(n):
            acc = [0] * n
            for d in range(c, n):
                for x in range(n):
                    acc[x] |= rows[x][d]
                for a in range(n):
                    img = 0
                    for b in range(a, n):
                        img |= acc[b]
                        tab[(a, b, c, d)] = img
        self._img = {key: tab}
        return tab

    # ---- every pair of interval sets
    def set_pairs(self, op, w, max_runs, part, parts):
        n = 1 << w
        if max_runs is None:
            sets = [runs_of_mask(m) for m in range(1, 1 << n)]
        else:
            sets = [[r] for r in all_runs(n)] + \
                [[r1, r2] for r1 in all_runs(n) for r2 in all_runs(n) if r1[1] + 1 < r2[0]]
        tab = self.images(op, w)
        objs = [self.mk(w, s) for s in sets]
        total = 0
        for ia in range(part, len(sets), parts):
            if self.stride > 1 and (ia // parts) % self.stride:
                continue
            ra, A = sets[ia], objs[ia]
            for ib, rb in enumerate(sets):
                B = objs[ib]
                img = 0
                for (a, b) in ra:
                    for (c, d) in rb:
                        img |= tab[(a, b, c, d)]
                r, got = self.call(op, w, ra, rb, lambda: apply_bin(op, A, B))
                total += 1
                if r is not None and img & ~got:
                    self.report(op, w, self.shift_class(op, w, rb), ra, rb, r, self.bits(img & ~got))
        self.rec.count("mi_set_pairs:" + op, total)
        self.rec.distinct("sets2/%s/%d/%d/%d" % (op, w, part, parts))

    # ---- random sets at larger widths, sampled members
    def random_set(self, w):
        rng = self.rng
        n = 1 << w
        runs = []
        for _ in range(rng.choice([1, 1, 2, 3])):
            a = rng.choice([0, 1, n - 1, n >> 1, (n >> 1) - 1, rng.randrange(n), rng.randrange(n)])
            ln = rng.choice([0, 1, 2, rng.randrange(1, 17), rng.randrange(n)])
            b = a + ln
            if b >= n:
                # wrapped interval: [a, n-1] U [0, b-n]
                runs.append((a, n - 1))
                runs.append((0, b - n))
                self.rec.count("mi_random_wrapped")
            else:
                runs.append((a, b))
        return runs

    def sample_members(self, runs, k):
        rng = self.rng
        out = set()
        for a, b in runs:
            out.update([a, b, (a + b) // 2, min(a + 1, b), max(b - 1, a)])
        for _ in range(k):
            a, b = rng.choice(runs)
            out.add(rng.randint(a, b))
        return sorted(out)

    def random_sets(self, count):
        rng, rec = self.rng, self.rec
        for i in range(count):
            w = rng.choice([5, 6, 7, 8, 8, 9, 12, 15, 16, 16])
            op = rng.choice(BIN + ['neg', 'mod'])
            ra = self.random_set(w)
            A = self.mk(w, ra)
            xs = self.sample_members(ra, 6)
            rec.distinct("rand/%s/%d/%r" % (op, w, ra))
            if op == 'neg':
                r, got = self.call("neg", w, ra, "", lambda: -A)
                miss = [x for x in xs if r is not None and not self.rg.member(r, (-x) & ((1 << w) - 1))]
                if miss:
                    self.report("neg", w, "", ra, [], r, miss)
                continue
            if op == 'mod':
                m = rng.choice([1, 2, 3, 7, 10, 16, rng.randrange(1, 1 << w)])
                r, got = self.call("mod", w, ra, m, lambda: A % m)
                miss = [x % m for x in xs if r is not None and not self.rg.member(r, x % m)]
                if miss:
                    self.report("mod", w, "", ra, m, r, miss)
                continue
            if op in ('a>>', '<<', '>>', '>>>', '<<<') and rng.random() < 0.7:
                c = rng.choice([0, 1, w - 1, w, w + 1, rng.randrange(w + 2)])
                d = min((1 << w) - 1, c + rng.choice([0, 1, 3, w]))
                c = min(c, d)
                rb = [(c, d)]
            else:
                rb = self.random_set(w)
            B = self.mk(w, rb)
            ys = self.sample_members(rb, 6)
            f = self.rg.concrete(op, w)
            r, got = self.call(op, w, ra, rb, lambda: apply_bin(op, A, B))
            if r is None:
                continue
            miss = sorted(set(f(x, y) for x in xs for y in ys if not self.rg.member(r, f(x, y))))
            if miss:
                self.report(op, w, self.shift_class(op, w, rb), ra, rb, r, miss)


class ExprMonitor(object):
    def __init__(self, rec, rng, tier):
        from miasm.analysis.expression_range import expr_range
        from vf import refsem, exprgen
        from vf.models import c10_rangegen as rg
        self.rec, self.rng, self.tier = rec, rng, tier
        self.expr_range, self.refsem, self.exprgen, self.rg = expr_range, refsem, exprgen, rg
        self.small = rg.RangeGen(rng, [1, 2, 3, 4], mem=False, n_ids=2, ptr_widths=(4,))
        self.large = rg.RangeGen(rng, list(range(1, 17)), mem=True, mem_any_size=True, n_ids=3,
                                 ptr_widths=(8, 16))

    def run(self, n):
        from miasm.expression.expression import ExprCond, ExprOp, ExprInt, ExprSlice
        for i in range(n):
            if self.rng.random() < 0.01:
                # directed: a modulo by the constant 0 (no value, empty range) in one branch of a
                # conditional, used as shift count / sliced; the expression has a value on the other branch
                g, mode, r = self.large, "large", self.rng
                w = r.choice([2, 4, 8, 16])
                dead = ExprOp('%', g.expr(w, 1), ExprInt(0, w))
                k = r.random()
                if k < 0.5:
                    dead = ExprOp(r.choice(['<<', '>>', 'a>>']), g.expr(w, 1), dead)
                elif k < 0.8:
                    dead = ExprSlice(ExprOp('%', g.expr(2 * w, 1), ExprInt(0, 2 * w)), 0, w)
                e = ExprCond(g.expr(r.choice([1, w]), 1), g.expr(w, 2), dead)
                if r.random() < 0.5:
                    e = ExprCond(e.cond, e.src2, e.src1)
                self.rec.count("template:mod_zero_in_one_branch")
            elif self.rng.random() < 0.5:
                g, mode = self.small, "small"
                e = g.expr(self.rng.choice([1, 2, 3, 4, 4]), self.rng.choice([1, 2, 2, 3]))
            else:
                g, mode = self.large, "large"
                e = g.expr(self.rng.choice(list(range(1, 17)) + [8, 16, 16]), self.rng.choice([1, 2, 3, 4]))
            try:
                with cpulimit.cpu_limit(30):
                    self.one(e, mode, i)
            except cpulimit.CpuTimeout:
                self.rec.count("expr_timeout_30s")

    def valuations(self, e, mode, i):
        refsem, rng = self.refsem, self.rng
        ids, mems = self.rg.free_symbols(e)
        bits = sum(x.size for x in ids)
        if not mems and bits <= 12:
            self.rec.count("expr_all_assignments")
            for vals in itertools.product(*[range(1 << x.size) for x in ids]):
                yield refsem.Env(ids=dict(zip(ids, vals)), seed=i)
            return
        self.rec.count("expr_sampled_assignments")
        for k in range(24):
            vals = {}
            for x in ids:
                vals[x] = rng.choice(self.exprgen.boundary_values(x.size)) if rng.random() < 0.4 \
                    else rng.getrandbits(x.size)
            yield refsem.Env(ids=vals, seed=i * 64 + k)

    def one(self, e, mode, i):
        rec, rg, refsem = self.rec, self.rg, self.refsem
        rec.ev()
        handlers = set(rg.handler_of(x) for x in rg.walk(e))
        for h in handlers:
            rec.count("handler:" + h)
        rec.count("expr_mode:" + mode)
        if self.exprgen.nontrivial(e):
            rec.distinct(self.exprgen.shape(e))
        try:
            r = self.expr_range(e)
        except Exception as exc:
            self.raised(e, exc)
            return
        if r.size != e.size:
            rec.fail("expr_range result has another size", "expr_range(%s).size = %r, expression is %d bits" % (
                common.short(e), r.size, e.size), dict(expr=repr(e), range=str(r)))
        if r.intervals.length == (1 << e.size):
            rec.count("expr_range_is_full_domain")
        else:
            rec.count("expr_range_is_proper_subset")
        if len(rec.samples) < 6 and i % 97 == 0 and r.intervals.length < (1 << e.size) and \
                len(handlers) >= 4:
            rec.sample(dict(expr=str(e), range=str(r)))
        nval = 0
        for env in self.valuations(e, mode, i):
            try:
                v = refsem.evaluate(e, env)
            except refsem.Undef:
                rec.count("valuation_undefined_skipped")
                continue
            nval += 1
            if rg.member(r, v):
                continue
            try:
                b = rg.blame(e, env, self.expr_range)
            except Exception:
                b = None
            node, nv, nr = b if b else (e, v, r)
            h = rg.handler_of(node)
            cls = ""
            if node.is_op() and node.op in ('a>>', '<<', '>>', '>>>', '<<<'):
                try:
                    cnt = refsem.evaluate(node.args[1], env)
                    cls = " (count >= width)" if cnt >= node.size else " (count < width)"
                except Exception:
                    pass
            rec.fail("expr_range misses the concrete value: handler %s%s" % (h, cls),
                     "%s evaluates to 0x%x under %s but expr_range gives %s [sub-expression %s = 0x%x, range %s]" % (
                         common.short(e), v, {str(k): x for k, x in env.ids.items()}, r, common.short(node), nv, nr),
                     dict(expr=repr(e), value=v, range=str(r), ids={str(k): x for k, x in env.ids.items()},
                          env_seed=env.seed, node=repr(node), node_value=nv, node_range=str(nr)))
            break
        rec.count("valuations_checked", nval)

    def raised(self, e, exc):
        """expr_range raised: name the smallest raising sub-expression"""
        rec, rg = self.rec, self.rg
        node = e
        changed = True
        while changed:
            changed = False
            kids = [node.arg] if node.is_slice() else (
                list(node.args) if (node.is_compose() or node.is_op()) else (
                    [node.src1, node.src2] if node.is_cond() else []))
            for k in kids:
                try:
                    self.expr_range(k)
                except Exception:
                    node, changed = k, True
                    break
        empties = []
        kids = [node.arg] if node.is_slice() else (
            list(node.args) if (node.is_compose() or node.is_op()) else (
                [node.src1, node.src2] if node.is_cond() else []))
        for k in kids:
            try:
                if self.expr_range(k).intervals.empty:
                    empties.append(k)
            except Exception:
                pass
        cls = " (an operand has the empty range)" if empties else ""
        # is the expression ever defined?  an always-undefined expression has no value to bound
        defined = False
        ids, mems = rg.free_symbols(e)
        for k in range(16):
            env = self.refsem.Env(ids={x: self.rng.getrandbits(x.size) for x in ids}, seed=k)
            try:
                self.refsem.evaluate(e, env)
                defined = True
                break
            except self.refsem.Undef:
                continue
        if not defined:
            rec.count("expr_range_raises_on_undefined_expression")
            return
        import traceback
        frames = traceback.extract_tb(exc.__traceback__)
        site = frames[-1].name if frames else "?"
        rec.fail("expr_range raises %s in %s%s" % (type(exc).__name__, site, cls),
                 "expr_range(%s) raised %r at sub-expression %s" % (common.short(e), exc, common.short(node)),
                 dict(expr=repr(e), node=repr(node), exc=repr(exc)))


HANDLERS = ["int", "id", "mem", "slice", "compose", "cond", "op-", "op%", "op_unhandled"] + ["op" + o for o in BIN]


def floors(tier, counters, evaluations):
    miss = []
    thinned = counters.get("thinned")
    need = 1000 if tier == "quick" else 10000
    if thinned:
        need = 100
    for h in HANDLERS:
        if counters.get("handler:" + h, 0) < need:
            miss.append("handler %s seen in %d expressions (<%d)" % (h, counters.get("handler:" + h, 0), need))
    for op in BIN + ["neg", "mod", "union", "intersection"] + [o + " int" for o in BIN]:
        if counters.get("mi_op:" + op, 0) < (100 if thinned else 1000):
            miss.append("ModularIntervals %s evaluated %d times" % (op, counters.get("mi_op:" + op, 0)))
    if not thinned:
        maxw = 4 if tier == "quick" else 6
        want = sum(((1 << w) * ((1 << w) + 1) // 2) ** 2 for w in range(1, maxw + 1))
        for op in BIN:
            if counters.get("mi_range_pairs:" + op, 0) != want:
                miss.append("range pairs of %s: %d of %d" % (op, counters.get("mi_range_pairs:" + op, 0), want))
    if counters.get("expr_all_assignments", 0) < need or counters.get("expr_sampled_assignments", 0) < need:
        miss.append("assignment modes: all=%d sampled=%d" % (counters.get("expr_all_assignments", 0),
                                                             counters.get("expr_sampled_assignments", 0)))
    if counters.get("expr_range_is_proper_subset", 0) < need:
        miss.append("only %d expressions with a range smaller than the full domain" %
                    counters.get("expr_range_is_proper_subset", 0))
    if counters.get("expr_timeout_30s", 0) > 0.005 * max(1, counters.get("expr_mode:small", 0) +
                                                          counters.get("expr_mode:large", 0)):
        miss.append("%d expression cases hit the 30 s case limit" % counters.get("expr_timeout_30s", 0))
    if counters.get("valuations_checked", 0) < 10 * need:
        miss.append("only %d assignments evaluated" % counters.get("valuations_checked", 0))
    return miss
