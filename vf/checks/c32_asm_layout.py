"""C32 the assembler lays out programs at their pinned addresses.

Every program is assembled several times:

 base     every fall-through chain pinned at its head, chains far apart, no destination
          interval.  The result (checked like every other) is a *witness layout*.
 spread   1-3 labels (any position of any chain) pinned at their witness addresses, the
          other chains float; destination interval none or the witness hull plus room.
 holes    (programs with >= 4 chains) a row of >= 2 pinned chains, each followed by a hole;
          >= 2 floating chains, each owning one hole that fits it even at the assembler's
          maximal size estimate; destination interval = hull of the row (or plus slack).
          Several floating chains compete for the holes between several pinned chains.
 compact  chains packed back to back (sizes taken from the witness), every chain but at
          most one pinned at any of its labels, destination interval = exact hull of that
          packing (or plus a few bytes).  The packing is the layout that is known to exist.

Oracle on the returned patches (independent of the assembler): pinned labels at their
addresses, no byte written twice, all bytes inside the interval, fall-through blocks
contiguous, and the image re-decoded from every label gives the program's instructions and
data with label operands equal to the final label addresses; no stray bytes.
An exception of asm_resolve_final on a program whose layout is known to exist is a failure
of "succeeds".
"""
import traceback

from vf import common

CHECK = dict(
    id="C32", level="exploration",
    rule=("programs of 2-8 labelled blocks from per-architecture instruction templates (plain, "
          "label operands, conditional/unconditional branches, calls, returns, delay slots, "
          ".byte/.word/.long/.string data with label references) on x86_32/64, ARM l/b, MIPS32 "
          "l/b, MSP430; pins = chain heads (base run), any 1-3 labels at their witness "
          "addresses (spread), all-but-one chains at any label in a packed layout (compact), rows of "
          ">=2 pinned chains with holes owned by >=2 floating chains (holes); "
          "destination interval none / roomy / exact hull / hull plus slack; distinct = "
          "distinct (program text, pins, interval); non-trivial = all"),
    assumptions=["mn.fromstring and mn.dis/dstflow2label give the same operand expressions for "
                 "the same instruction (templates are chosen to round-trip)",
                 "a layout is known to exist because a previously verified assembly of the same "
                 "program (or its packing with the same block sizes) has the pinned labels at "
                 "these addresses inside the interval",
                 ".long/.word data on big-endian targets may be stored in either byte order"],
    timeout={"quick": 900, "thorough": 3400},
    exhaustive={"quick": False, "thorough": False},
    technique="runtime monitoring: re-decoding of the produced image against the source program",
)


def shards(tier, seed, scale):
    per = 14 if tier == "quick" else 350
    return common.mk_shards(16, seed, tier, per_shard=per, scale=scale)


def floors(tier, counters, evaluations):
    miss = []
    runs = counters.get("runs:variant", 0)
    if runs == 0:
        return ["no assembly run"]
    if counters.get("pins:not_at_head", 0) < 0.30 * runs:
        miss.append("runs with a pin not at the chain head: %d < 30%% of %d" % (
            counters.get("pins:not_at_head", 0), runs))
    for k, frac in (("pins:several_in_chain", 0.05), ("interval:exact", 0.08),
                    ("interval:roomy", 0.08), ("interval:none", 0.08), ("verified", 0.25)):
        if counters.get(k, 0) < frac * runs:
            miss.append("%s=%d < %.0f%% of %d runs" % (k, counters.get(k, 0), 100 * frac, runs))
    if counters.get("holes:two_floating_two_pinned", 0) < 0.08 * runs:
        miss.append("runs with >= 2 floating and >= 2 pinned chains: %d < 8%% of %d" % (
            counters.get("holes:two_floating_two_pinned", 0), runs))
    if counters.get("verified:holes", 0) < 0.04 * runs:
        miss.append("verified runs with floating chains placed into holes: %d < 4%% of %d" % (
            counters.get("verified:holes", 0), runs))
    for a in ("x86_32", "x86_64", "arml", "armb", "mips32l", "mips32b", "msp430"):
        if counters.get("verified:" + a, 0) == 0:
            miss.append("no verified assembly on %s" % a)
    if counters.get("label_refs_checked", 0) < 5 * counters.get("programs", 1):
        miss.append("too few label references re-decoded")
    return miss


def _frame(exc):
    tb = traceback.extract_tb(exc.__traceback__)
    for fr in reversed(tb):
        if "/miasm/" in fr.filename:
            return "%s:%s" % (fr.filename.split("/")[-1], fr.name)
    return "?"


def run_shard(params, rec):
    common.quiet()
    from vf.models import c32_asm as M
    rng = common.rng_for(params)
    archs = M.arch_table()
    shard = params.get("shard", 0)
    for i in range(params["n"]):
        arch = archs[(i + shard) % len(archs)]
        one_program(rec, M, arch, rng)


class NoFixedPoint(Exception):
    pass


def assemble(M, prog, pins, itv):
    """fresh parse + asm_resolve_final; returns dict(ok, ldb, cfg, patches | exc, nxt, chains)"""
    from miasm.core import parse_asm, asmblock
    from miasm.core.locationdb import LocationDB
    from miasm.core.interval import interval
    arch = prog.arch
    ldb = LocationDB()
    res = dict(stage="parse")
    # step bound (not a clock): the fixed point of asmblock_final re-assembles a block only when
    # a label it uses moved; far more calls than blocks * labels means it does not converge
    limit = 60 * len(prog.blocks) + 200
    calls = [0]
    orig = asmblock.assemble_block

    def counted(mnemo, block, conservative=False):
        calls[0] += 1
        if calls[0] > limit:
            raise NoFixedPoint("assemble_block called more than %d times for %d blocks" % (
                limit, len(prog.blocks)))
        return orig(mnemo, block, conservative)
    asmblock.assemble_block = counted
    try:
        cfg = parse_asm.parse_txt(arch.mn, arch.attrib, prog.text(), ldb)
        res.update(ldb=ldb, cfg=cfg)
        res["nxt"], res["chains"] = M.chains_of(cfg, ldb, prog)
        res["stage"] = "pin"
        for label, addr in sorted(pins.items()):
            ldb.set_location_offset(ldb.get_name_location(label), addr)
        res["stage"] = "asm"
        dst = None if itv is None else interval([(itv[0], itv[1])])
        res["patches"] = asmblock.asm_resolve_final(arch.mn, cfg, dst)
        res["ok"] = True
    except Exception as exc:
        res["ok"] = False
        res["exc"] = exc
    finally:
        asmblock.assemble_block = orig
    return res


def pin_class(pins, chains):
    where = {}
    for ci, ch in enumerate(chains):
        for pos, lab in enumerate(ch):
            where[lab] = (ci, pos)
    per_chain = {}
    nonhead = False
    for lab in pins:
        ci, pos = where[lab]
        per_chain[ci] = per_chain.get(ci, 0) + 1
        if pos > 0:
            nonhead = True
    if any(v > 1 for v in per_chain.values()):
        return "several pins in one chain"
    if nonhead:
        return "pin not at the chain head"
    return "pins at chain heads"


def one_program(rec, M, arch, rng):
    many = rng.random() < 0.4
    prog = M.gen_program(arch, rng, many_chains=many)
    txt = prog.text()
    rec.count("programs")
    rec.count("arch:" + arch.name)
    unit = arch.unit

    def ub_items(items):
        n = 0
        for it in items:
            n += arch.ub if it[0] == "ins" else len(M.data_bytes(it[2], {l: 0 for l, _ in prog.blocks}, False)[0])
        return n
    ub_block = {label: ub_items(items) for label, items in prog.blocks}
    total_ub = sum(ub_block.values())

    def run(variant, pins, itv, itv_kind, witness_note):
        rec.ev()
        rec.count("runs:" + ("base" if variant == "base" else "variant"))
        rec.distinct("%s/%s/%r/%r" % (arch.name, txt, sorted(pins.items()), itv))
        res = assemble(M, prog, pins, itv)
        wit = dict(arch=arch.name, text=txt, pins={k: hex(v) for k, v in pins.items()},
                   interval=None if itv is None else [hex(itv[0]), hex(itv[1])], variant=variant,
                   layout_known_because=witness_note)
        if "chains" not in res:
            rec.fail("parse_txt raises %s at %s" % (type(res["exc"]).__name__, _frame(res["exc"])),
                     "parse_txt raised %r" % (res["exc"],), wit)
            return None
        pcl = pin_class(pins, res["chains"])
        wit["chains"] = res["chains"]
        if variant != "base":
            rec.count("interval:" + itv_kind)
            if pcl == "several pins in one chain":
                rec.count("pins:several_in_chain")
                rec.count("pins:not_at_head")
            elif pcl == "pin not at the chain head":
                rec.count("pins:not_at_head")
            else:
                rec.count("pins:heads_only")
        if not res["ok"]:
            exc = res["exc"]
            rec.count("asm_exception")
            msg = str(exc)
            tight = "tight" if itv_kind.startswith("exact") else itv_kind
            where = "[%s] [%s layout, interval %s]" % (pcl, variant, tight)
            if isinstance(exc, KeyError) and _frame(exc) == "locationdb.py:set_location_offset" and \
                    pcl != "several pins in one chain":
                # which label holds the refused offset?  A label that is not pinned is one that
                # fix_blocks was about to move in the same pass: a block grew (short branch
                # became long) by the size of the next block, so the next label lands on the old
                # offset of the label after it.  Independent of the layout.
                import re
                m = re.match(r"['\"]?(\d+) is already associated", msg.strip("'\""))
                holder = None
                if m:
                    try:
                        holder = res["ldb"].get_offset_location(int(m.group(1)))
                    except Exception:
                        holder = None
                pinned_keys = set(res["ldb"].get_name_location(l) for l in pins)
                if holder is not None and holder not in pinned_keys:
                    rec.fail("asm_resolve_final raises KeyError (at locationdb.py:set_location_offset): a "
                             "label is moved onto the old offset of a label not yet moved",
                             "%r although a layout exists (%s)" % (exc, witness_note), wit)
                    return None
            if pcl != "several pins in one chain" and variant == "compact":
                # conservative size estimates (max_instruction_len per symbolic instruction,
                # alignment - 1 per block, strict '<' on the gap) and transient label offsets
                # computed from them; independent of where in its chain a block is pinned
                if tight == "tight" and isinstance(exc, RuntimeError) and "Cannot find enough space" in msg:
                    rec.fail("asm_resolve_final raises RuntimeError (Cannot find enough space to place "
                             "blocks) [compact layout, interval tight]",
                             "%r although a layout exists (%s)" % (exc, witness_note), wit)
                    return None
                if tight == "tight" and isinstance(exc, ValueError) and "out of destination interval" in msg:
                    rec.fail("asm_resolve_final raises ValueError (Chain placed out of destination "
                             "interval) [compact layout, interval tight]",
                             "%r although a layout exists (%s)" % (exc, witness_note), wit)
                    return None
                if isinstance(exc, KeyError) and _frame(exc) == "locationdb.py:set_location_offset":
                    rec.fail("asm_resolve_final raises KeyError (at locationdb.py:set_location_offset) "
                             "[compact layout]",
                             "%r although a layout exists (%s)" % (exc, witness_note), wit)
                    return None
            if isinstance(exc, NoFixedPoint):
                rec.fail("asmblock_final does not reach a fixed point %s" % where,
                         "%s although a layout exists (%s)" % (exc, witness_note), wit)
                return None
            if isinstance(exc, ValueError) and msg.startswith("cannot asm"):
                # the instruction encoder refused a resolved branch/operand
                import re
                m = re.search(r"\['(0x[0-9A-Fa-f]+)'\]", msg)
                disp = int(m.group(1), 16) if m else None
                if disp is not None and disp < 16:
                    what = "cannot asm a branch whose displacement is below the instruction length"
                else:
                    what = "cannot asm a resolved instruction"
                rec.fail("asm_resolve_final raises ValueError (%s) arch=%s" % (what, arch.mn.__name__),
                         "%s: %r although a layout exists (%s)" % (res["stage"], exc, witness_note), wit)
                return None
            if isinstance(exc, (RuntimeError, ValueError)) and msg:
                import re
                what = re.sub(r"0x[0-9a-fA-F]+|\b[0-9A-F]+\b", "N", msg)[:60]
            else:
                what = "at " + _frame(exc)
            if pcl == "several pins in one chain" and "Multiples pinned" in msg:
                where = "[%s]" % pcl
            rec.fail("asm_resolve_final raises %s (%s) %s" % (type(exc).__name__, what, where),
                     "%s: %r although a layout exists (%s)" % (res["stage"], exc, witness_note), wit)
            return None

        def fail(key, what):
            w = dict(wit)
            w["patches"] = {hex(k): bytes(v).hex() for k, v in sorted(res["patches"].items())}
            rec.fail("%s [%s]" % (key, pcl), what, w)
        out = M.verify(prog, res["ldb"], res["patches"], pins, itv, res["nxt"], fail, rec.count)
        if out is None:
            return None
        rec.count("verified")
        rec.count("verified:" + arch.name)
        rec.count("verified:" + pcl)
        if variant == "holes":
            rec.count("verified:holes")
        addr_of, ends = out
        return dict(addr=addr_of, ends=ends, chains=res["chains"], nxt=res["nxt"], cfg=res["cfg"],
                    ldb=res["ldb"])

    # ---- base run: chain heads pinned far apart (structure from a first parse)
    from miasm.core import parse_asm
    from miasm.core.locationdb import LocationDB
    try:
        l0 = LocationDB()
        c0 = parse_asm.parse_txt(arch.mn, arch.attrib, txt, l0)
        nxt, chains = M.chains_of(c0, l0, prog)
    except Exception as exc:
        rec.fail("parse_txt raises %s at %s" % (type(exc).__name__, _frame(exc)),
                 "parse_txt raised %r" % (exc,), dict(arch=arch.name, text=txt))
        return
    rec.count("chains", len(chains))
    base = rng.choice(arch.bases)
    pins, cur = {}, base
    for ch in chains:
        pins[ch[0]] = cur
        cur += sum(ub_block[l] for l in ch) + arch.far + unit * rng.randrange(0, 8)
        cur += (-cur) % 4
    wit0 = run("base", pins, None, "none", "chains pinned at their heads, far apart, unbounded range")
    if wit0 is None:
        return
    if len(rec.samples) < 3:
        rec.sample(dict(arch=arch.name, text=txt, layout={k: hex(v) for k, v in wit0["addr"].items()}))
    addr, ends, chains = wit0["addr"], wit0["ends"], wit0["chains"]
    labels = [l for l, _ in prog.blocks]
    lo = min(addr.values())
    hi = max(ends.values()) - 1
    pad = total_ub + 64
    pad += (-pad) % 4

    # ---- spread variants: any labels pinned at their witness addresses
    for _ in range(2):
        k = rng.randint(1, min(3, len(labels)))
        r = rng.random()
        if r < 0.35:
            # bias: one chain, two labels of it / a non-head label
            ch = rng.choice(chains)
            chosen = rng.sample(ch, min(len(ch), rng.randint(1, 2)))
            if len(ch) > 1 and rng.random() < 0.7:
                chosen = [l for l in chosen if l != ch[0]] or [ch[-1]]
        else:
            chosen = rng.sample(labels, k)
        p = {l: addr[l] for l in chosen}
        if rng.random() < 0.5:
            run("spread", p, None, "none", "same labels at these addresses in the verified base run")
        else:
            run("spread", p, (max(0, lo - pad), hi + pad), "roomy",
                "same labels at these addresses in the verified base run, interval = its hull "
                "plus %d bytes on each side (more than every block at maximal size)" % pad)

    # ---- compact variants: chains packed back to back with their witnessed sizes
    order = list(chains)
    rng.shuffle(order)
    cbase = rng.choice(arch.cbases)
    pack, cur = {}, cbase
    for ch in order:
        delta = cur - addr[ch[0]]
        for l in ch:
            pack[l] = addr[l] + delta
        cur += ends[ch[-1]] - addr[ch[0]]
        cur += (-cur) % unit
    chi = cur - 1
    for _ in range(2):
        floating = rng.choice(order) if (len(order) > 1 and rng.random() < 0.6) else None
        p = {}
        for ch in order:
            if ch is floating:
                continue
            r = rng.random()
            lab = ch[0] if r < 0.4 else rng.choice(ch)
            p[lab] = pack[lab]
            if len(ch) > 1 and rng.random() < 0.12:
                lab2 = rng.choice(ch)
                p[lab2] = pack[lab2]
        r = rng.random()
        if r < 0.5:
            itv, kind = (cbase, chi), "exact"
            note = "chains packed back to back with the block sizes of the verified base run; " \
                   "interval = exact hull of that packing"
        elif r < 0.8:
            slack = unit * rng.choice([1, 1, 2, 4])
            itv, kind = (cbase, chi + slack), "exact+slack"
            note = "packing of the verified base run; interval = its hull plus %d bytes" % slack
        else:
            itv, kind = (max(0, cbase - pad), chi + pad), "roomy"
            note = "packing of the verified base run; interval = its hull plus %d bytes each side" % pad
        run("compact", p, itv, kind, note)

    # ---- holes variants: several floating chains compete for the holes between several pinned
    # chains.  Every chain gets a slot in one row: pinned chains at fixed addresses, each followed
    # by a hole; every floating chain owns one hole that is just big enough for it by the
    # assembler's own size estimates (block.max_size of the base run: these only size the holes,
    # they decide no verdict).  The row itself - floating chains at the start of their holes - is
    # the layout that is known to exist.  Placing the chains by decreasing size into the first
    # hole that still fits always succeeds here (each chain owns a hole no bigger chain needs),
    # provided the room left in a hole is updated after every placement.
    n = len(chains)
    if n < 4:
        return
    rec.count("programs_with_4_chains")
    cfg0, ldb0 = wit0["cfg"], wit0["ldb"]

    def blk(label):
        return cfg0.loc_key_to_block(ldb0.get_name_location(label))

    def pinned_extent(ch):
        return sum(blk(l).max_size + (-blk(l).max_size) % blk(l).alignment for l in ch)

    def floating_need(ch):
        return sum(blk(l).max_size + blk(l).alignment - 1 for l in ch)
    for _ in range(2):
        order = list(chains)
        rng.shuffle(order)
        k = rng.randint((n + 1) // 2, n - 2)          # pinned chains; holes = k >= floating = n - k
        pinned, floating = order[:k], order[k:]
        holes = list(range(k))                         # hole i follows pinned chain i (last = tail)
        rng.shuffle(holes)
        owner = dict(zip(holes, floating))             # hole -> floating chain
        hbase = rng.choice(arch.cbases)
        hbase += (-hbase) % 4
        p, cur = {}, hbase
        row = []
        for i, ch in enumerate(pinned):
            p[ch[0]] = cur
            cur += pinned_extent(ch)
            if i in owner:
                size = floating_need(owner[i]) + 1 + unit * rng.choice([0, 0, 0, 1, 2, 6])
            else:
                size = unit * rng.choice([0, 0, 1, 2])
            size += (-size) % 4
            row.append("%s@%#x hole %d%s" % (ch[0], p[ch[0]], size,
                                             (" for " + owner[i][0]) if i in owner else ""))
            cur += size
        hhi = cur - 1
        if rng.random() < 0.6:
            itv, kind = (hbase, hhi), "exact"
        else:
            slack = 4 * rng.choice([1, 2, 4])
            itv, kind = (hbase, hhi + slack), "exact+slack"
        rec.count("holes:runs")
        rec.count("holes:floating_chains", len(floating))
        rec.count("holes:pinned_chains", len(pinned))
        if len(floating) >= 2 and len(pinned) >= 2:
            rec.count("holes:two_floating_two_pinned")
        run("holes", p, itv, kind,
            "row of pinned chains, each followed by a hole; every floating chain fits the hole it owns "
            "even at the assembler's maximal size estimate: " + "; ".join(row))
