"""C24 the virtual memory manager behaves like a byte map with permissions.

Monitored: miasm.jitter.VmMngr (vm_mngr.c / vm_mngr_py.c, built from the working tree
with ASan+UBSan) through its Python API and through one-instruction programs run on the
GCC jitter (C path vm_MEM_LOOKUP_* / vm_MEM_WRITE_*) and on the Python jitter.
Oracle: vf/models/c24_vmmodel.py, a dictionary-like shadow model.  Every operation of a
random history is applied to both and the visible result compared; the whole state is
audited at the end of each history.
"""
from vf import common

CHECK = dict(
    id="C24", level="exploration",
    rule=("random histories of 30-200 operations (add/remove page, set/get access, host get_mem/"
          "set_mem/get_uN/set_uN/is_mapped, emulated 8/16/32/64-bit loads and stores through "
          "one-instruction programs on x86_64 and big-endian aarch64, GCC and Python back ends, "
          "memory breakpoints, get_memory_read/write, reset_memory_access, byte-order switches) over "
          "0x1000..0x4fff and the top 0x4000 bytes of the 64-bit space; pages of size 0,1,7,8,16,"
          "0x400,0x800,0x1000,0x1001 on a 0x400 grid (+1,+7 offsets) so that adjacent, nested and "
          "overlapping requests are the norm; addresses are drawn around page edges; distinct = "
          "distinct (operation kind, outcome) 3-grams; non-trivial = every history (>= 2 pages)"),
    assumptions=["the shadow model (dict of pages with bytearrays) is the definition of a byte map "
                 "with per-page permissions",
                 "a failing host write may have written the mapped prefix (the statement only "
                 "requires failure); the model is resynchronised from the manager on those bytes",
                 "whether faulting attempts and host writes appear in get_memory_read/write is left "
                 "open: recorded bytes must contain every completed emulated access and be contained "
                 "in completed + attempted + host-written bytes",
                 "a zero-sized page may be accepted or refused anywhere; a refusal of a non-empty page "
                 "is only required when bytes really overlap and an acceptance when no zero-sized "
                 "page is involved",
                 "the way a fault is delivered (exception handler vs Python exception escaping run) "
                 "belongs to C20/C49; here an escaping exception with the access-violation flag set "
                 "counts as a fault"],
    timeout={"quick": 900, "thorough": 3400},
    exhaustive={"quick": False, "thorough": False},
    overlay="asan",
    crash_is_violation=True,
    technique=("runtime monitoring: shadow byte-map model compared after every operation; "
               "C extensions under AddressSanitizer + UndefinedBehaviorSanitizer"),
    level_note="shadow model, x86_64/aarch64 MOV/LDR/STR semantics of the jitter for the access width",
)

M64 = (1 << 64) - 1
LOW = 0x1000
TOPB = (1 << 64) - 0x4000
CODE = 0x40000000
AV_BIT = 1 << 14
BPMEM = 1 << 10

X86_PROGS = {("load", 8): "8a03", ("load", 16): "668b03", ("load", 32): "8b03", ("load", 64): "488b03",
             ("store", 8): "8803", ("store", 16): "668903", ("store", 32): "8903", ("store", 64): "488903"}
A64_PROGS = {("load", 8): "39400020", ("load", 16): "79400020", ("load", 32): "b9400020",
             ("load", 64): "f9400020", ("store", 8): "39000020", ("store", 16): "79000020",
             ("store", 32): "b9000020", ("store", 64): "f9000020"}
ARCHS = {
    "x86_64": dict(progs=X86_PROGS, addr="RBX", val="RAX", pad=b"\x90" * 8, big=False),
    "aarch64b": dict(progs=A64_PROGS, addr="X1", val="X0", pad=bytes.fromhex("d503201f") * 2, big=True),
}
SIZES = [0, 0, 1, 7, 8, 0x10, 0x400, 0x400, 0x800, 0x800, 0x1000, 0x1000, 0x1001]
PERMS = [3, 3, 3, 3, 1, 1, 2, 0, 5, 7]


import os
NSHARDS = int(os.environ.get("VERIF_DEV_SHARDS", "16"))   # development aid (mutation trials on a loaded machine)


def shards(tier, seed, scale):
    per = 24 if tier == "quick" else 1000
    return common.mk_shards(NSHARDS, seed, tier, per * 16 // NSHARDS, scale, salt="c24")


_MACHINES = {}


def machine(arch):
    from miasm.analysis.machine import Machine
    if arch not in _MACHINES:
        _MACHINES[arch] = Machine(arch)
    return _MACHINES[arch]


class Emu(object):
    """one jitter (own LocationDB) with the eight one-instruction programs"""

    def __init__(self, arch, backend):
        from miasm.core.locationdb import LocationDB
        from miasm.jitter.csts import PAGE_READ, PAGE_EXEC, EXCEPT_ACCESS_VIOL, EXCEPT_BREAKPOINT_MEMORY
        self.arch, self.backend = arch, backend
        self.spec = ARCHS[arch]
        self.jitter = machine(arch).jitter(LocationDB(), backend)
        self.vm = self.jitter.vm
        code = b""
        self.entry = {}
        for i, (k, hx) in enumerate(sorted(self.spec["progs"].items())):
            ins = bytes.fromhex(hx)
            self.entry[k] = (CODE + 0x20 * i, CODE + 0x20 * i + len(ins))
            code += (ins + self.spec["pad"] * 8)[:0x20]
        self.vm.add_memory_page(CODE, PAGE_READ | PAGE_EXEC, code, "code")
        self.events = []

        def stop(jitter):
            self.events.append("stop")
            return False

        def on_av(jitter):
            self.events.append("av")
            return False

        def on_bp(jitter):
            self.events.append("membp")
            return False

        for _, end in self.entry.values():
            self.jitter.add_breakpoint(end, stop)
        self.jitter.add_exception_handler(EXCEPT_ACCESS_VIOL, on_av)
        self.jitter.add_exception_handler(EXCEPT_BREAKPOINT_MEMORY, on_bp)

    def access(self, kind, width, addr, value):
        j = self.jitter
        start, end = self.entry[(kind, width)]
        setattr(j.cpu, self.spec["addr"], addr)
        setattr(j.cpu, self.spec["val"], value if kind == "store" else 0)
        j.vm.set_exception(0)
        j.cpu.set_exception(0)
        del self.events[:]
        exc = None
        try:
            j.init_run(start)
            j.continue_run()
        except Exception as e:     # the Python back end lets host exceptions escape
            exc = "%s: %s" % (type(e).__name__, e)
        flags = j.vm.get_exception()
        cpuflags = j.cpu.get_exception()
        res = dict(exc=exc, flags=flags, cpuflags=cpuflags, pc=j.pc, events=list(self.events),
                   done=(j.pc == end),
                   loaded=getattr(j.cpu, self.spec["val"]) & ((1 << width) - 1),
                   mem_r=list(j.vm.get_memory_read()), mem_w=list(j.vm.get_memory_write()))
        j.vm.set_exception(0)
        j.cpu.set_exception(0)
        return res


class Abandon(Exception):
    pass


class History(object):
    def __init__(self, rng, rec, idx, tier):
        from vf.models.c24_vmmodel import VmModel
        self.rng, self.rec = rng, rec
        self.arch = rng.choice(["x86_64", "x86_64", "aarch64b"])
        self.backend = rng.choice(["gcc", "gcc", "python"])
        self.emu = Emu(self.arch, self.backend)
        self.vm = self.emu.vm
        self.model = VmModel(big_endian=ARCHS[self.arch]["big"])
        r = rng.random()
        self.regions = [LOW] if r < 0.6 else ([TOPB] if r < 0.8 else [LOW, TOPB])
        self.allow_top_end = (TOPB in self.regions) and rng.random() < 0.25
        self.allow_zero = rng.random() < 0.6
        self.ops = []
        self.kinds = []
        self.idx = idx
        self.ctx = None
        self.group = "page table"
        rec.count("history:%s/%s" % (self.arch, self.backend))
        rec.count("history:region=%s" % "+".join("low" if b == LOW else "top" for b in self.regions))

    # ---------------------------------------------------------------- helpers
    def witness(self, **kw):
        d = dict(arch=self.arch, backend=self.backend, history=self.ops[-120:], n_ops=len(self.ops),
                 manager_page_table=repr(self.vm).split("\n")[1:],
                 pages=[(hex(p.ad), hex(p.size), p.access) for p in self.model.pages],
                 zero_pages=[hex(z) for z in self.model.zpages],
                 bps=[(hex(a), s, k) for a, s, k in self.model.bps],
                 big_endian=self.model.big_endian)
        d.update(kw)
        return d

    def tags(self, addr, n):
        """Sets the root-cause context of the current operation (see fail) and returns the
        key suffix for accesses that wrap around 2**64."""
        m = self.model
        end = addr + n
        touched = [p for p in m.pages if p.ad < end and addr < p.end] if n else []
        if n and end > (1 << 64):
            touched += [p for p in m.pages if p.ad < end - (1 << 64)]
        if any(p.ad in m.zpages for p in touched):
            self.ctx = "zero"
        if any(p.end == (1 << 64) for p in touched):
            self.ctx = "top"
        return " [wraps 2^64]" if n and end > (1 << 64) else ""

    ROOT = {"zero": "an empty page shares the address of a touched page (%s)",
            "top": "a touched page ends at 2^64 (%s)"}

    def fail(self, key, what, **kw):
        kw.pop("independent", None)
        if self.ctx in self.ROOT:
            # context only (both lookup defects were repaired by 73ab58a / accc712): keys are not rewritten
            what = "%s [context: %s]" % (what, self.ROOT[self.ctx] % self.group)
        self.rec.fail(key, what, self.witness(**kw))

    def note(self, kind, outcome=""):
        self.kinds.append(kind + ":" + outcome)
        self.rec.count("op:" + kind)
        if outcome:
            self.rec.count("op:%s:%s" % (kind, outcome))
        if len(self.kinds) >= 3:
            self.rec.distinct("/".join(self.kinds[-3:]))

    def clear_flags(self):
        if self.vm.get_exception():
            self.rec.count("host_failure_left_exception_flag")
            self.vm.set_exception(0)

    def pick_region(self):
        return self.rng.choice(self.regions)

    def pick_addr(self):
        rng, m = self.rng, self.model
        r = rng.random()
        if m.pages and r < 0.55:
            p = rng.choice(m.pages)
            edge = p.ad if rng.random() < 0.45 else p.end
            a = edge + rng.randint(-9, 4)
        elif m.pages and r < 0.88:
            p = rng.choice(m.pages)
            a = p.ad + rng.randrange(p.size)
        elif r < 0.91 and TOPB in self.regions:
            a = rng.choice([0, 1, 8, (1 << 64) - 1, (1 << 64) - 4, (1 << 64) - 8])
        else:
            a = self.pick_region() + rng.randrange(0x4000)
        if a < 0:
            a = 0
        return a & M64

    def actual_byte(self, a):
        if not self.vm.is_mapped(a, 1):
            return None
        try:
            return self.vm.get_mem(a, 1)[0]
        except Exception:
            self.clear_flags()
            return None

    def obs_sets(self):
        from vf.models.c24_vmmodel import ranges_to_bytes
        r = ranges_to_bytes(self.vm.get_memory_read())
        w = ranges_to_bytes(self.vm.get_memory_write())
        return r, w

    def check_sets(self, where, robs, wobs):
        """recorded ranges against must/may sets; resynchronise on divergence"""
        m = self.model
        bad = False
        for name, obs, must, may in (("read", robs, m.r_must, m.r_may), ("write", wobs, m.w_must, m.w_may)):
            if obs is None:
                self.fail("get_memory_%s: absurd range" % name, "a recorded range is longer than 64 KiB",
                          where=where)
                raise Abandon()
            self.rec.ev()
            if not must <= obs:
                bad = True
                self.fail("get_memory_%s misses accessed bytes (%s)" % (name, where),
                          "bytes of a completed access are not in the recorded ranges",
                          missing=[hex(a) for a in sorted(must - obs)[:12]], where=where)
            elif not obs <= may:
                bad = True
                self.fail("get_memory_%s reports bytes never accessed (%s)" % (name, where),
                          "recorded ranges contain bytes no access touched since the last reset",
                          extra=[hex(a) for a in sorted(obs - may)[:12]], where=where)
            else:
                self.rec.count("sets_checked:%s" % name)
                if obs:
                    self.rec.count("sets_checked_nonempty:%s" % name)
        if bad:
            m.resync_access(robs, wobs)

    # ---------------------------------------------------------------- operations
    def op_add_page(self):
        rng, m = self.rng, self.model
        base = self.pick_region()
        size = rng.choice(SIZES)
        if size == 0 and not self.allow_zero:
            size = 0x400
        ad = base + 0x400 * rng.randrange(16) + rng.choice([0, 0, 0, 0, 1, 7, 0x3ff])
        if m.pages and rng.random() < 0.25:
            # exactly adjacent to / nested in an existing page
            p = rng.choice(m.pages)
            ad = rng.choice([p.end, p.ad - size, p.ad, p.end - 1, p.ad + 1]) if size else \
                rng.choice([p.end, p.ad, p.ad + p.size // 2])
        if base == TOPB and rng.random() < 0.03:
            ad = rng.choice([0, 8])
        if ad < 0:
            ad = 0
        if ad + size > (1 << 64):
            ad = (1 << 64) - size
        if ad + size == (1 << 64) and not self.allow_top_end:
            ad -= 0x400
        if ad > M64:
            return
        access = rng.choice(PERMS)
        fill = rng.randrange(256)
        data = bytes((fill + i * 7) & 0xff for i in range(size))
        self.ops.append(("add_memory_page", hex(ad), access, size))
        over = m.overlapping(ad, size)
        zero = m.zero_involved(ad, size)
        if (size and ad + size == (1 << 64)) or any(p.end == (1 << 64) for p in over):
            self.ctx = "top"
        tag = ""
        self.rec.ev()
        try:
            self.vm.add_memory_page(ad, access, data, "p%d" % len(self.ops))
            accepted = True
        except TypeError:
            accepted = False
        except Exception as exc:
            self.fail("add_memory_page raises %s" % type(exc).__name__, str(exc))
            raise Abandon()
        self.clear_flags()
        if size == 0:
            self.rec.count("zero_sized_page_requests")
            self.rec.count("zero_sized_page_%s" % ("accepted" if accepted else "refused"))
        if over:
            self.note("add_page", "overlap")
            if accepted:
                self.fail("add_memory_page accepts an overlapping page" + tag,
                          "page [0x%x,+0x%x) overlaps [0x%x,+0x%x) but was accepted" % (
                              ad, size, over[0].ad, over[0].size))
                raise Abandon()
            return
        if not accepted:
            self.note("add_page", "refused_free")
            if not zero:
                self.fail("add_memory_page refuses a page overlapping nothing" + tag,
                          "page [0x%x,+0x%x) overlaps no mapped byte but was refused" % (ad, size))
                raise Abandon()
            self.rec.count("refusal_next_to_zero_sized_page")
            return
        self.note("add_page", "ok" if size else "ok_zero")
        m.add_page(ad, access, data)
        if size:
            # the fresh page must be readable through the host API with its content and access
            try:
                got = self.vm.get_mem(ad, size)
                acc = self.vm.get_mem_access(ad)
            except Exception as exc:
                self.clear_flags()
                self.fail("fresh page not readable by the host" + self.tags(ad, size),
                          "get_mem/get_mem_access on the page just added raised %s" % exc)
                raise Abandon()
            if got != data or acc != access:
                self.fail("fresh page content/access wrong" + self.tags(ad, size),
                          "page just added reads back differently")
                raise Abandon()

    def op_remove_page(self):
        m = self.model
        a = self.pick_addr()
        self.ops.append(("remove_memory_page", hex(a)))
        self.rec.ev()
        before = len(self.vm.get_all_memory())
        try:
            self.vm.remove_memory_page(a)
        except Exception as exc:
            self.fail("remove_memory_page raises %s" % type(exc).__name__, str(exc))
            raise Abandon()
        self.clear_flags()
        tag = self.tags(a, 1)
        p = m.remove_page(a)
        self.note("remove_page", "hit" if p else "miss")
        if p is not None:
            still = [x for x in (p.ad, p.end - 1, a) if self.vm.is_mapped(x, 1)]
            if still:
                self.fail("remove_memory_page leaves the page mapped" + tag,
                          "page containing 0x%x still mapped at %s" % (a, [hex(x) for x in still]))
                raise Abandon()
        self.audit_pages("after remove_memory_page" + tag)

    def op_set_access(self):
        m = self.model
        a = self.pick_addr()
        access = self.rng.choice(PERMS)
        self.ops.append(("set_mem_access", hex(a), access))
        self.rec.ev()
        p = m.find(a)
        try:
            self.vm.set_mem_access(a, access)
            ok = True
        except RuntimeError:
            ok = False
        self.clear_flags()
        self.note("set_access", "ok" if ok else "fail")
        if ok != (p is not None):
            self.fail("set_mem_access %s" % ("fails on a mapped address" if p else "succeeds on an unmapped address")
                      + self.tags(a, 1), "address 0x%x" % a)
            raise Abandon()
        if p:
            p.access = access

    def op_get_access(self):
        m = self.model
        a = self.pick_addr()
        self.ops.append(("get_mem_access", hex(a)))
        self.rec.ev()
        p = m.find(a)
        try:
            got = self.vm.get_mem_access(a)
        except RuntimeError:
            got = None
        self.clear_flags()
        self.note("get_access", "ok" if got is not None else "fail")
        want = p.access if p else None
        if got != want:
            self.fail("get_mem_access wrong" + self.tags(a, 1),
                      "address 0x%x: got %r, model %r" % (a, got, want))
            raise Abandon()

    def op_is_mapped(self):
        m = self.model
        a = self.pick_addr()
        n = self.rng.choice([0, 1, 2, 8, 9, 0x10, 0x401, 0x1000])
        self.ops.append(("is_mapped", hex(a), n))
        self.rec.ev()
        got = bool(self.vm.is_mapped(a, n))
        want = m.all_mapped(a, n)
        self.note("is_mapped", str(want))
        if self.vm.get_exception():
            self.fail("is_mapped sets an exception flag", "flags 0x%x" % self.vm.get_exception())
            self.vm.set_exception(0)
        if got != want:
            self.fail("is_mapped wrong" + self.tags(a, n), "is_mapped(0x%x, 0x%x) = %r, model %r" % (a, n, got, want))
            raise Abandon()

    def op_host_get(self):
        m = self.model
        a = self.pick_addr()
        n = self.rng.choice([0, 1, 2, 3, 7, 8, 9, 0x20, 0x400, 0x1000, 0x1800])
        self.ops.append(("get_mem", hex(a), n))
        self.rec.ev()
        want = m.read(a, n) if m.all_mapped(a, n) else None
        try:
            got = self.vm.get_mem(a, n)
        except RuntimeError:
            got = None
        self.clear_flags()
        self.note("host_get", "ok" if want is not None else "unmapped")
        if n and len(m.npages(a, min(n, 64))) > 1:
            self.rec.count("host_access_spanning_pages")
        if got != want:
            if want is None:
                key = "host get_mem succeeds on unmapped bytes"
            elif got is None:
                key = "host get_mem fails on mapped bytes"
            else:
                key = "host get_mem returns wrong bytes"
            self.fail(key + self.tags(a, n), "get_mem(0x%x, 0x%x)" % (a, n),
                      got=got.hex()[:64] if got else got, want=want.hex()[:64] if want else want)
            raise Abandon()

    def resync_bytes(self, a, n):
        m = self.model
        changed = 0
        for x in m.span(a, n):
            if m.find(x) is not None:
                b = self.actual_byte(x)
                if b is not None and b != m.byte(x):
                    m.set_byte(x, b)
                    changed += 1
        return changed

    def op_host_set(self):
        rng, m = self.rng, self.model
        a = self.pick_addr()
        n = rng.choice([0, 1, 2, 3, 7, 8, 9, 0x20, 0x400, 0x1001])
        data = bytes(rng.randrange(256) for _ in range(min(n, 32))) * (n // 32 + 1)
        data = data[:n]
        self.ops.append(("set_mem", hex(a), data.hex() if n <= 32 else "%s*" % data[:32].hex()))
        self.rec.ev()
        mapped = m.all_mapped(a, n)
        try:
            self.vm.set_mem(a, data)
            ok = True
        except (TypeError, RuntimeError):
            ok = False
        self.clear_flags()
        self.note("host_set", "ok" if mapped else "unmapped")
        if ok != mapped:
            self.fail(("host set_mem fails on mapped bytes" if mapped else
                       "host set_mem succeeds on unmapped bytes") + self.tags(a, n),
                      "set_mem(0x%x, %d bytes)" % (a, n))
            raise Abandon()
        if ok:
            m.write(a, data)
            m.w_may.update(m.span(a, n))
            if n == 0:
                m.w_points.append(a)
            if n and self.vm.get_mem(a, n) != data:
                self.fail("host set_mem not read back" + self.tags(a, n), "set_mem then get_mem differ")
                raise Abandon()
        else:
            # failure is all the statement asks; a written prefix is tolerated and adopted
            k = 0
            for i, x in enumerate(m.span(a, min(n, 0x1001))):
                if m.find(x) is None:
                    continue
                b = self.actual_byte(x)
                if b is None or b == m.byte(x):
                    continue
                if b != data[i]:
                    self.fail("failing host set_mem corrupts memory" + self.tags(a, n),
                              "byte 0x%x is neither the old nor the written value" % x)
                    raise Abandon()
                m.set_byte(x, b)
                k += 1
            if k:
                self.rec.count("host_failing_write_left_prefix")
            m.w_may.update(m.span(a, min(n, 0x1001)))

    def op_host_typed(self):
        rng, m = self.rng, self.model
        a = self.pick_addr()
        width = rng.choice([8, 16, 32, 64])
        n = width // 8
        mapped = m.all_mapped(a, n)
        if rng.random() < 0.5:
            self.ops.append(("get_u%d" % width, hex(a)))
            self.rec.ev()
            want = int.from_bytes(m.read(a, n), m.order()) if mapped else None
            try:
                got = getattr(self.vm, "get_u%d" % width)(a)
            except RuntimeError:
                got = None
            self.clear_flags()
            self.note("host_get_u", "ok" if mapped else "unmapped")
            if got != want:
                self.fail("host get_u%d wrong (%s endian)%s" % (width, m.order(), self.tags(a, n)),
                          "get_u%d(0x%x) = %r, model %r" % (width, a, got, want))
                raise Abandon()
        else:
            v = rng.getrandbits(width)
            self.ops.append(("set_u%d" % width, hex(a), hex(v)))
            self.rec.ev()
            try:
                getattr(self.vm, "set_u%d" % width)(a, v)
                ok = True
            except (TypeError, RuntimeError):
                ok = False
            self.clear_flags()
            self.note("host_set_u", "ok" if mapped else "unmapped")
            if ok != mapped:
                self.fail("host set_u%d %s%s" % (width, "fails on mapped bytes" if mapped else
                                                 "succeeds on unmapped bytes", self.tags(a, n)), "0x%x" % a)
                raise Abandon()
            if ok:
                data = v.to_bytes(n, m.order())
                m.write(a, data)
                m.w_may.update(m.span(a, n))
                got = self.vm.get_mem(a, n)
                if got != data:
                    self.fail("host set_u%d stores wrong bytes (%s endian)%s" % (width, m.order(), self.tags(a, n)),
                              "set_u%d(0x%x, 0x%x) stored %s" % (width, a, v, got.hex()))
                    raise Abandon()
            else:
                self.resync_bytes(a, n)
                m.w_may.update(m.span(a, n))

    def op_endian(self):
        big = self.rng.random() < 0.5
        self.ops.append(("set_big_endian" if big else "set_little_endian",))
        self.rec.ev()
        (self.vm.set_big_endian if big else self.vm.set_little_endian)()
        self.model.big_endian = big
        self.note("endian", "big" if big else "little")
        if bool(self.vm.is_little_endian()) == big:
            self.fail("is_little_endian wrong", "after %s" % self.ops[-1][0])

    def op_add_bp(self):
        rng, m = self.rng, self.model
        a = self.pick_addr()
        size = rng.choice([1, 1, 2, 4, 8, 0x10])
        if a + size >= (1 << 64):
            # ad + size of a breakpoint is not required to be representable beyond 2^64 - 1
            a = (1 << 64) - size - 1
        access = rng.choice([1, 2, 3])
        self.ops.append(("add_memory_breakpoint", hex(a), size, access))
        self.rec.ev()
        self.vm.add_memory_breakpoint(a, size, access)
        m.add_bp(a, size, access)
        flag = bool(self.vm.get_exception() & BPMEM)
        must = m.bp_hits(m.r_must, m.w_must)
        may = m.bp_hits(m.r_may, m.w_may) or m.point_hits()
        self.note("add_bp", "pending" if flag else "quiet")
        other = self.vm.get_exception() & ~BPMEM
        self.vm.set_exception(0)
        if other:
            self.fail("add_memory_breakpoint sets other flags", "0x%x" % other)
        if must and not flag:
            self.fail("add_memory_breakpoint misses a pending access", "an access recorded since the last reset overlaps")
        elif flag and not may:
            self.fail("add_memory_breakpoint raises without overlapping access",
                      "EXCEPT_BREAKPOINT_MEMORY although nothing recorded overlaps a breakpoint")

    def op_rm_bp(self):
        rng, m = self.rng, self.model
        if m.bps and rng.random() < 0.8:
            a, _, access = rng.choice(m.bps)
            if rng.random() < 0.2:
                access = rng.choice([1, 2, 3])
        else:
            a, access = self.pick_addr(), rng.choice([1, 2, 3])
        self.ops.append(("remove_memory_breakpoint", hex(a), access))
        self.rec.ev()
        self.vm.remove_memory_breakpoint(a, access)
        n0 = len(m.bps)
        m.remove_bp(a, access)
        self.note("rm_bp", "hit" if len(m.bps) != n0 else "miss")

    def op_get_sets(self):
        self.ops.append(("get_memory_read/write",))
        robs, wobs = self.obs_sets()
        self.note("get_sets", "nonempty" if (robs or wobs) else "empty")
        self.check_sets("host query", robs, wobs)

    def op_reset(self):
        self.ops.append(("reset_memory_access",))
        self.rec.ev()
        self.vm.reset_memory_access()
        self.model.reset_access()
        self.note("reset")
        if self.vm.get_memory_read() or self.vm.get_memory_write():
            self.fail("reset_memory_access leaves ranges", "lists not empty after reset")

    # ---- emulated typed access
    def op_emul(self):
        rng, m = self.rng, self.model
        kind = rng.choice(["load", "store"])
        width = rng.choice([8, 16, 32, 64, 64, 32])
        n = width // 8
        a = self.pick_addr()
        value = rng.getrandbits(width)
        pre_reset = rng.random() < 0.7
        if pre_reset:
            self.vm.reset_memory_access()
            m.reset_access()
        self.ops.append(("emul_" + kind, width, hex(a), hex(value) if kind == "store" else None,
                         "after_reset" if pre_reset else "no_reset"))
        self.rec.ev()
        be = self.backend
        need = 1 if kind == "load" else 2
        st = m.statuses(a, n, need)
        span = m.span(a, n)
        expect_fault = any(s != "ok" for s in st)
        cause = "unmapped" if "unmapped" in st else "noperm"
        cls = "%s, %s" % (cause, "first byte" if st[0] == cause else "later byte only")
        tag = self.tags(a, n)
        straddle = len(set(id(m.find(x)) for x in span)) > 1
        pre = [m.byte(x) for x in span]
        res = self.emu.access(kind, width, a, value)
        fault = bool(res["flags"] & AV_BIT)
        bpflag = bool(res["flags"] & BPMEM)
        if res["exc"] is not None:
            self.rec.count("emul/%s:exception_escapes_run" % be)
            if not fault:
                self.fail("emul/%s: %s raises without access-violation flag [%s]%s" % (be, kind, cls, tag),
                          res["exc"], res=res)
                raise Abandon()
        if res["cpuflags"] or (res["flags"] & ~(AV_BIT | BPMEM | (1 << 25))):
            self.fail("emul/%s: unexpected exception flags" % be, "vm 0x%x cpu 0x%x" % (res["flags"], res["cpuflags"]),
                      res=res)
            raise Abandon()
        self.rec.count("emul:%s/%s" % (be, kind))
        self.rec.count("emul_width:%d" % width)
        if straddle:
            self.rec.count("emul_straddling")
            self.rec.count("emul_straddling/%s" % be)
        if expect_fault:
            self.rec.count("emul_expect_fault:" + ("unmapped" if "unmapped" in st else "noperm"))
            self.rec.count("emul_expect_fault/%s:%s" % (be, "unmapped" if "unmapped" in st else "noperm"))
        self.rec.count("emul_class:%s %s" % (kind, cls if expect_fault else "all bytes ok"))
        self.note("emul_" + kind, ("fault" if fault else "ok") + ("+bp" if bpflag else ""))
        post = [self.actual_byte(x) for x in span]

        diverged = False
        if fault:
            if not expect_fault:
                diverged = True
                self.fail("emul/%s: %s faults although every byte is mapped and permitted%s" % (be, kind, tag),
                          "%d-bit %s at 0x%x" % (width, kind, a), res=res)
            lost = [hex(x) for x, p0, p1 in zip(span, pre, post) if p0 is not None and p1 is None]
            if lost:
                diverged = True
                self.fail("emul/%s: mapped bytes cannot be read back by the host" % be,
                          "bytes %s are mapped in the model but is_mapped/get_mem fail" % lost, res=res)
            if kind == "store":
                chg = [hex(x) for x, p0, p1 in zip(span, pre, post)
                       if p0 is not None and p1 is not None and p0 != p1]
                if chg:
                    diverged = True
                    self.fail("emul/%s: faulting store changes memory [%s]" % (be, cls),
                              "%d-bit store at 0x%x faulted but bytes %s changed%s" % (width, a, chg, tag), res=res,
                              independent=(cause == "unmapped" and st[0] != "unmapped"))
        else:
            if expect_fault:
                diverged = True
                self.fail("emul/%s: %s does not fault [%s]" % (be, kind, cls),
                          "%d-bit %s at 0x%x touches %s but no access violation was raised%s" % (
                              width, kind, a, st, tag), res=res, independent=True)
            else:
                if not res["done"]:
                    diverged = True
                    self.fail("emul/%s: %s neither faults nor completes" % (be, kind), "pc=0x%x" % res["pc"], res=res)
                if kind == "load":
                    want = int.from_bytes(bytes(pre), m.order())
                    if res["loaded"] != want:
                        diverged = True
                        self.fail("emul/%s: %d-bit load value wrong (%s endian)%s" % (be, width, m.order(), tag),
                                  "load at 0x%x = 0x%x, model 0x%x" % (a, res["loaded"], want), res=res)
                else:
                    want = list(value.to_bytes(n, m.order()))
                    if post != want:
                        diverged = True
                        self.fail("emul/%s: %d-bit store bytes wrong (%s endian)%s" % (be, width, m.order(), tag),
                                  "store of 0x%x at 0x%x left %r" % (value, a, post), res=res)
                    else:
                        m.write(a, bytes(want))
        if kind == "load" and not diverged:
            chg = [hex(x) for x, p0, p1 in zip(span, pre, post) if p0 != p1]
            if chg:
                diverged = True
                self.fail("emul/%s: load changes memory" % be, "bytes %s" % chg, res=res)
        if diverged:
            self.resync_bytes(a, n)

        # ---- recorded ranges and memory breakpoints
        from vf.models.c24_vmmodel import ranges_to_bytes
        robs, wobs = ranges_to_bytes(res["mem_r"]), ranges_to_bytes(res["mem_w"])
        completed = (not fault) and not diverged
        sp = set(span)
        pend_must = m.bp_hits(m.r_must, m.w_must)
        pend_may = m.bp_hits(m.r_may, m.w_may) or m.point_hits()
        cur_hit = m.bp_hits(sp if kind == "load" else (), sp if kind == "store" else ())
        # a range ending at or wrapping 2^64 cannot be represented by the manager's (start, stop)
        # pairs: its recording and its later breakpoint matches are left open ("may" only)
        at_top = a + n >= (1 << 64)
        if kind == "load":
            m.r_may |= sp
            if completed and not at_top:
                m.r_must |= sp
        else:
            m.w_may |= sp
            if completed and not at_top:
                m.w_must |= sp
        if cur_hit:
            self.rec.count("emul_overlaps_breakpoint")
        if a + n >= (1 << 64):
            # the recorded range [a, a+n) ends at or wraps 2^64: breakpoint decision left open
            self.rec.count("bp_decision_skipped_at_top")
        elif not diverged:
            must_bp = (completed and cur_hit) or (completed and pend_must)
            may_bp = cur_hit or pend_may
            if must_bp and not bpflag:
                self.fail("emul/%s: memory breakpoint missed (%s)%s" % (be, kind, tag),
                          "%d-bit %s at 0x%x overlaps a breakpoint, no EXCEPT_BREAKPOINT_MEMORY" % (width, kind, a),
                          res=res)
            elif bpflag and not may_bp:
                self.fail("emul/%s: memory breakpoint raised without overlap (%s)%s" % (be, kind, tag),
                          "%d-bit %s at 0x%x overlaps no breakpoint of its kind" % (width, kind, a), res=res)
            else:
                self.rec.count("bp_decisions_checked")
                if bpflag:
                    self.rec.count("bp_triggered")
        if fault or bpflag or res["exc"] is not None:
            # the instruction did not reach its own reset: ranges are observable
            if not diverged:
                self.check_sets("after emulated %s" % kind, robs, wobs)
            else:
                if robs is None or wobs is None:
                    raise Abandon()
                m.resync_access(robs, wobs)
        else:
            if res["mem_r"] or res["mem_w"]:
                self.fail("emul/%s: completed instruction leaves recorded ranges" % be,
                          "r=%r w=%r" % (res["mem_r"], res["mem_w"]))
            m.reset_access()

    # ---- audits
    def audit_pages(self, where):
        m = self.model
        allm = self.vm.get_all_memory()
        # get_all_memory is keyed by address: an empty page at the address of a real page may hide it
        hidden = set(m.zpages)
        got = sorted((ad, d["size"]) for ad, d in allm.items() if ad != CODE and d["size"])
        want = sorted((p.ad, p.size) for p in m.pages)
        if [x for x in got if x[0] not in hidden] != [x for x in want if x[0] not in hidden] or \
                not set(got) <= set(want):
            self.fail("page list differs " + where, "manager %r, model %r" % (
                [(hex(a), hex(s)) for a, s in got], [(hex(a), hex(s)) for a, s in want]))
            raise Abandon()

    def audit(self):
        m = self.model
        self.rec.ev()
        self.audit_pages("at end of history")
        allm = self.vm.get_all_memory()
        for p in m.pages:
            d = allm[p.ad]
            self.ctx = None
            tag = self.tags(p.ad, p.size)
            if d["size"] == 0 and p.ad in m.zpages:
                d = dict(data=bytes(p.data), access=p.access)
            if d["data"] != bytes(p.data) or d["access"] != p.access:
                self.fail("final audit: page content/access differs (get_all_memory)" + tag,
                          "page 0x%x" % p.ad)
                return
            try:
                got = self.vm.get_mem(p.ad, p.size)
            except Exception:
                got = None
                self.clear_flags()
            if got != bytes(p.data):
                self.fail("final audit: get_mem differs from model" + tag, "page 0x%x" % p.ad)
                return
            for x in (p.ad - 1, p.end):
                if 0 <= x < (1 << 64) and m.find(x) is None and self.vm.is_mapped(x, 1):
                    self.fail("final audit: byte outside every page is mapped" + tag, "0x%x" % x)
                    return
        self.rec.count("audits_passed")

    OPS = [("add_page", 12), ("remove_page", 5), ("set_access", 7), ("get_access", 3), ("is_mapped", 3),
           ("host_get", 6), ("host_set", 6), ("host_typed", 9), ("endian", 3), ("add_bp", 6), ("rm_bp", 3),
           ("get_sets", 4), ("reset", 2), ("emul", 36)]

    GROUPS = dict(emul="emulated access", host_get="host access", host_set="host access",
                  host_typed="host access", is_mapped="host access")

    def run(self, nops):
        rng = self.rng
        names = [n for n, _ in self.OPS]
        weights = [w for _, w in self.OPS]
        try:
            for _ in range(rng.randint(2, 4)):
                self.op_add_page()
            for _ in range(nops):
                name = rng.choices(names, weights)[0]
                self.ctx = None
                self.group = self.GROUPS.get(name, "page table")
                getattr(self, "op_" + name)()
            self.ctx = None
            self.group = "page table"
            self.audit()
            self.rec.count("histories_completed")
        except Abandon:
            self.rec.count("histories_abandoned")


def run_shard(params, rec):
    common.quiet()
    rng = common.rng_for(params)
    for i in range(params["n"]):
        h = History(rng, rec, i, params["tier"])
        nops = rng.randint(30, 200)
        h.run(nops)
        rec.count("histories")
        if i < 2 and params["shard"] == 0:
            rec.sample(dict(arch=h.arch, backend=h.backend, first_ops=h.ops[:25]))


def floors(tier, c, evaluations):
    miss = []
    emul = sum(v for k, v in c.items() if k.startswith("emul:"))
    if emul < 500:
        miss.append("fewer than 500 emulated accesses (%d)" % emul)
        return miss
    if c.get("emul_straddling", 0) < 0.15 * emul:
        miss.append("straddling emulated accesses below 15%% (%d of %d)" % (c.get("emul_straddling", 0), emul))
    for k in ("unmapped", "noperm"):
        if c.get("emul_expect_fault:" + k, 0) < 0.10 * emul:
            miss.append("emulated accesses expected to fault (%s) below 10%% (%d of %d)" % (
                k, c.get("emul_expect_fault:" + k, 0), emul))
    adds = c.get("op:add_page", 0)
    if c.get("zero_sized_page_requests", 0) < 0.05 * adds:
        miss.append("zero-sized page requests below 5%")
    for be in ("gcc", "python"):
        for kind in ("load", "store"):
            if c.get("emul:%s/%s" % (be, kind), 0) < 50:
                miss.append("fewer than 50 emulated %ss on the %s back end" % (kind, be))
        if c.get("emul_straddling/%s" % be, 0) < 20:
            miss.append("fewer than 20 straddling accesses on the %s back end" % be)
    for k in ("history:x86_64/gcc", "history:aarch64b/gcc", "history:x86_64/python", "history:aarch64b/python",
              "op:remove_page:hit", "op:add_page:overlap", "op:host_get:unmapped", "op:host_set:unmapped",
              "op:endian:big", "op:endian:little", "bp_triggered", "sets_checked_nonempty:read",
              "sets_checked_nonempty:write", "host_access_spanning_pages", "audits_passed",
              "history:region=top", "history:region=low"):
        if c.get(k, 0) == 0:
            miss.append("never observed: " + k)
    if c.get("histories_completed", 0) < 0.3 * c.get("histories", 1):
        miss.append("fewer than 30% of the histories ran to their final audit")
    return miss
