"""C35 C type layout matches the platform ABI (x86-64 System V via gcc).

layout   random headers (nested/inline/anonymous structs and unions, arrays with constant
         expressions, every leaf type of CTypeAMD64_unk, pointers, function pointers, enums,
         typedefs) are parsed by CAstTypes; for every tagged aggregate the ObjC of
         CTypesManagerNotPacked must have gcc's sizeof/_Alignof and every member gcc's
         offsetof/sizeof; CTypesManagerPacked must equal gcc with __attribute__((packed)) on
         every aggregate.  One gcc probe program per shard prints all numbers.
access   random member accesses from 'ptr' (struct root *): c_to_expr must be the address
         arithmetic computed from gcc's offsetof (ExprMem of the member's size for scalars and
         pointers, the address for arrays and '&'), and expr_to_c of that expression must
         contain an access of the same type that converts back to the same expression.
"""
import os
import subprocess
import traceback

from vf import common

CHECK = dict(
    id="C35", level="exploration",
    rule=("random C headers: 2-5 top-level struct/union definitions with 1-6 members each drawn "
          "from the 25 integer/floating spellings of CTypeAMD64_unk, pointers (to scalars, void, "
          "structs incl. self), function pointers, enums, typedefs (array, pointer, aggregate), "
          "arrays of 1-3 dimensions with constant expressions and sizeof, nested tagged inline "
          "aggregates and anonymous struct/union members (depth <= 2); per header up to 10 random "
          "accesses (->, ., [i], *, &, through pointer members; a fraction with the forms known to "
          "be fragile: anonymous members, (*p).m, p[i].m, & of an element); distinct = distinct "
          "header text / access string; non-trivial = all"),
    assumptions=["gcc on this host implements the x86-64 System V layout and its packed variant",
                 "struct-valued accesses are represented by their address (type T* on the way "
                 "back) and are not part of the round-trip comparison",
                 "bit-fields and flexible array members are outside what the manager supports"],
    timeout={"quick": 900, "thorough": 3400},
    exhaustive={"quick": False, "thorough": False},
    technique="differential: gcc sizeof/_Alignof/offsetof probe vs CTypesManager; round trip monitor",
)


def shards(tier, seed, scale):
    per = 12 if tier == "quick" else 400
    return common.mk_shards(16, seed, tier, per_shard=per, scale=scale)


def floors(tier, counters, evaluations):
    miss = []
    h = counters.get("headers", 0)
    if h == 0:
        return ["no header"]
    if counters.get("gcc_runs", 0) == 0:
        miss.append("gcc never ran")
    for k, n in (("aggregates_compared:notpacked", 3 * h), ("aggregates_compared:packed", 3 * h),
                 ("members_compared", 10 * h), ("access:c_to_expr_compared", 2 * h),
                 ("access:roundtrip_ok", 2 * h), ("feature:union", h // 2), ("feature:anonymous", h // 3),
                 ("feature:inline", h // 2), ("feature:array", h), ("feature:pointer", h),
                 ("feature:padding_needed", h // 2)):
        if counters.get(k, 0) < n:
            miss.append("%s=%d < %d" % (k, counters.get(k, 0), n))
    return miss


def _frame(exc):
    tb = traceback.extract_tb(exc.__traceback__)
    for fr in reversed(tb):
        if "/miasm/" in fr.filename:
            return "%s:%s" % (fr.filename.split("/")[-1], fr.name)
    return "?"


def run_shard(params, rec):
    common.quiet()
    from vf.models import c35_cdecl as M
    rng = common.rng_for(params)
    scratch = os.environ.get("VERIF_SCRATCH_DIR") or os.environ.get("TMPDIR") or "/tmp"
    work = os.path.join(scratch, "c35_%d" % params.get("shard", 0))
    os.makedirs(work, exist_ok=True)
    batch = 12
    done = 0
    while done < params["n"]:
        nb = min(batch, params["n"] - done)
        items = []
        for i in range(nb):
            hid = "h%d" % (done + i)
            gen = M.Gen(rng, hid + "_")
            h = gen.header()
            roots = [a for a in h.aggs if a.kind == "struct" and a.complete and a.toplevel]
            tries = 0
            while roots and len(h.chains) < 10 and tries < 40:
                tries += 1
                root = rng.choice(roots)
                ch = M.gen_chain(rng, root, rng.random() < 0.25)
                if ch is not None:
                    ch.root = root
                    h.chains.append(ch)
            items.append((hid, gen))
        done += nb
        src = M.probe_source(items)
        cfile = os.path.join(work, "probe.c")
        exe = os.path.join(work, "probe")
        with open(cfile, "w") as fd:
            fd.write(src)
        env = dict(os.environ)
        env.pop("LD_PRELOAD", None)
        r = subprocess.run(["/usr/bin/gcc", "-w", "-O0", cfile, "-o", exe], stdout=subprocess.PIPE,
                           stderr=subprocess.STDOUT, env=env)
        if r.returncode != 0:
            # the generator produced invalid C: a harness defect, not a verdict
            raise RuntimeError("gcc rejects the generated header: %s" % r.stdout.decode()[-1500:])
        out = subprocess.run([exe], stdout=subprocess.PIPE, env=env).stdout.decode()
        rec.count("gcc_runs")
        S, Mm, A = M.parse_probe(out)
        for hid, gen in items:
            one_header(rec, M, hid, gen, S, Mm, A)


def one_header(rec, M, hid, gen, S, Mm, A):
    from miasm.core.ctypesmngr import CAstTypes, CTypeStruct, CTypeUnion, CTypePtr
    from miasm.arch.x86.ctype import CTypeAMD64_unk
    from miasm.core.objc import CTypesManagerNotPacked, CTypesManagerPacked, ObjCStruct, ObjCUnion
    h = gen.h
    text = gen.text(False)
    rec.count("headers")
    rec.ev()
    rec.distinct(text)
    wit = dict(header=text)
    if len(rec.samples) < 2:
        rec.sample(dict(header=text[:1500]))
    feats = set()
    for agg in h.aggs:
        if agg.kind == "union":
            feats.add("union")
        for m in agg.members:
            if m.how == "anon":
                feats.add("anonymous")
            if m.how == "inline":
                feats.add("inline")
            if m.dims:
                feats.add("array")
            if m.ptr:
                feats.add("pointer")
    for f in feats:
        rec.count("feature:" + f)
    try:
        ast = CAstTypes()
        ast.add_c_decl(text)
    except Exception as exc:
        rec.fail("CAstTypes.add_c_decl raises %s at %s" % (type(exc).__name__, _frame(exc)),
                 "%r" % (exc,), wit)
        return
    padded = [False]
    mngrs = {}

    def union_unrounded(agg, seen=None):
        """does @agg hold (by value) a union whose largest member is not a multiple of the
        union's alignment?  (gcc rounds the union's size up; known miasm defect class)"""
        seen = set() if seen is None else seen
        if id(agg) in seen:
            return False
        seen.add(id(agg))
        if agg.kind == "union" and agg.tag:
            gsize, galign = S[("u", hid, agg.tag)]
            biggest = max(Mm[("u", hid, agg.tag, n)][1] for n, _ in M.flat_members(agg))
            if biggest % galign:
                return True
        for m in agg.members:
            if m.base[0] == "agg" and m.ptr == 0 and union_unrounded(m.base[1], seen):
                return True
            if m.base[0] == "agg" and m.ptr == 0 and m.base[1].kind == "union" and not m.base[1].tag:
                # anonymous union: size from its members
                sub = m.base[1]
                sizes = [Mm[("u", hid, owner_of_anon(agg), n)][1] for n, _ in M.flat_members(sub)
                         if ("u", hid, owner_of_anon(agg), n) in Mm]
                aligns = [a for a in (1, 2, 4, 8, 16) if sizes and max(sizes) % a == 0]
                # conservative: flag when the biggest member is not a multiple of 16/8/4/2 (some padding may be needed)
                if sizes and max(sizes) % 2:
                    return True
        return False

    def owner_of_anon(agg):
        return agg.tag
    itag = " [names an aggregate defined inline elsewhere]" if h.inline_refs else ""
    utag_cache = {}

    def utag(agg, variant):
        if variant != "u":
            return ""
        a = agg
        while a.tag is None:
            a = owner[id(a)]
        if id(a) not in utag_cache:
            utag_cache[id(a)] = " [holds a union whose largest member is not a multiple of its alignment]" \
                if union_unrounded(a) else ""
        return utag_cache[id(a)]
    if h.inline_refs:
        rec.count("feature:inline_tag_reference")

    def compare(variant, vname, objc, agg, w):
        """@objc against gcc's numbers for @agg; recursion into inline/anonymous members"""
        if agg.tag:
            rec.count("aggregates_compared:" + vname)
            gsize, galign = S[(variant, hid, agg.tag)]
            if objc.size != gsize or objc.align != galign:
                what = []
                if objc.size != gsize:
                    what.append("size")
                if objc.align != galign:
                    what.append("alignment")
                rec.fail("%s %s differs from gcc (%s)%s%s" % (agg.kind, "/".join(what), vname, itag, utag(agg, variant)),
                         "%s: miasm size %d align %d, gcc size %d align %d" % (
                             agg.ref(), objc.size, objc.align, gsize, galign), w)
        if not isinstance(objc, (ObjCStruct, ObjCUnion)):
            rec.fail("aggregate is not an ObjCStruct/ObjCUnion (%s)%s" % (vname, itag),
                     "%s gives %r" % (agg.ref() if agg.tag else "anonymous", objc), w)
            return
        fields = [(n, o, off, sz) for n, o, off, sz in objc.fields if not n.startswith("__PAD__")]
        if len(fields) != len(agg.members):
            rec.fail("member list differs from the declaration (%s)%s" % (vname, itag),
                     "%s: miasm %s, declared %s" % (agg.ref() if agg.tag else "anonymous",
                                                    [f[0] for f in fields], [m.name for m in agg.members]), w)
            return
        prev_end = 0
        for (name, fobjc, off, size), m in zip(fields, agg.members):
            if m.how == "anon":
                compare_anon(variant, vname, fobjc, m.base[1], off, agg, w)
                continue
            if name != m.name:
                rec.fail("member name differs from the declaration (%s)" % vname, "%s vs %s" % (name, m.name), w)
                return
            goff, gsz = Mm[(variant, hid, owner_tag(agg), name)] if owner_tag(agg) else (None, None)
            if goff is not None:
                rec.count("members_compared")
                if variant == "u" and goff > prev_end:
                    padded[0] = True
                prev_end = max(prev_end, goff + gsz)
                if off + agg_base.get(id(agg), 0) != goff:
                    rec.fail("member offset differs from gcc (%s)%s%s" % (vname, itag, utag(agg, variant)),
                             "%s.%s: miasm %d, gcc %d" % (owner_tag(agg), name, off + agg_base.get(id(agg), 0), goff), w)
                elif fobjc.size != gsz or size != gsz:
                    rec.fail("member size differs from gcc (%s)%s%s" % (vname, itag, utag(agg, variant)),
                             "%s.%s: miasm %d/%d, gcc %d" % (owner_tag(agg), name, fobjc.size, size, gsz), w)
            if m.how == "inline":
                sub = fobjc
                for _ in m.dims:
                    sub = getattr(sub, "objtype", sub)
                compare(variant, vname, sub, m.base[1], w)

    agg_base = {}       # anonymous aggregate -> offset in its tagged owner
    owner = {}

    def owner_tag(agg):
        a = agg
        while a.tag is None:
            a = owner[id(a)]
        return a.tag

    def compare_anon(variant, vname, fobjc, sub, off, parent, w):
        owner[id(sub)] = parent
        agg_base[id(sub)] = agg_base.get(id(parent), 0) + off
        compare(variant, vname, fobjc, sub, w)

    for variant, cls in (("u", CTypesManagerNotPacked), ("p", CTypesManagerPacked)):
        vname = "notpacked" if variant == "u" else "packed"
        mngr = cls(ast, CTypeAMD64_unk())
        mngrs[variant] = mngr
        for agg in h.aggs:
            if not agg.toplevel:
                continue
            cty = CTypeStruct(agg.tag) if agg.kind == "struct" else CTypeUnion(agg.tag)
            w = dict(wit, aggregate=agg.ref(), manager=cls.__name__)
            try:
                objc = mngr.get_objc(cty)
            except Exception as exc:
                rec.fail("get_objc raises %s at %s (%s)%s" % (type(exc).__name__, _frame(exc), vname, itag),
                         "%r for %s" % (exc, agg.ref()), w)
                continue
            try:
                compare(variant, vname, objc, agg, w)
            except KeyError as exc:
                raise
        # an aggregate defined inline must stay known by its tag (C: the tag has file scope)
        for agg in h.aggs:
            if agg.toplevel or not agg.tag:
                continue
            cty = CTypeStruct(agg.tag) if agg.kind == "struct" else CTypeUnion(agg.tag)
            rec.count("inline_tags_looked_up")
            try:
                objc = mngr.get_objc(cty)
                gsize, galign = S[(variant, hid, agg.tag)]
                if objc.size != gsize:
                    rec.fail("aggregate defined inline inside another is not known by its tag afterwards",
                             "%s (%s): get_objc gives size %d, gcc %d" % (agg.ref(), vname, objc.size, gsize),
                             dict(wit, aggregate=agg.ref()))
            except Exception as exc:
                rec.fail("aggregate defined inline inside another is not known by its tag afterwards",
                         "%s (%s): get_objc raises %r" % (agg.ref(), vname, exc), dict(wit, aggregate=agg.ref()))
    if padded[0]:
        rec.count("feature:padding_needed")
    accesses(rec, M, hid, gen, mngrs["u"], S, Mm, A, wit)


def accesses(rec, M, hid, gen, mngr, S, Mm, A, wit):
    from miasm.core.ctypesmngr import CTypeStruct, CTypePtr
    from miasm.core.objc import CHandler
    from miasm.expression.expression import ExprId, ExprInt, ExprMem
    from miasm.expression.simplifications import expr_simp
    h = gen.h
    ptr = ExprId("ptr", 64)
    handlers = {}
    for ci, ch in enumerate(h.chains):
        rec.ev()
        rec.distinct(hid + ch.c)
        root = ch.root
        feats = sorted(ch.features - {"unary deref"})
        primary = None
        for f in ("(*p).m on a struct pointer", "p[i].m on a struct pointer", "anonymous member",
                  "element of an array of unions", "& of an array element"):
            if f in ch.features:
                primary = f
                break
        ftag = (" [%s]" % primary) if primary else ""
        w = dict(wit, access=ch.c, root=root.ref(), features=sorted(ch.features))
        if root.tag not in handlers:
            try:
                pt = mngr.get_objc(CTypePtr(CTypeStruct(root.tag)))
            except Exception as exc:
                rec.fail("get_objc raises %s at %s (pointer to struct)" % (type(exc).__name__, _frame(exc)),
                         repr(exc), w)
                continue
            handlers[root.tag] = CHandler(mngr, expr_types={ptr: (pt,)}, C_types={"ptr": pt})
        hd = handlers[root.tag]
        rec.count("access:generated")
        for f in feats:
            rec.count("access_feature:" + f)
        # expected address arithmetic from gcc's numbers
        base = ptr
        addr = None
        size = None
        for si, seg in enumerate(ch.segments):
            off, sz, pointee = A[(hid, ci, si)]
            addr = base + ExprInt(off, 64)
            size = sz
            if seg["then"] is None:
                break
            if seg["then"][0] == "deref":
                base = ExprMem(addr, 64)
            else:
                addr = ExprMem(addr, 64) + ExprInt(seg["then"][1] * pointee, 64)
                size = pointee
        fbase, fptr, fdims = ch.final
        if ch.addr_of or fdims:
            want = addr
        else:
            want = ExprMem(addr, size * 8)
        want = expr_simp(want)
        def afail(key, what):
            if h.inline_refs:
                rec.fail("access in a header that names an aggregate defined inline elsewhere",
                         "%s: %s" % (key, what), w)
            elif primary:
                rec.fail("access form not handled: %s" % primary, "%s: %s" % (key, what), w)
            else:
                rec.fail(key, what, w)
        try:
            got, ctype = hd.c_to_expr_and_type(ch.c)
        except Exception as exc:
            afail("c_to_expr raises %s at %s" % (type(exc).__name__, _frame(exc)),
                  "%r for %s" % (exc, ch.c))
            continue
        try:
            gots = expr_simp(got)
        except Exception as exc:
            afail("c_to_expr gives an expression expr_simp rejects (%s)" % type(exc).__name__,
                  "%s: %s: %r" % (ch.c, got, exc))
            continue
        rec.count("access:c_to_expr_compared")
        if gots != want:
            afail("c_to_expr differs from gcc's address arithmetic",
                  "%s: miasm %s, expected %s" % (ch.c, gots, want))
            continue
        if not (ch.addr_of or fdims) and ctype.size != size:
            afail("c_to_type size differs from gcc",
                  "%s: type %s size %d, gcc %d" % (ch.c, ctype, ctype.size, size))
            continue
        # and back
        try:
            back = hd.expr_to_c_and_types(gots)
        except Exception as exc:
            afail("expr_to_c raises %s at %s" % (type(exc).__name__, _frame(exc)),
                  "%r for %s (from %s)" % (exc, gots, ch.c))
            continue
        ok = False
        same_expr = []
        for c2, t2 in back:
            try:
                e2 = expr_simp(hd.c_to_expr(c2))
            except Exception:
                continue
            if e2 == gots:
                same_expr.append((c2, t2))
                if t2 == ctype:
                    ok = True
        if ok:
            rec.count("access:roundtrip_ok")
            continue
        kind = "array" if fdims else ("address" if ch.addr_of else "value")
        what = "%s -> %s (type %s) -> %s" % (ch.c, gots, ctype, [(c2, str(t2)) for c2, t2 in back])
        if same_expr and kind != "value":
            # the address coincides with the start of an enclosing object (first member, element
            # 0): only that object is reported, with its own type
            afail("round trip reports only the enclosing object that starts at the same address (%s valued)" % kind,
                  what)
        else:
            afail("round trip loses the access (%s valued)" % kind, what)
