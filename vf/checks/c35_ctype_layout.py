"""C35 C type layout matches the platform ABI (x86-64 System V via gcc).

layout   random headers (nested/inline/anonymous structs and unions, arrays with constant
         expressions, every leaf type of CTypeAMD64_unk, pointers, function pointers, enums,
         typedefs) are parsed by CAstTypes; for every tagged aggregate the ObjC of
         CTypesManagerNotPacked must have gcc's sizeof/_Alignof and every member gcc's
         offsetof/sizeof; CTypesManagerPacked must equal gcc with __attribute__((packed)) on
         every aggregate.  One gcc probe program per shard prints all numbers.
access   random member accesses from 'ptr' (struct root *): c_to_expr must be the address
         arithmetic computed from gcc's offsetof (ExprMem of the member's size for scalars and
         pointers, the address for arrays and '&'), and expr_to_c of that expression must
         contain an access of the same type that converts back to the same expression.
"""
import os
import subprocess
import traceback

from vf import common

CHECK = dict(
    id="C35", level="exploration",
    rule=("random C headers: 2-5 top-level struct/union definitions with 1-6 members each drawn "
          "from the 25 integer/floating spellings of CTypeAMD64_unk, pointers (to scalars, void, "
          "structs incl. self), function pointers, enums, typedefs (array, pointer, aggregate), "
          "arrays of 1-3 dimensions with constant expressions and sizeof, nested tagged inline "
          "aggregates and anonymous struct/union members (depth <= 2); per header up to 10 random "
          "accesses (->, ., [i], *, &, through pointer members; a fraction with the forms known to "
          "be fragile: anonymous members, (*p).m, p[i].m, & of an element); distinct = distinct "
          "header text / access string; non-trivial = all"),
    assumptions=["gcc on this host implements the x86-64 System V layout and its packed variant",
                 "struct-valued accesses are represented by their address (type T* on the way "
                 "back) and are not part of the round-trip comparison",
                 "bit-fields and flexible array members are outside what the manager supports"],
    timeout={"quick": 900, "thorough": 3400},
    exhaustive={"quick": False, "thorough": False},
    technique="differential: gcc sizeof/_Alignof/offsetof probe vs CTypesManager; round trip monitor",
)


def shards(tier, seed, scale):
    per = 36 if tier == "quick" else 1500
    return common.mk_shards(16, seed, tier, per_shard=per, scale=scale)


def floors(tier, counters, evaluations):
    miss = []
    h = counters.get("headers", 0)
    if h == 0:
        return ["no header"]
    if counters.get("gcc_runs", 0) == 0:
        miss.append("gcc never ran")
    for k, n in (("aggregates_compared:notpacked", 3 * h), ("aggregates_compared:packed", 3 * h),
                 ("members_compared", 10 * h), ("access:c_to_expr_compared", 2 * h),
                 ("access:roundtrip_ok", 2 * h), ("feature:union", h // 2), ("feature:anonymous", h // 3),
                 ("feature:inline", h // 2), ("feature:array", (4 * h) // 5), ("feature:pointer", (4 * h) // 5),
                 ("feature:padding_needed", h // 2)):
        if counters.get(k, 0) < n:
            miss.append("%s=%d < %d" % (k, counters.get(k, 0), n))
    return miss


def _frame(exc):
    tb = traceback.extract_tb(exc.__traceback__)
    for fr in reversed(tb):
        if "/miasm/" in fr.filename:
            return "%s:%s" % (fr.filename.split("/")[-1], fr.name)
    return "?"


def run_shard(params, rec):
    common.quiet()
    from vf.models import c35_cdecl as M
    rng = common.rng_for(params)
    scratch = os.environ.get("VERIF_SCRATCH_DIR") or os.environ.get("TMPDIR") or "/tmp"
    work = os.path.join(scratch, "c35_%d" % params.get("shard", 0))
    os.makedirs(work, exist_ok=True)
    batch = 12
    done = 0
    while done < params["n"]:
        nb = min(batch, params["n"] - done)
        items = []
        for i in range(nb):
            hid = "h%d" % (done + i)
            gen = M.Gen(rng, hid + "_")
            h = gen.header()
            roots = [a for a in h.aggs if a.kind == "struct" and a.complete and a.toplevel]
            tries = 0
            while roots and len(h.chains) < 10 and tries < 40:
                tries += 1
                root = rng.choice(roots)
                ch = M.gen_chain(rng, root, rng.random() < 0.25)
                if ch is not None:
                    ch.root = root
                    h.chains.append(ch)
            items.append((hid, gen))
        done += nb
        src = M.probe_source(items)
        cfile = os.path.join(work, "probe.c")
        exe = os.path.join(work, "probe")
        with open(cfile, "w") as fd:
            fd.write(src)
        env = dict(os.environ)
        env.pop("LD_PRELOAD", None)
        r = subprocess.run(["/usr/bin/gcc", "-w", "-O0", cfile, "-o", exe], stdout=subprocess.PIPE,
                           stderr=subprocess.STDOUT, env=env)
        if r.returncode != 0:
            # the generator produced invalid C: a harness defect, not a verdict
            raise RuntimeError("gcc rejects the generated header: %s" % r.stdout.decode()[-1500:])
        out = subprocess.run([exe], stdout=subprocess.PIPE, env=env).stdout.decode()
        rec.count("gcc_runs")
        S, Mm, A = M.parse_probe(out)
        for hid, gen in items:
            one_header(rec, M, hid, gen, S, Mm, A)


def one_header(rec, M, hid, gen, S, Mm, A):
    from miasm.core.ctypesmngr import CAstTypes, CTypeStruct, CTypeUnion, CTypePtr
    from miasm.arch.x86.ctype import CTypeAMD64_unk
    from miasm.core.objc import CTypesManagerNotPacked, CTypesManagerPacked, ObjCStruct, ObjCUnion
    h = gen.h
    text = gen.text(False)
    rec.count("headers")
    rec.ev()
    rec.distinct(text)
    wit = dict(header=text)
    if len(rec.samples) < 2:
        rec.sample(dict(header=text[:1500]))
    feats = set()
    for agg in h.aggs:
        if agg.kind == "union":
            feats.add("union")
        for m in agg.members:
            if m.how == "anon":
                feats.add("anonymous")
            if m.how == "inline":
                feats.add("inline")
            if m.dims:
                feats.add("array")
            if m.ptr:
                feats.add("pointer")
    for f in feats:
        rec.count("feature:" + f)
    try:
        ast = CAstTypes()
        ast.add_c_decl(text)
    except Exception as exc:
        rec.fail("CAstTypes.add_c_decl raises %s at %s" % (type(exc).__name__, _frame(exc)),
                 "%r" % (exc,), wit)
        return
    padded = [False]
    mngrs = {}
    layout_diff = [False]
    if h.inline_refs:
        rec.count("feature:inline_tag_reference")

    def leaf(m):
        # element size/alignment of a member that is not an aggregate by value, from gcc
        owner_tag = member_owner[id(m)]
        off, size, align = Mm[("u", hid, owner_tag, m.name)]
        n = 1
        for d in m.dims:
            n *= d
        return size // n, align

    member_owner = {}

    def index_members(agg, tag):
        for m in agg.members:
            if m.how == "anon":
                index_members(m.base[1], tag)
            else:
                member_owner[id(m)] = tag
                if m.how == "inline":
                    index_members(m.base[1], m.base[1].tag)
    for agg in h.aggs:
        if agg.toplevel:
            index_members(agg, agg.tag)

    def miasm_layout(objc):
        """(size, align, {flat member name: offset}) of an ObjCStruct/ObjCUnion"""
        offs = {}

        def walk(o, base):
            for name, fobjc, off, size in o.fields:
                if name.startswith("__PAD__"):
                    continue
                if ast.is_anonymous_name(name) and isinstance(fobjc, (ObjCStruct, ObjCUnion)):
                    walk(fobjc, base + off)
                else:
                    offs[name] = base + off
        walk(objc, 0)
        return objc.size, objc.align, offs

    def compare(variant, vname, objc, agg, w):
        packed = (variant == "p")
        rec.count("aggregates_compared:" + vname)
        if not isinstance(objc, (ObjCStruct, ObjCUnion)):
            rec.fail("aggregate is not an ObjCStruct/ObjCUnion (%s)" % vname, "%s gives %r" % (agg.ref(), objc), w)
            return
        got = miasm_layout(objc)
        names = [n for n, _ in M.flat_members(agg)]
        gcc = (S[(variant, hid, agg.tag)][0], S[(variant, hid, agg.tag)][1],
               {n: Mm[(variant, hid, agg.tag, n)][0] for n in names})
        ref = M.model_layout(agg, leaf, packed=packed)
        if ref != gcc:
            raise RuntimeError("reference layout model disagrees with gcc for %s (%s): %r vs %r\n%s" % (
                agg.ref(), vname, ref, gcc, text))
        rec.count("members_compared", len(names))
        prev_end = 0
        for n in sorted(names, key=lambda x: gcc[2][x]):
            if gcc[2][n] > prev_end and variant == "u":
                padded[0] = True
            prev_end = max(prev_end, gcc[2][n] + Mm[(variant, hid, agg.tag, n)][1])
        if got != gcc:
            layout_diff[0] = True
            mech = "unexplained"
            cands = [("aggregate defined inline elsewhere resolved as an empty struct",
                      dict(inline_ref_empty=True))]
            if not packed:
                cands = [("union size not rounded up to its alignment", dict(round_unions=False))] + cands + \
                    [("union size not rounded up to its alignment + aggregate defined inline elsewhere "
                      "resolved as an empty struct", dict(round_unions=False, inline_ref_empty=True))]
            for name, kw in cands:
                if M.model_layout(agg, leaf, packed=packed, **kw) == got:
                    mech = name
                    break
            diffs = []
            if got[0] != gcc[0]:
                diffs.append("size %d vs %d" % (got[0], gcc[0]))
            if got[1] != gcc[1]:
                diffs.append("alignment %d vs %d" % (got[1], gcc[1]))
            if set(got[2]) != set(gcc[2]):
                diffs.append("members %s vs %s" % (sorted(got[2]), sorted(gcc[2])))
            else:
                diffs += ["%s at %d vs %d" % (n, got[2][n], gcc[2][n]) for n in names if got[2][n] != gcc[2][n]][:4]
            rec.fail("layout differs from gcc (%s) [%s]" % (vname, mech),
                     "%s: miasm vs gcc: %s" % (agg.ref(), "; ".join(diffs)), w)
        # aggregates defined inline: compare the member's own ObjC
        fields = {}

        def collect(o):
            for name, fobjc, off, size in o.fields:
                if ast.is_anonymous_name(name) and isinstance(fobjc, (ObjCStruct, ObjCUnion)):
                    collect(fobjc)
                else:
                    fields[name] = fobjc
        collect(objc)
        for n, m in M.flat_members(agg):
            if m.how == "inline" and n in fields:
                sub = fields[n]
                for _ in m.dims:
                    sub = getattr(sub, "objtype", sub)
                compare(variant, vname, sub, m.base[1], dict(w, aggregate=m.base[1].ref()))

    for variant, cls in (("u", CTypesManagerNotPacked), ("p", CTypesManagerPacked)):
        vname = "notpacked" if variant == "u" else "packed"
        mngr = cls(ast, CTypeAMD64_unk())
        mngrs[variant] = mngr
        for agg in h.aggs:
            if not agg.toplevel:
                continue
            cty = CTypeStruct(agg.tag) if agg.kind == "struct" else CTypeUnion(agg.tag)
            w = dict(wit, aggregate=agg.ref(), manager=cls.__name__)
            try:
                objc = mngr.get_objc(cty)
            except Exception as exc:
                rec.fail("get_objc raises %s at %s (%s)" % (type(exc).__name__, _frame(exc), vname),
                         "%r for %s" % (exc, agg.ref()), w)
                continue
            compare(variant, vname, objc, agg, w)
        if variant == "p":
            continue
        # an aggregate defined inline must stay known by its tag (C: the tag has file scope)
        for agg in h.aggs:
            if agg.toplevel or not agg.tag:
                continue
            cty = CTypeStruct(agg.tag) if agg.kind == "struct" else CTypeUnion(agg.tag)
            rec.count("inline_tags_looked_up")
            try:
                objc = mngr.get_objc(cty)
                gsize, galign = S[(variant, hid, agg.tag)]
                if objc.size != gsize:
                    rec.fail("aggregate defined inline inside another is not known by its tag afterwards",
                             "%s: get_objc gives size %d, gcc %d" % (agg.ref(), objc.size, gsize),
                             dict(wit, aggregate=agg.ref()))
            except Exception as exc:
                rec.fail("aggregate defined inline inside another is not known by its tag afterwards",
                         "%s: get_objc raises %r" % (agg.ref(), exc), dict(wit, aggregate=agg.ref()))
    if padded[0]:
        rec.count("feature:padding_needed")
    accesses(rec, M, hid, gen, mngrs["u"], S, Mm, A, wit, layout_diff[0])


def accesses(rec, M, hid, gen, mngr, S, Mm, A, wit, layout_diff):
    from miasm.core.ctypesmngr import CTypeStruct, CTypePtr
    from miasm.core.objc import CHandler
    from miasm.expression.expression import ExprId, ExprInt, ExprMem
    from miasm.expression.simplifications import expr_simp
    h = gen.h
    ptr = ExprId("ptr", 64)
    handlers = {}
    for ci, ch in enumerate(h.chains):
        rec.ev()
        rec.distinct(hid + ch.c)
        root = ch.root
        feats = sorted(ch.features - {"unary deref"})
        primary = None
        for f in ("(*p).m on a struct pointer", "p[i].m on a struct pointer", "anonymous member",
                  "element of an array of unions", "-> on a pointer to union", "& of an array element"):
            if f in ch.features:
                primary = f
                break
        ftag = (" [%s]" % primary) if primary else ""
        w = dict(wit, access=ch.c, root=root.ref(), features=sorted(ch.features))
        if root.tag not in handlers:
            try:
                pt = mngr.get_objc(CTypePtr(CTypeStruct(root.tag)))
            except Exception as exc:
                rec.fail("get_objc raises %s at %s (pointer to struct)" % (type(exc).__name__, _frame(exc)),
                         repr(exc), w)
                continue
            handlers[root.tag] = CHandler(mngr, expr_types={ptr: (pt,)}, C_types={"ptr": pt})
        hd = handlers[root.tag]
        rec.count("access:generated")
        for f in feats:
            rec.count("access_feature:" + f)
        # expected address arithmetic from gcc's numbers
        base = ptr
        addr = None
        size = None
        for si, seg in enumerate(ch.segments):
            off, sz, pointee = A[(hid, ci, si)]
            addr = base + ExprInt(off, 64)
            size = sz
            if seg["then"] is None:
                break
            if seg["then"][0] == "deref":
                base = ExprMem(addr, 64)
            else:
                addr = ExprMem(addr, 64) + ExprInt(seg["then"][1] * pointee, 64)
                size = pointee
        fbase, fptr, fdims = ch.final
        if ch.addr_of or fdims:
            want = addr
        else:
            want = ExprMem(addr, size * 8)
        want = expr_simp(want)
        def afail(key, what):
            if primary:
                rec.fail("access form not handled: %s" % primary, "%s: %s" % (key, what), w)
            elif h.inline_refs and layout_diff:
                rec.fail("access in a header that names an aggregate defined inline elsewhere",
                         "%s: %s" % (key, what), w)
            elif layout_diff and key.startswith("c_to_expr differs"):
                rec.fail("access offset follows a layout that differs from gcc (reported per aggregate)",
                         "%s: %s" % (key, what), w)
            else:
                rec.fail(key, what, w)
        try:
            got, ctype = hd.c_to_expr_and_type(ch.c)
        except Exception as exc:
            afail("c_to_expr raises %s at %s" % (type(exc).__name__, _frame(exc)),
                  "%r for %s" % (exc, ch.c))
            continue
        try:
            gots = expr_simp(got)
        except Exception as exc:
            afail("c_to_expr gives an expression expr_simp rejects (%s)" % type(exc).__name__,
                  "%s: %s: %r" % (ch.c, got, exc))
            continue
        rec.count("access:c_to_expr_compared")
        if gots != want:
            afail("c_to_expr differs from gcc's address arithmetic",
                  "%s: miasm %s, expected %s" % (ch.c, gots, want))
            continue
        if not (ch.addr_of or fdims) and ctype.size != size:
            afail("c_to_type size differs from gcc",
                  "%s: type %s size %d, gcc %d" % (ch.c, ctype, ctype.size, size))
            continue
        # and back
        try:
            back = hd.expr_to_c_and_types(gots)
        except Exception as exc:
            cls = ""
            if isinstance(exc, RuntimeError) and "Missing reduction rule" in str(exc) and \
                    any("[0]" in seg["designator"] for seg in ch.segments):
                # no access at all is found for a read that goes through element 0 of an array
                # of aggregates/arrays (its address is also the array's and the container's)
                cls = " [Missing reduction rule, through element 0 of an array]"
            afail("expr_to_c raises %s at %s%s" % (type(exc).__name__, _frame(exc), cls),
                  "%r for %s (from %s)" % (exc, gots, ch.c))
            continue
        ok = False
        same_expr = []
        for c2, t2 in back:
            try:
                e2 = expr_simp(hd.c_to_expr(c2))
            except Exception:
                continue
            if e2 == gots:
                same_expr.append((c2, t2))
                if t2 == ctype:
                    ok = True
        if ok:
            rec.count("access:roundtrip_ok")
            continue
        kind = "array" if fdims else ("address" if ch.addr_of else "value")
        what = "%s -> %s (type %s) -> %s" % (ch.c, gots, ctype, [(c2, str(t2)) for c2, t2 in back])
        if same_expr:
            # the address coincides with the start of an enclosing object (first member, element
            # 0): only that object is reported, with its own type
            afail("round trip reports only the enclosing object that starts at the same address (%s valued)" % kind,
                  what)
        else:
            afail("round trip loses the access (%s valued)" % kind, what)
