"""C45 imported functions get distinct, stable stub addresses.

Monitored: miasm.jitter.loader.utils.libimp (lib_get_add_base / lib_get_add_func and the
reverse tables fad2info, fad2cname, cname2addr).  Oracle: a dictionary model kept by the
harness: (library, function) -> first address returned; every later request must return the
same address (stability), a new pair must receive an address no other pair owns
(injectivity), and at the end of the history every address must map back to its pair.
"""
from vf import common

CHECK = dict(
    id="C45", level="exploration",
    rule=("random registration histories on a fresh libimp: 1-6 libraries drawn from a small pool "
          "(case variants, missing extension, surrounding blanks, names sharing the part before the first dot), "
          "function names shared between libraries in half of the histories, per library a pool of names "
          "and ordinals of size 1..2000 (sizes 200..2000 over-represented so that a library "
          "needs more than one 0x1000 window), interleaved lib_get_add_base / lib_get_add_func "
          "calls with many repeated requests and optional dst_ad; distinct = distinct "
          "(number of libraries, bucketed pool sizes, first 6 operation kinds); non-trivial = "
          "history with at least one repeated request and two functions"),
    assumptions=["library identity is the lower-cased, blank-stripped module name, '.dll' "
                 "appended when the name has no extension (Windows loader convention, documented "
                 "by lib_get_add_base)",
                 "cname2addr is only required to be an inverse for canonical names that are "
                 "unambiguous in the history (two libraries 'x.so' and 'x.dll' share 'x_f')"],
    timeout={"quick": 600, "thorough": 3000},
    exhaustive={"quick": False, "thorough": False},
    technique="runtime monitoring: dictionary model of the import table, checked after every call",
)

LIB_POOL = ["kernel32.dll", "KERNEL32.dll", "Kernel32.DLL", "kernel32", " kernel32.dll ",
            "user32.dll", "USER32", "ntdll.dll", "advapi32.dll", "msvcrt.dll", "ws2_32.dll",
            "libc.so.6", "libm.so.6", "libfoo.so", "a.dll", "b.dll", "ole32", "shell32.DLL",
            # distinct libraries whose names share the part before the first dot, or differ by where an
            # underscore falls between library and function name
            "libc.so", "winspool.drv", "winspool.dll", "api_ms.dll", "api.dll", "a.b.dll"]
FUNC_STEMS = ["CreateFile", "Read", "Write", "Close", "Get", "Set", "Reg", "Rtl", "Nt", "Zw", "str",
              "mem", "f", "_", "?x@@", "Wsa"]


def shards(tier, seed, scale):
    per = 150 if tier == "quick" else 5000
    return common.mk_shards(16, seed, tier, per, scale, salt="c45")


def canon_lib(name):
    n = name.lower().strip(' ')
    if "." not in n:
        n += ".dll"
    return n


def model_cname(libname, func):
    dn = libname.split('.')[0]
    if isinstance(func, int):
        return (str(dn), func)
    return "%s_%s" % (dn, func)


def pool_size(rng):
    r = rng.random()
    if r < 0.45:
        return rng.randint(1, 40)
    if r < 0.70:
        return rng.randint(41, 254)
    if r < 0.90:
        return rng.choice([255, 256, 257, 258, 300, 400, 511, 512, 513])
    return rng.randint(514, 2000)


def mk_funcs(rng, n):
    out = []
    seen = set()
    ord_ratio = rng.choice([0.0, 0.1, 0.5, 1.0])
    while len(out) < n:
        if rng.random() < ord_ratio:
            f = rng.randint(0, 0xFFFF) if rng.random() < 0.8 else rng.randint(0, 40)
        else:
            f = rng.choice(FUNC_STEMS) + rng.choice(["A", "W", "Ex", "", "_s"]) + \
                (str(rng.randint(0, 4000)) if rng.random() < 0.9 else "")
        if f in seen:
            continue
        seen.add(f)
        out.append(f)
    return out


def bucket(n):
    for b in (1, 8, 40, 254, 256, 512, 1024):
        if n <= b:
            return b
    return 2048


def run_history(rng, rec, libimp, hist_no):
    nlib = rng.choice([1, 2, 2, 3, 3, 4, 5, 6])
    lib_names = rng.sample(LIB_POOL, nlib)
    base0 = rng.choice([0x71111000, 0x71111000, 0x10000000, 0x7FFF0000, 0x100000000, 0x1000, 0x20000800])
    try:
        imp = libimp(base0) if rng.random() < 0.7 else libimp()
    except Exception as exc:
        rec.fail("libimp() raises %s" % type(exc).__name__, repr(exc), dict(base=base0))
        return
    pools = {}
    for ln in lib_names:
        cl = canon_lib(ln)
        if cl not in pools:
            pools[cl] = mk_funcs(rng, pool_size(rng))
            if pools and rng.random() < 0.5:
                # the same function names / ordinals imported from several libraries (memcpy from msvcrt
                # and ntdll): distinct pairs all the same
                other = pools[rng.choice(sorted(pools))]
                shared = other[:rng.randint(1, min(len(other), 30))]
                shared = shared + ["ms_" + f for f in shared[:3] if isinstance(f, str)] + \
                    [f[3:] for f in shared if isinstance(f, str) and f.startswith("ms_")][:3]
                pools[cl] = list(dict.fromkeys(shared + pools[cl]))
                rec.count("histories_with_shared_function_names")
    # the order in which (lib, func) requests are made
    reqs = []
    for ln in lib_names:
        cl = canon_lib(ln)
        for f in pools[cl]:
            reqs.append((ln, f))
    mode = rng.choice(["by_lib", "shuffled", "round_robin"])
    if mode == "shuffled":
        rng.shuffle(reqs)
    elif mode == "round_robin":
        reqs.sort(key=lambda lf: pools[canon_lib(lf[0])].index(lf[1]))
    # insert repeated requests
    nrep = rng.randint(1, max(2, len(reqs) // 3))
    for _ in range(nrep):
        pos = rng.randrange(1, len(reqs) + 1)
        prev = reqs[rng.randrange(0, pos)]
        # repeat through another spelling of the same library now and then
        if rng.random() < 0.3:
            alts = [l for l in LIB_POOL if canon_lib(l) == canon_lib(prev[0])]
            prev = (rng.choice(alts), prev[1])
        reqs.insert(pos, prev)

    lib_base = {}        # canonical lib -> base
    base_owner = {}      # base -> canonical lib
    model = {}           # (canonical lib, func) -> address
    owner = {}           # address -> (canonical lib, func)
    index = {}           # (canonical lib, func) -> registration index inside the library
    per_lib_count = {}
    collided = set()
    ops = []
    repeats = 0
    witness_base = dict(base=hex(base0), libs=lib_names, sizes={k: len(v) for k, v in pools.items()},
                        order=mode)

    for ln, f in reqs:
        cl = canon_lib(ln)
        rec.ev()
        try:
            base = imp.lib_get_add_base(ln)
        except Exception as exc:
            rec.fail("lib_get_add_base raises %s" % type(exc).__name__, repr(exc),
                     dict(witness_base, lib=ln))
            return
        rec.count("op:lib_get_add_base")
        if cl in lib_base:
            if base != lib_base[cl]:
                rec.fail("library base not stable", "%r: base %#x then %#x" % (ln, lib_base[cl], base),
                         dict(witness_base, lib=ln))
                return
        else:
            if base in base_owner:
                rec.fail("two libraries share a base", "%r and %r both at %#x" % (
                    base_owner[base], cl, base), dict(witness_base, lib=ln))
                return
            lib_base[cl] = base
            base_owner[base] = cl
            rec.count("libs_created")
        dst = None
        if rng.random() < 0.3:
            dst = rng.randrange(0x400000, 0x500000, 4)
        try:
            ad = imp.lib_get_add_func(base, f, dst)
        except Exception as exc:
            rec.fail("lib_get_add_func raises %s" % type(exc).__name__, repr(exc),
                     dict(witness_base, lib=ln, func=f))
            return
        rec.count("op:lib_get_add_func")
        rec.count("func:ordinal" if isinstance(f, int) else "func:name")
        if len(ops) < 6:
            ops.append("o" if isinstance(f, int) else "n")
        key = (cl, f)
        if key in model:
            repeats += 1
            rec.count("repeated_request")
            if ad != model[key]:
                rec.fail("stub address not stable",
                         "%s!%r: %#x at first, %#x on a later request" % (cl, f, model[key], ad),
                         dict(witness_base, lib=ln, func=f, first=hex(model[key]), later=hex(ad)))
            continue
        idx = per_lib_count.get(cl, 0)
        per_lib_count[cl] = idx + 1
        index[key] = idx
        model[key] = ad
        rec.count("new_function")
        if ad in owner:
            other = owner[ad]
            collided.add(ad)
            overflow = idx >= 255 or index[other] >= 255
            same = other[0] == cl
            k = "stub address collision: %s, %s" % (
                "same library" if same else "different libraries",
                "a library with more than 255 functions left its 0x1000 window" if overflow
                else "fewer than 256 functions per library")
            rec.fail(k, "%s!%r (function #%d of its library) and %s!%r (function #%d) both get %#x" % (
                other[0], other[1], index[other], cl, f, idx, ad),
                dict(witness_base, a=list(map(str, other)), b=[cl, str(f)], addr=hex(ad),
                     index_a=index[other], index_b=idx))
        else:
            owner[ad] = key
        if ad in base_owner:
            rec.count("stub_equals_a_library_base")

    # ---- reverse maps at the end of the history
    cnames = {}
    for (cl, f), ad in model.items():
        cnames.setdefault(repr(model_cname(cl, f)), []).append((cl, f))
    try:
        for (cl, f), ad in model.items():
            rec.count("reverse_checked")
            if ad in collided:
                # the address is owned by two pairs: the collision itself is already reported,
                # the reverse tables cannot be right for both
                rec.count("reverse_skipped_shared_address")
                continue
            shared = ""
            info = imp.fad2info.get(ad)
            if info != (lib_base[cl], f):
                rec.fail("fad2info does not map the stub back" + shared,
                         "fad2info[%#x] = %r, assigned to (%#x, %r)" % (ad, info, lib_base[cl], f),
                         dict(witness_base, lib=cl, func=f, addr=hex(ad)))
            want_c = model_cname(cl, f)
            if imp.fad2cname.get(ad) != want_c:
                rec.fail("fad2cname does not map the stub back" + shared,
                         "fad2cname[%#x] = %r, want %r" % (ad, imp.fad2cname.get(ad), want_c),
                         dict(witness_base, lib=cl, func=f, addr=hex(ad)))
            if len(cnames[repr(want_c)]) == 1:
                if imp.cname2addr.get(want_c) != ad:
                    rec.fail("cname2addr is not the inverse of fad2cname" + shared,
                             "cname2addr[%r] = %r, want %#x" % (want_c, imp.cname2addr.get(want_c), ad),
                             dict(witness_base, lib=cl, func=f, addr=hex(ad)))
            else:
                rec.count("ambiguous_cname_skipped")
            if imp.name2off.get(cl) != lib_base[cl]:
                rec.fail("name2off lost a library", "name2off[%r] = %r" % (cl, imp.name2off.get(cl)),
                         dict(witness_base, lib=cl))
        extra = set(imp.fad2info) - set(model.values())
        if extra:
            rec.fail("fad2info holds addresses nobody was given",
                     "%d extra addresses, e.g. %#x" % (len(extra), sorted(extra)[0]), witness_base)
    except Exception as exc:
        rec.fail("reverse tables raise %s" % type(exc).__name__, repr(exc), witness_base)
        return
    big = [cl for cl, n in per_lib_count.items() if n > 255]
    if big:
        rec.count("history_with_lib_over_255")
        if len(lib_base) > 1:
            rec.count("history_with_lib_over_255_and_other_lib")
    if len(lib_base) > 1:
        rec.count("history_multi_lib")
    rec.count("histories")
    if repeats and len(model) >= 2:
        rec.distinct("%d/%s/%s" % (len(lib_base), sorted(bucket(n) for n in per_lib_count.values()),
                                   "".join(ops)))
    if hist_no < 2:
        rec.sample(dict(witness_base, functions=len(model), repeats=repeats,
                        first=[(k[0], str(k[1]), hex(v)) for k, v in list(model.items())[:3]]))


def run_shard(params, rec):
    common.quiet()
    from miasm.jitter.loader.utils import libimp
    rng = common.rng_for(params)
    for i in range(params["n"]):
        run_history(rng, rec, libimp, i)


def floors(tier, counters, evaluations):
    miss = []
    need = dict(histories=1500 if tier == "quick" else 50000,
                repeated_request=2000, new_function=20000, reverse_checked=20000,
                history_multi_lib=80, history_with_lib_over_255_and_other_lib=20)
    need["func:ordinal"] = 2000
    need["func:name"] = 2000
    for k, v in sorted(need.items()):
        if counters.get(k, 0) < v:
            miss.append("%s = %d < %d" % (k, counters.get(k, 0), v))
    return miss
