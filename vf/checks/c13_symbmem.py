"""C13 symbolic memory is a little-endian byte store.

Oracle: shadow model dict[(base, offset mod 2^n)] -> (value expr, byte index);
engine reads are compared semantically (refsem under random valuations)."""
from vf import common

CHECK = dict(
    id="C13", level="exploration",
    rule=("histories of 40 write/read/delete/export-import operations on the symbolic engine's memory: "
          "cells of 8..64 bits at offsets {-9..9} u {2^n-8..2^n-1} of one integer base and two symbolic "
          "bases, pointer widths 16/32/64; every read (and a full sweep at the end) is compared byte-wise "
          "with the shadow model under 3 valuations; 5% of the steps start a directed history (same value stored "
          "twice shifted by 1/2/4 bytes, bytes at the seam deleted, export/import, read back); distinct = distinct operation-kind 4-grams with "
          "overlap class"),
    assumptions=["the two symbolic bases get concrete values 2^20 apart (documented non-aliasing assumption)",
                 "stored expressions denote values over the initial state"],
    timeout={"quick": 900, "thorough": 5400},
    technique="runtime monitoring: history vs executable shadow model (byte map), semantic comparison",
)

MACH = {16: "x86_16", 32: "x86_32", 64: "x86_64"}


def shards(tier, seed, scale):
    per = 130 if tier == "quick" else 6500
    return common.mk_shards(16, seed, tier, per, scale)


def run_shard(params, rec):
    common.quiet()
    from miasm.analysis.machine import Machine
    from miasm.core.locationdb import LocationDB
    from miasm.ir.symbexec import SymbolicExecutionEngine
    from miasm.expression.expression import ExprId, ExprInt, ExprMem, ExprAssign, ExprOp, ExprCompose, ExprSlice
    from vf import refsem
    rng = common.rng_for(params)
    lifters = {}
    for ps, mname in MACH.items():
        loc_db = LocationDB()
        lifters[ps] = Machine(mname).lifter(loc_db)

    for hist_i in range(params["n"]):
        ps = rng.choice([16, 32, 32, 64, 64])
        lifter = lifters[ps]
        if lifter.addrsize != ps:
            ps = lifter.addrsize
        mask = (1 << ps) - 1
        A, B = ExprId("A", ps), ExprId("B", ps)
        vals = [ExprId("v%d_%d" % (i, s), s) for i, s in enumerate([8, 16, 32, 64, 32, 16])]
        bases = [None, A, B]
        offsets = list(range(-9, 10)) + [0, 0, 1, 2, 4]
        sb = SymbolicExecutionEngine(lifter)
        present = set()   # (base index, offset) cells written and not deleted
        ops = []
        failed = False
        # three concrete worlds: the byte-map model lives in env.mem of each
        worlds = []
        for k in range(3):
            ids = {A: ((3 << 20) + rng.choice([0, 0x1000, 5])) if ps > 16 else 0x3000,
                   B: ((9 << 20) + rng.choice([0, 0x2000, 3])) if ps > 16 else 0x9000}
            for v in vals:
                ids[v] = rng.getrandbits(v.size)
            worlds.append(refsem.Env(ids=ids, seed=hist_i * 8 + k))

        def ptr_of(bi, off):
            off &= mask
            if bi == 0:
                return ExprInt(off, ps)
            return bases[bi] + ExprInt(off, ps) if off else bases[bi]

        def value_expr(size, depth=0):
            k = rng.random()
            cands = [v for v in vals if v.size == size]
            if k < 0.45 and cands:
                return rng.choice(cands)
            if k < 0.6:
                return ExprInt(rng.getrandbits(size), size)
            if k < 0.75:
                # a value read from memory (exercises "write of the original value")
                bi = rng.choice([0, 1, 2])
                return ExprMem(ptr_of(bi, rng.choice(offsets)), size)
            if k < 0.85 and size >= 16 and depth < 2:
                h = size // 2
                return ExprCompose(value_expr(h, depth + 1), value_expr(size - h, depth + 1))
            big = [v for v in vals if v.size > size]
            if big:
                v = rng.choice(big)
                st = rng.choice([0, 8, v.size - size])
                if st + size <= v.size:
                    return ExprSlice(v, st, st + size)
            return ExprInt(rng.getrandbits(size), size)

        def concrete_addr(bi, off, env):
            base = 0 if bi == 0 else env.ids[bases[bi]]
            return (base + off) & mask

        def check_read(bi, off, size, kind):
            ptr = ptr_of(bi, off)
            try:
                got = sb.eval_expr(ExprMem(ptr, size))
            except Exception as exc:
                rec.fail("read raises %s" % type(exc).__name__, "read @%d[%s] raised %r after %s" % (
                    size, ptr, exc, ops[-6:]), dict(ops=ops, ptr_size=ps))
                return False
            rec.count("reads")
            for env in worlds:
                a = concrete_addr(bi, off, env)
                want = 0
                for i in range(size // 8):
                    want |= env.byte((a + i) & mask) << (8 * i)
                # the engine's answer is an expression over the INITIAL state
                have = refsem.evaluate(got, refsem.Env(ids=env.ids, seed=env.seed))
                if want != have:
                    over = "overlap" if any(((bi, (off + i) & mask) in present) for i in range(size // 8)) \
                        else "untouched"
                    rec.fail("read value (%s, %s)" % (kind, over),
                             "ptr_size=%d read @%d[%s] = %s evaluates to 0x%x, byte model says 0x%x" % (
                                 ps, size, ptr, common.short(got, 200), have, want),
                             dict(ops=ops, ptr_size=ps, read=str(ExprMem(ptr, size))))
                    return False
            return True

        nops = 40
        forced = []
        for step in range(nops):
            k = rng.random()
            bi = rng.choice([0, 1, 1, 2])
            off = rng.choice(offsets)
            size = rng.choice([8, 16, 32, 64])
            fval = None
            if forced:
                k, bi, off, size, fval = forced.pop(0)
            elif rng.random() < 0.05:
                # directed history: the same value stored twice, shifted by a few bytes, then some
                # bytes around the seam deleted (leaves a hole between cells that hold consecutive
                # bytes of the same value), state exported/imported, the region read back
                size = rng.choice([16, 32, 64])
                cands = [v for v in vals if v.size == size]
                v = rng.choice(cands)
                kb = rng.choice([x for x in (1, 2, 4) if x < size // 8])
                off = rng.randrange(-9, 4)
                dsz = rng.choice([x for x in (1, 2, 4) if x <= kb])
                doff = off + kb + rng.choice([0, 0, -dsz, kb - dsz])
                forced = [(0.0, bi, off + kb, size, v), (0.85, bi, doff, dsz * 8, None), (0.95, 0, 0, 8, None),
                          (0.5, bi, off, size, None), (0.5, bi, off + kb, size, None)]
                k, fval = 0.0, v
                rec.count("directed_shifted_rewrite")
            nb = size // 8
            if k < 0.45:
                val = value_expr(size) if fval is None else fval
                ptr = ptr_of(bi, off)
                partial = any(((bi, (off + i) & mask) in present) for i in range(nb)) and \
                    not all(((bi, (off + i) & mask) in present) for i in range(nb))
                wraps = (off < 0 <= off + nb - 1)
                ops.append("w @%d[%s] = %s" % (size, ptr, val))
                try:
                    sb.eval_updt_expr(ExprAssign(ExprMem(ptr, size), val))
                except Exception as exc:
                    rec.fail("write raises %s" % type(exc).__name__, "write raised %r: %s" % (exc, ops[-1]),
                             dict(ops=ops, ptr_size=ps))
                    failed = True
                    break
                for env in worlds:
                    v = refsem.evaluate(val, env)      # source read in the current concrete memory
                    a = concrete_addr(bi, off, env)
                    for i in range(nb):
                        env.mem[(a + i) & mask] = (v >> (8 * i)) & 0xff
                if any(((bi, (off + i) & mask) in present) for i in range(nb)):
                    rec.count("writes_overlap")
                for i in range(nb):
                    present.add((bi, (off + i) & mask))
                rec.count("writes")
                if partial:
                    rec.count("writes_partial_overlap")
                if any(((bi, (off + i) & mask) in present) for i in range(nb)):
                    rec.count("writes_overlap")
                if wraps:
                    rec.count("writes_wrap")
                rec.distinct(("w", size, partial, wraps, ps, bi == 0, tuple(o[0] for o in ops[-4:])))
            elif k < 0.8:
                ops.append("r @%d[%s]" % (size, ptr_of(bi, off)))
                if not check_read(bi, off, size, "read"):
                    failed = True
                    break
                rec.distinct(("r", size, ps, bi == 0, tuple(o[0] for o in ops[-4:])))
            elif k < 0.9:
                ptr = ptr_of(bi, off)
                pres = [((bi, (off + i) & mask) in present) for i in range(nb)]
                if not any(pres):
                    continue
                ops.append("d @%d[%s]" % (size, ptr))
                try:
                    try:
                        if all(pres) and rng.random() < 0.5:
                            del sb.symbols[ExprMem(ptr, size)]
                        else:
                            sb.symbols.symbols_mem.delete_partial(ExprMem(ptr, size))
                    except KeyError:
                        # the engine drops cells that were rewritten with their original
                        # content: nothing stored there any more; retry byte-wise, tolerantly
                        rec.count("delete_keyerror")
                        try:
                            sb.symbols.symbols_mem.delete_partial(ExprMem(ptr, size))
                        except KeyError:
                            pass
                except Exception as exc:
                    rec.fail("delete raises %s" % type(exc).__name__, "delete raised %r: %s" % (exc, ops[-1]),
                             dict(ops=ops, ptr_size=ps))
                    failed = True
                    break
                for env in worlds:
                    a = concrete_addr(bi, off, env)
                    for i in range(nb):
                        env.mem.pop((a + i) & mask, None)
                for i in range(nb):
                    present.discard((bi, (off + i) & mask))
                rec.count("deletes")
            else:
                ops.append("x export/import")
                try:
                    state = sb.get_state()
                    sb2 = SymbolicExecutionEngine(lifter)
                    sb2.set_state(state)
                    sb = sb2
                except Exception as exc:
                    rec.fail("export/import raises %s" % type(exc).__name__, "state copy raised %r" % (exc,),
                             dict(ops=ops, ptr_size=ps))
                    failed = True
                    break
                rec.count("export_import")
        rec.ev()
        if failed:
            continue
        # final sweep over every cell of the pool
        ok = True
        for bi in (0, 1, 2):
            for off in sorted(set(offsets)):
                if not check_read(bi, off, rng.choice([8, 16, 32]), "final sweep"):
                    ok = False
                    break
            if not ok:
                break
        if hist_i % 30 == 0:
            rec.sample(dict(ptr_size=ps, ops=ops[:12]))


def floors(tier, counters, evaluations):
    miss = []
    w = counters.get("writes", 0)
    if counters.get("writes_overlap", 0) < 0.3 * w:
        miss.append("overlapping writes %d of %d (<30%%)" % (counters.get("writes_overlap", 0), w))
    if counters.get("writes_partial_overlap", 0) < 0.12 * w:
        miss.append("strictly partial overlaps %d of %d writes (<12%%)" % (counters.get("writes_partial_overlap", 0), w))
    if counters.get("writes_wrap", 0) < 0.05 * w:
        miss.append("wrap-around writes %d of %d (<5%%)" % (counters.get("writes_wrap", 0), w))
    if counters.get("reads", 0) < 20 * evaluations:
        miss.append("too few reads compared")
    return miss
