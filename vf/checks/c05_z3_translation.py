"""C05 z3 translation agrees with the reference semantics.

Oracle: solver query per (expression, valuation): identifiers pinned to their
values, every memory byte refsem read pinned in the translator's arrays
(mem<address size>), and `term != refsem value`; unsat = agreement, sat =
disagreement (model value of the term is the witness).  A failing expression
is localised to its smallest failing sub-expression; the finding key is that
node's operator plus the condition class of its operands.  refsem itself is
cross-checked against an independent z3 encoding (disagreement = harness
error)."""
from vf import common

CHECK = dict(
    id="C05", level="translation_validation",
    rule=("random expression trees (depth 1..4) over the operators TranslatorZ3 accepts plus one "
          "focused case per operator kind in turn (operands at boundary constants: INT_MIN dividends, "
          "-1 divisors, counts >= width, zero for the bit counters), widths 1..128, memory reads of "
          "8..64 bits and non-multiple-of-8 sizes, both endiannesses; 3 (quick) / 5 (thorough) "
          "valuations per expression; distinct = distinct alpha-renamed shapes"),
    assumptions=["refsem.py is miasm's evaluation (tied to constant folding by C03); it is cross-checked "
                 "here against an independent z3 bit-vector encoding",
                 "a disagreement is reported only when z3's solver (sat + model) and z3's rewriter (ground "
                 "evaluation) both say so; contradictory or 'unknown' answers are counted, never verdicts "
                 "(z3-solver 5.1 answers sat with a non-model on nested rotations of non power-of-two width)",
                 "valuations are sampled; division/modulo by zero valuations are skipped",
                 "memory arrays are named mem<address size> as documented by Z3Mem"],
    timeout={"quick": 900, "thorough": 3600},
    deps=True,
    technique="runtime monitoring: solver-checked translation validation of TranslatorZ3 output against refsem",
)

from vf.models import xlate_common as xc  # noqa: E402

ACCEPTED = list(xc.BASE_OPS) + xc.STRUCT_KINDS
WIDTHS = [1, 2, 3, 4, 7, 8, 9, 15, 16, 31, 32, 33, 63, 64, 65, 80, 127, 128]


def shards(tier, seed, scale):
    per = 1500 if tier == "quick" else 12000
    return common.mk_shards(16, seed, tier, per, scale, nval=3 if tier == "quick" else 5)


class Z3Oracle(object):
    def __init__(self, rec):
        import z3
        self.z3 = z3
        self.rec = rec
        self.solver = z3.Solver()
        # solver-side deterministic resource limit (no wall-clock): exhausted => "unknown",
        # a counted undecided case
        self.solver.set("rlimit", 50000000)

    def pins(self, env, big=None):
        z3 = self.z3
        cons = []
        for ident, val in env.ids.items():
            cons.append(z3.BitVec(str(ident), ident.size) == z3.BitVecVal(val, ident.size))
        for (psize, addr), byte in xc.mem_cells(env).items():
            arr = z3.Array("mem%d" % psize, z3.BitVecSort(psize), z3.BitVecSort(8))
            cons.append(z3.Select(arr, z3.BitVecVal(addr, psize)) == z3.BitVecVal(byte, 8))
        return cons

    def ground(self, term, env):
        """value of @term with the pinned identifiers / memory cells substituted,
        computed by z3's rewriter (no solver); None when it does not reduce"""
        z3 = self.z3
        subs = []
        for ident, val in env.ids.items():
            subs.append((z3.BitVec(str(ident), ident.size), z3.BitVecVal(val, ident.size)))
        arrays = {}
        for (psize, addr), byte in sorted(xc.mem_cells(env).items()):
            arr = arrays.get(psize)
            if arr is None:
                arr = z3.K(z3.BitVecSort(psize), z3.BitVecVal(0, 8))
            arrays[psize] = z3.Store(arr, z3.BitVecVal(addr, psize), z3.BitVecVal(byte, 8))
        for psize, arr in arrays.items():
            subs.append((z3.Array("mem%d" % psize, z3.BitVecSort(psize), z3.BitVecSort(8)), arr))
        try:
            val = z3.simplify(z3.substitute(term, *subs)) if subs else z3.simplify(term)
        except z3.Z3Exception:
            return None
        if z3.is_bv_value(val):
            return val.as_long()
        return None

    def differs(self, term, env, want, size):
        """-> (status, value).  'unsat': the term equals @want under the pins;
        'sat': it differs (solver model AND ground evaluation say so; value is
        the term's value); 'unknown': solver gave up; 'anomaly': solver and
        rewriter of z3 contradict each other (counted, never a verdict)"""
        z3 = self.z3
        s = self.solver
        g = self.ground(term, env)
        s.push()
        try:
            s.add(*self.pins(env))
            s.add(term != z3.BitVecVal(want, size))
            r = s.check()
            if r == z3.unsat:
                if g is not None and g != want:
                    return "anomaly", g
                return "unsat", None
            if r == z3.sat:
                v = s.model().eval(term, model_completion=True)
                try:
                    v = v.as_long()
                except Exception:
                    v = None
                if v is None or v == want or (g is not None and g == want):
                    return "anomaly", v
                return "sat", v
            return "unknown", None
        finally:
            s.pop()


def translate(e, big_endian):
    from miasm.ir.translators.z3_ir import TranslatorZ3
    tr = TranslatorZ3(endianness=">" if big_endian else "<")
    return tr.from_expr(e)


def run_shard(params, rec):
    common.quiet()
    common.limit_memory(6)
    import z3
    from vf import exprgen, refsem
    from vf.models import c05_z3ref
    rng = common.rng_for(params)
    nval = params["nval"]
    ops = xc.gen_ops(xc.BASE_OPS)
    gen = exprgen.Gen(rng, widths=WIDTHS, ops=ops, flags=False, pow_op=False, mem_any_size=True,
                      max_width=128)
    gen_all = exprgen.Gen(rng, widths=WIDTHS, mem_any_size=True, max_width=128)
    oracle = Z3Oracle(rec)
    n = params["n"]
    turn = 0
    for i in range(n):
        big = rng.random() < 0.5
        p = rng.random()
        if p < 0.05:
            e, src = gen_all.expr(gen_all.width(), rng.choice([2, 3])), "unrestricted"
        elif p < 0.5:
            e, src = gen.expr(gen.width(), rng.choice([1, 2, 3, 4])), "random"
        else:
            k = ACCEPTED[turn % len(ACCEPTED)]
            turn += 1
            w = rng.choice(WIDTHS) if rng.random() < 0.6 else rng.choice([8, 16, 32, 64])
            if k == 'Mem':
                e = xc.op_case(gen, k, w, rng.choice([0, 1]),
                               mem_sizes=(8, 16, 32, 64, 24, 3, 12, 33, 128))
            else:
                e = xc.op_case(gen, k, w, rng.choice([0, 0, 1, 2]))
            src = "focused"
            if e is None:
                continue
        rec.ev()
        rec.count("src:" + src)
        kinds = xc.kinds_in(e)
        # ---- translation
        try:
            term = translate(e, big)
        except NotImplementedError:
            rec.count("rejected")
            for k in kinds:
                if k not in ACCEPTED:
                    rec.count("rejected_op:" + k)
            continue
        except (NameError, AttributeError, UnboundLocalError) as exc:
            rec.fail("translator crashes %s" % type(exc).__name__,
                     "TranslatorZ3.from_expr(%s) raised %r" % (common.short(e), exc),
                     dict(expr=repr(e), big_endian=big))
            continue
        except Exception as exc:
            rec.count("rejected")
            rec.count("rejected_exc:%s" % type(exc).__name__)
            for k in kinds:
                if k == 'parity':
                    rec.count("rejected_exc_with:parity")
            continue
        rec.count("translated")
        rec.count("endianness:%s" % ("big" if big else "little"))
        if exprgen.nontrivial(e):
            rec.distinct(exprgen.shape(e))
        if not z3.is_bv(term) or term.size() != e.size:
            node = e
            rec.fail("wrong sort op=%s" % xc.kind(node),
                     "z3 term for %s has sort %s, expected BitVec(%d)" % (common.short(e), term.sort(), e.size),
                     dict(expr=repr(e)))
            continue
        try:
            ref_term = c05_z3ref.encode(e, big)
        except c05_z3ref.NoEncoding:
            ref_term = None
        # ---- valuations
        for v in range(nval):
            env = xc.make_env(e, rng, seed=i * 8 + v, big_endian=big, zero=(v == 0 and i % 7 == 0))
            try:
                want = refsem.evaluate(e, env)
            except refsem.Undef:
                rec.count("undef_skipped")
                continue
            except refsem.Unsupported:
                rec.count("refsem_unsupported")
                break
            if ref_term is not None:
                st, val = oracle.differs(ref_term, env, want, e.size)
                if st == "sat":
                    raise RuntimeError("refsem and the z3 reference encoding disagree on %r under %r: "
                                       "refsem 0x%x, z3 %r" % (e, xc.env_repr(env), want, val))
                rec.count("refsem_crosschecked")
            st, val = oracle.differs(term, env, want, e.size)
            rec.count("queries")
            rec.count("answer:" + st)
            for k in kinds:
                rec.count("q:" + k)
            if env.reads:
                rec.count("queries_with_memory")
                if any(nb > 1 for _, nb, _ in env.reads):
                    rec.count("queries_multibyte_%s" % ("big" if big else "little"))
            if st in ("unknown", "anomaly"):
                continue
            if st == "unsat":
                if len(rec.samples) < 4 and i % 97 == 0:
                    rec.sample(dict(expr=str(e), z3=str(term)[:300], value=hex(want), answer="unsat"))
                continue
            report(rec, oracle, e, env, want, val, big)


def report(rec, oracle, e, env, want, got, big):
    """localise a disagreement to the smallest failing sub-expressions"""
    from vf import refsem
    ok = {}
    info = {}
    for node in xc.subexprs(e):
        env2 = xc.clone_env(env)
        try:
            w2 = refsem.evaluate(node, env2)
        except (refsem.Undef, refsem.Unsupported):
            continue
        try:
            t2 = translate(node, big)
            st, val = oracle.differs(t2, env2, w2, node.size)
        except Exception:
            continue
        if st in ("unknown", "anomaly"):
            continue
        ok[node] = (st == "unsat")
        info[node] = (w2, val)
    bad = xc.minimal_failing(e, ok)
    wit = dict(expr=repr(e), env=xc.env_repr(env), refsem=hex(want),
               z3=hex(got) if isinstance(got, int) else got, big_endian=big)
    if not bad:
        rec.fail("wrong value (not localised) root=%s" % xc.kind(e),
                 "%s: refsem 0x%x, z3 model %r" % (common.short(e), want, got), wit)
        return
    for node in bad:
        cls = xc.cond_class(node, env)
        w2, v2 = info[node]
        wit2 = dict(wit, node=repr(node), node_refsem=hex(w2),
                    node_z3=hex(v2) if isinstance(v2, int) else v2)
        rec.fail(("wrong value op=%s %s" % (xc.kind(node), cls)).strip(),
                 "%s: refsem 0x%x, z3 term evaluates to %s (inside %s)" % (
                     common.short(node, 200), w2, wit2["node_z3"], common.short(e, 200)), wit2)


def floors(tier, counters, evaluations):
    miss = []
    for k in ACCEPTED:
        if counters.get("q:" + k, 0) < 100:
            miss.append("operator kind %s reached only %d solver queries (<100)" % (k, counters.get("q:" + k, 0)))
    undecided = counters.get("answer:unknown", 0) + counters.get("answer:anomaly", 0)
    if undecided > 0.02 * max(1, counters.get("queries", 0)):
        miss.append("more than 2%% of the queries were not decided (solver gave up or contradicted z3's own "
                    "evaluator): %d" % undecided)
    for end in ("big", "little"):
        if counters.get("queries_multibyte_" + end, 0) < 50:
            miss.append("fewer than 50 %s-endian multi-byte memory reads checked" % end)
    if counters.get("refsem_crosschecked", 0) < 0.9 * counters.get("queries", 0):
        miss.append("refsem was cross-checked against z3 on fewer than 90% of the queries")
    return miss
