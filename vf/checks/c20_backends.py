"""C20 all jitter back ends produce the same execution (Python vs GCC; LLVM
is not installable in the sandbox)."""
from vf import common

CHECK = dict(
    id="C20", level="exploration",
    rule=("programs of 3-14 random decodable integer instructions (plus a counted backward loop in a "
          "third of them) per architecture mode, registers pointing into a read-write page, a read-only "
          "page, next to an unmapped hole; each program runs on the Python and on the GCC back end from "
          "the same state (half of the breakpoint callbacks write a register or flag the instruction under the "
          "breakpoint assigns) and the outcomes (registers, every memory page, exception flags, PC, breakpoint "
          "hits, escaping exception) are compared; a lock-step re-run names the first diverging "
          "instruction; distinct = distinct (arch, mnemonic sequence)"),
    assumptions=["the LLVM back end cannot be instantiated (llvmlite absent): Python and GCC only",
                 "instructions whose IR uses operators without reference semantics (fp, calls, cpuid, "
                 "segments) are not generated"],
    overlay={"quick": "plain", "thorough": "asan"},
    crash_is_violation=True,
    timeout={"quick": 1500, "thorough": 6000},
    technique="runtime monitoring: differential execution of the same program on two back ends, lock-step triage, sanitizers in the thorough tier",
)

ARCHS = ["x86_32", "x86_64", "x86_16", "arml", "armb", "armtl", "aarch64l", "aarch64b", "mips32l",
         "mips32b", "ppc32b", "msp430", "mepl", "mepb"]


def shards(tier, seed, scale):
    per = 22 if tier == "quick" else 900
    out = []
    n = 32 if tier == "thorough" else 28
    for i in range(n):
        out.append(dict(seed=seed, shard=i, tier=tier, hashseed=0 if i % 2 == 0 else 1 + seed + i,
                        arch=ARCHS[i % len(ARCHS)], n=max(1, int(per * scale))))
    return out


def lockstep(jitlib, spec, prog, max_steps=200):
    """re-run both back ends one instruction at a time; -> (index, pc, diff) of
    the first step after which the states differ, or None"""
    outs = []
    opts = dict(jit_maxline=1, max_exec_per_call=1)
    jit = {}
    for be in ("python", "gcc"):
        jit[be] = jitlib.new_jitter(spec, be, prog, opts)
    state = {}
    for be in ("python", "gcc"):
        j = jit[be]
        st = dict(stop=None, raised=None)
        state[be] = st

        def at_end(jj, st=st):
            st["stop"] = "end"
            return False

        def on_exc(jj, st=st):
            st["stop"] = "exception"
            return False
        j.add_breakpoint(prog.end, at_end)
        for bit in list(range(1, 5)) + [10, 25]:
            j.add_exception_handler(1 << bit, on_exc)
        j.init_run(spec.L.CODE)
    for step in range(max_steps):
        pcs = {}
        for be in ("python", "gcc"):
            j = jit[be]
            pcs[be] = j.pc
            if state[be]["stop"] or state[be]["raised"]:
                continue
            try:
                j.continue_run(step=True)
            except Exception as exc:
                state[be]["raised"] = type(exc).__name__
        a, b = jitlib.Outcome(), jitlib.Outcome()
        jitlib.snapshot(jit["python"], spec, a)
        jitlib.snapshot(jit["gcc"], spec, b)
        a.raised, b.raised = state["python"]["raised"], state["gcc"]["raised"]
        d = jitlib.diff_outcomes(a, b, spec, ignore_regs=(spec.pc_name,))
        if d is not None:
            return step, pcs["gcc"], d, a, b
        if all(state[be]["stop"] or state[be]["raised"] for be in state):
            return None
    return None


def classify(spec, prog, d_kind, py, gcc, instr_name):
    from miasm.jitter.csts import EXCEPT_ACCESS_VIOL
    av = EXCEPT_ACCESS_VIOL
    g_av = (gcc.exc_vm & av) == av
    p_av = (py.exc_vm & av) == av
    if py.raised == "RuntimeError" and g_av:
        return "python back end raises RuntimeError out of run where gcc reports an access violation"
    if g_av and not p_av and py.raised is None:
        return "python back end misses an access violation reported by gcc (page permission / straddling)"
    if p_av and not g_av:
        return "gcc back end misses an access violation reported by python"
    if g_av and p_av:
        return "state after a faulting instruction differs (%s)" % d_kind
    return "%s: %s differs after %s" % (spec.family, d_kind, instr_name)


def run_shard(params, rec):
    common.quiet()
    from vf import jitlib
    rng = common.rng_for(params)
    spec = jitlib.ArchSpec(params["arch"])
    pool = jitlib.instr_pool(spec, rng, 90 if params["tier"] == "quick" else 400)
    if len(pool) < 20:
        rec.count("pool_too_small:" + spec.mname)
        return
    for name in set(p[2] for p in pool):
        rec.count("pool_mnemonics")
    for i in range(params["n"]):
        with_loop = rng.random() < 0.45
        mode = None if with_loop else rng.choice([None, None, None, "straddle", "straddle", "split", "tiny"])
        selfloop = (not with_loop) and spec.family.startswith("x86") and rng.random() < 0.25
        prog = jitlib.make_prog(spec, rng, pool, rng.randrange(3, 15), with_loop=with_loop, mode=mode,
                                selfloop=selfloop,
                                fault_bias=0.0 if with_loop else rng.choice([0.0, 0.03, 0.1, 0.3, 0.5]))
        rec.count("mode:%s" % mode)
        bps = []
        if rng.random() < 0.5 and prog.instrs:
            bps = sorted(set(rng.choice(prog.instrs)[0] for _ in range(rng.choice([1, 2]))))
        if selfloop and rng.random() < 0.7:
            # a breakpoint on the self-branching instruction: one hit per iteration
            bps = sorted(set(bps + [o for o, ln, t, nm in prog.instrs if nm == "SELFLOOP"]))
            rec.count("breakpoint_on_self_branching_instruction")
        # half of the breakpoint callbacks change, from outside the engine, a register (or flag) that
        # the instruction under the breakpoint is about to assign: what an emulated library function does
        bp_writes = {}
        for a_ in bps:
            if rng.random() < 0.6:
                idx_ = next(k for k, ins in enumerate(prog.instrs) if ins[0] == a_)
                dr = jitlib.dest_regs(spec, prog, idx_)
                if rng.random() < 0.25:
                    dr = dict((g, spec.pc_size) for g in spec.gprs)
                if dr:
                    reg = rng.choice(sorted(dr))
                    bp_writes[a_] = (reg, rng.choice([0, 1, rng.getrandbits(dr[reg])]) & ((1 << dr[reg]) - 1))
        rec.ev()
        rec.count("programs:" + spec.mname)
        outs = {}
        # a finite per-call limit: a guest loop whose counter got clobbered must come back to the
        # step budget instead of spinning inside one translated block for ever
        opts = dict(max_exec_per_call=rng.choice([1, 4, 32]), jit_maxline=rng.choice([50, 50, 7]))
        try:
            for be in ("python", "gcc"):
                outs[be] = jitlib.run(spec, be, prog, options=opts, breakpoints=bps, max_steps=300, trace=True,
                                      bp_writes=bp_writes)
        except Exception as exc:
            # building a jitter / mapping memory failed: harness trouble, not a verdict
            rec.count("harness_run_error")
            rec.extra.setdefault("harness_run_error", repr(exc)[:300])
            continue
        py, gcc = outs["python"], outs["gcc"]
        if gcc.raised == "CalledProcessError" or py.raised == "CalledProcessError":
            # the C compiler rejected the generated block: instruction unsupported by that back end
            rec.count("unsupported_by_backend")
            rec.count("unsupported_by_backend:" + spec.family)
            continue
        if py.budget or gcc.budget:
            rec.count("discarded_budget")
            if py.budget != gcc.budget:
                rec.count("budget_one_side_only")
            continue
        rec.distinct("%s|%s" % (spec.mname, ",".join(n for _, _, _, n in prog.instrs)))
        av = 1 << 14
        if (gcc.exc_vm & av) or (py.exc_vm & av) or py.raised:
            rec.count("ended_in_fault")
        if prog.loop is not None and py.trace.count(prog.loop[0]) >= 1 and py.steps >= 2 and \
                any(a == prog.loop[0] for a in py.trace[1:]):
            rec.count("with_taken_loop")
        if bps:
            rec.count("with_breakpoints")
            if gcc.bp_hits:
                rec.count("breakpoint_hits_seen")
            if any(a_ in bp_writes for a_ in gcc.bp_hits):
                rec.count("external_register_writes_seen")
        d = jitlib.diff_outcomes(py, gcc, spec, ignore_regs=(spec.pc_name,))
        rec.count("compared")
        if d is None:
            rec.count("agree")
            if i % 25 == 0:
                rec.sample(dict(machine=spec.mname, instrs=[t for _, _, t, _ in prog.instrs][:6],
                                end=gcc.stop, steps=gcc.steps, exc_vm=gcc.exc_vm), limit=8)
            continue
        # triage: fault-related divergences are classified from the outcomes alone; a
        # lock-step re-run (costly on gcc: one compile per instruction) names the
        # instruction for the others, a few times per shard
        instr_name = "?"
        tri = None
        pre = classify(spec, prog, d[0], py, gcc, "?")
        if pre.startswith(spec.family + ":") and rec.counters.get("lockstep_runs", 0) < 40:
            rec.count("lockstep_runs")
            try:
                tri = lockstep(jitlib, spec, prog)
            except Exception as exc:
                rec.count("lockstep_error")
        wit = prog.describe()
        wit["python"] = py.summary(spec)
        wit["gcc"] = gcc.summary(spec)
        wit["diff"] = d
        wit["breakpoints"] = bps
        wit["breakpoint_register_writes"] = {hex(a_): v for a_, v in bp_writes.items()}
        if tri is not None:
            step, pc, d2, a, b = tri
            for off, ln, txt, nm in prog.instrs:
                if off == pc:
                    instr_name = nm
                    wit["diverges_at"] = "%x: %s" % (off, txt)
            wit["lockstep_diff"] = d2
            key = classify(spec, prog, d2[0], a, b, instr_name)
        elif not pre.startswith(spec.family + ":"):
            key = pre
        else:
            key = "%s: %s differs (not reproduced in lock-step%s)" % (
                spec.family, d[0], ", a breakpoint callback wrote a register" if
                any(a_ in bp_writes for a_ in gcc.bp_hits) else "")
        if key.startswith("state after a faulting instruction differs (memory)"):
            idx = next((k for k, ins in enumerate(prog.instrs) if ins[0] == gcc.pc), None)
            if idx is not None and jitlib.count_stores(spec, prog, idx) > 1:
                # the known partial-effect mechanism of C49, seen from both back ends at once
                key = "multi-store instruction faulting part-way: the back ends leave different partial memory effects"
        rec.fail(key, "%s: python vs gcc: %s %s" % (spec.mname, d[0], d[1]), wit)


def floors(tier, counters, evaluations):
    miss = []
    cmp_ = counters.get("compared", 0)
    if cmp_ < 0.5 * evaluations:
        miss.append("only %d of %d programs compared" % (cmp_, evaluations))
    if counters.get("ended_in_fault", 0) < 0.1 * cmp_:
        miss.append("fewer than 10% of programs end in a memory fault")
    if counters.get("with_taken_loop", 0) < 0.06 * cmp_:
        miss.append("fewer than 6% of programs take a backward branch")
    if counters.get("external_register_writes_seen", 0) < 0.05 * cmp_:
        miss.append("fewer than 5% of programs had a breakpoint callback writing a register")
    for a in ARCHS:
        if counters.get("programs:" + a, 0) == 0:
            miss.append("architecture %s not exercised" % a)
    return miss
