"""C17 decoded instruction lengths / validity agree with a reference disassembler.

Monitored: mn.dis (instr.l or Disasm_Exception) on the shared corpus for x86 16/32/64, ARM, Thumb,
AArch64, MIPS32 (both byte orders) and PPC32.  Oracle: llvm-mc-14 + llvm-objdump-14 (several
subtarget views per ISA, see vf/models/insn_ref.py) and, on x86, binutils objdump as a second
opinion.  An alarm needs every available tool to agree: all reject the bytes (ref_invalid) or all
give the same other length (ref_length).  A disagreement between tools is counted, not a verdict.

Byte order: the candidate's *memory image* is what both sides see on x86, MIPS (mips / mipsel) and
PPC.  llvm-objdump reads ARM/Thumb instructions little-endian whatever the object's endianness
(it assumes BE8), so for armb/armtb the reference is given the instruction word miasm read (the
validity of a word does not depend on how it was stored).  AArch64 big-endian gets both: the
honest memory image through the aarch64_be triple, and, when that disagrees, the word miasm read
through the aarch64 triple to tell "decodes words big-endian" (one mechanism: A64 instructions are
little-endian in big-endian images too) from an ordinary over-acceptance.
"""
import os
import tempfile

from vf import common
from vf.models import insn_corpus as ic
from vf.models import insn_ref as ir

CHECK = dict(
    id="C17", level="exploration",
    rule=("16-byte candidates from the shared instruction corpus: a seed-independent walk over every class of "
          "each decoder table (fixed prefix classes x ModRM forms on x86, boundary values of every free field) plus a "
          "seed-dependent stream -- VERIF_SEED selects one of 21 (quick) / 4 (thorough) swept streams, seed mod N -- of random bytes, stratified opcode "
          "enumeration, decoder-table templates with random free fields, curated vectors of test/arch "
          "with bit flips) for x86 16/32/64, ARM l/b, Thumb l/b, AArch64 l/b, MIPS32 l/b, PPC32; every "
          "candidate miasm decodes is given to the reference disassemblers; distinct = distinct "
          "(arch/mode, mnemonic, operand kinds, length); non-trivial = miasm decoded it"),
    assumptions=["the seed-dependent part is drawn from a closed set of streams (VERIF_SEED mod 21 quick, mod 4 thorough); other seeds repeat a stream",
                 "llvm-objdump-14 (all subtarget views) and binutils objdump are correct when they agree",
                 "llvm-objdump reads ARM instruction words little-endian: big-endian ARM/Thumb are compared on the word",
                 "an encoding valid in any revision/profile view of the ISA counts as valid"],
    timeout={"quick": 900, "thorough": 3400},
    exhaustive={"quick": False, "thorough": False},
    technique="runtime monitoring: differential decoding against llvm-objdump / binutils objdump",
)

PER_ARCH = {"quick": 3000, "thorough": 12000}      # seed-dependent candidates per arch/mode
WALK_ROUNDS = {"quick": 1, "thorough": 2}
NSHARDS = 16
BATCH = 25000
VIEW = {"x86_16": "x86_16", "x86_32": "x86_32", "x86_64": "x86_64", "arml": "arm", "armb": "arm",
        "armtl": "armt", "armtb": "armt", "aarch64l": "aarch64", "aarch64b": "aarch64_be",
        "mips32l": "mipsel", "mips32b": "mips", "ppc32b": "ppc"}


def shards(tier, seed, scale):
    # every llvm tool start costs about a second whatever the number of slots, so a shard works on
    # one arch/mode only (quick: 12 shards; thorough: 4 shards per arch/mode)
    seed = ic.stream_index("C17", tier, seed)
    split = 1 if tier == "quick" else 4
    per = max(200, int(PER_ARCH[tier] * scale / split))
    stride = 1 if scale >= 1 else max(1, int(round(1 / scale)))
    out = []
    for a, name in enumerate(ic.REFERENCED):
        for j in range(split):
            i = len(out)
            hs = 0 if i % 2 == 0 else 1 + (seed * 7919 + i) % 4000000
            out.append(dict(seed=seed, shard=i, nshards=len(ic.REFERENCED) * split, tier=tier, n=per,
                            arch=name, part=j, nparts=split, hashseed=hs,
                            walk_rounds=ic.walk_rounds(WALK_ROUNDS[tier]), walk_stride=stride))
    return out


def slot_of(spec, view, data, honest=True):
    v = ir.VIEWS[view]
    if v["emit"] == "byte":
        return bytes(data[:v["slot"]])
    arch_order = ic.from_mem(spec, data)          # most significant byte first per unit = what miasm read
    if v["emit"] == "inst32":
        if view == "aarch64_be" and honest:
            return int.from_bytes(data[:4], "little")     # A64 instructions are stored little-endian
        return int.from_bytes(arch_order[:4], "big")
    return (int.from_bytes(arch_order[:2], "big"), int.from_bytes(arch_order[2:4], "big"))


def compare_batch(spec, batch, rec, workdir):
    view = VIEW[spec.name]
    ref = ir.Reference(view, workdir)
    res = ref.run([slot_of(spec, view, data) for data, _, _ in batch])
    verdicts = []
    for k, (data, instr, origin) in enumerate(batch):
        verdicts.append(ir.verdict(instr.l, dict((t, res[t][k]) for t in res)))
    if spec.name == "aarch64b":
        # second opinion on the word miasm read, only for the disagreeing cases
        idx = [k for k, (vd, _) in enumerate(verdicts) if vd in ("ref_invalid", "ref_length")]
        if idx:
            ref2 = ir.Reference("aarch64", workdir)
            res2 = ref2.run([slot_of(spec, "aarch64", batch[k][0], honest=False) for k in idx])
            for j, k in enumerate(idx):
                vd2, _ = ir.verdict(batch[k][1].l, dict((t, res2[t][j]) for t in res2))
                if vd2.startswith("agree"):
                    verdicts[k] = ("byte_order", None)
    prefix_caused = {}
    if spec.family.startswith("x86"):
        # is the prefix the mechanism?  Ask again without the legacy prefixes: when miasm still
        # decodes the same mnemonic and the references now agree, the finding is keyed by the
        # prefix class instead of the mnemonic.
        # two stages: first without lock/rep/repne only (66 F2 0F 29 is MOVAPD behind a stray F2),
        # then without any legacy prefix
        for only in (("lock", "rep", "repne"), None):
            idx, stripped = [], []
            for k, (vd, _) in enumerate(verdicts):
                if vd not in ("ref_invalid", "ref_length") or k in prefix_caused:
                    continue
                data, instr, _ = batch[k]
                if not ic.x86_prefix_class(instr.b, spec.mode) in ("g1", "o", "a", "seg"):
                    continue
                bare = ic.x86_strip_legacy(data, only)
                if len(bare) == len(data):
                    continue
                bare = bare + data[:16 - len(bare)]
                i2, _ = ic.decode(spec, bare, 0)
                if i2 is None or i2.name != instr.name:
                    continue
                idx.append(k)
                stripped.append((bare, i2))
            if idx:
                ref3 = ir.Reference(view, workdir)
                res3 = ref3.run([slot_of(spec, view, b) for b, _ in stripped])
                for j, k in enumerate(idx):
                    vd3, _ = ir.verdict(stripped[j][1].l, dict((t, res3[t][j]) for t in res3))
                    if vd3.startswith("agree"):
                        prefix_caused[k] = "g1" if only else ic.x86_prefix_class(batch[k][1].b, spec.mode)
    for k, ((data, instr, origin), (vd, detail)) in enumerate(zip(batch, verdicts)):
        rec.count("%s:%s" % (spec.name, vd))
        if vd in ("agree", "agree_partial", "refs_disagree"):
            if vd == "refs_disagree" and len(rec.extra.setdefault("refs_disagree_examples", [])) < 8:
                rec.extra["refs_disagree_examples"].append(
                    dict(arch=spec.name, bytes=ic.hexs(data), miasm=str(instr), miasm_len=instr.l, refs=str(detail)))
            continue
        if spec.unit == 4:
            gap = ir.ref_gap(view, int.from_bytes(ic.from_mem(spec, data)[:4], "big"))
            if gap:
                rec.count("%s:ref_gap" % spec.name)
                rec.count("ref_gap:" + gap)
                continue
        name = ic.base_mnemonic(spec, instr)
        try:
            text = str(instr)
        except Exception:
            text = instr.name
        wit = dict(arch=spec.name, mode=str(spec.mode), bytes=ic.hexs(data), instr=text,
                   miasm_length=instr.l, origin=origin, reference=view)
        if vd == "byte_order":
            rec.fail("aarch64 big-endian instruction_byte_order",
                     "aarch64b reads the instruction word big-endian: %s decoded as %s, the reference "
                     "(aarch64_be) reads it little-endian and rejects it" % (ic.hexs(data[:4]), text), wit)
        elif k in prefix_caused:
            rec.count("%s:prefix_caused" % spec.name)
            rec.fail("%s pfx[%s] %s" % (spec.family, prefix_caused[k], vd),
                     "%s [%s] (miasm length %d): %s; without the legacy prefixes miasm and the references agree" % (
                         text, ic.hexs(instr.b), instr.l,
                         "rejected by every reference" if vd == "ref_invalid" else "every reference says %s" % (detail,)), wit)
        elif vd == "ref_invalid":
            rec.fail("%s %s%s ref_invalid" % (spec.family, name, form_of(spec, instr)),
                     "%s [%s] decoded by miasm (length %d), rejected by every reference" % (
                         text, ic.hexs(instr.b), instr.l), wit)
        else:
            rec.fail("%s %s%s ref_length" % (spec.family, name, form_of(spec, instr)),
                     "%s [%s]: miasm length %d, every reference says %s" % (text, ic.hexs(instr.b), instr.l, detail), wit)


def form_of(spec, instr):
    """fixed-width ISAs: the operand codec chain of the decoding table class is part of the key -- one
    mnemonic has several forms (AND immediate / AND shifted register) with separate decode code"""
    if spec.unit == 1:
        return ""
    sig = ic.codec_sig(spec, instr)
    return " [%s]" % sig if sig else ""


def run_shard(params, rec):
    common.quiet()
    ic.enable_pycache()
    rng = common.rng_for(params)
    n = params["n"]
    workdir = tempfile.mkdtemp(prefix="c17_")
    try:
        probe = ir.Reference("x86_32", workdir)
    except ir.RefError as exc:
        raise RuntimeError("reference disassembler missing: %s" % exc)
    rec.extra["tools"] = dict(llvm_mc=ir.LLVM_MC, llvm_objdump=ir.LLVM_OBJDUMP, gnu_objdump=ir.GNU_OBJDUMP)
    for name in [params["arch"]]:
        spec = ic.BY_NAME[name]
        walk = (params["part"], params["nparts"], params.get("walk_rounds", 1), params.get("walk_stride", 1))
        batch = []
        for data, origin in ic.stream(spec, rng, params["seed"] * 64 + params["shard"], n, walk):
            instr, err = ic.decode(spec, data, 0)
            if instr is None:
                rec.count("%s:undecodable" % spec.name)
                if err not in ("Disasm_Exception", "IOError", "no_instr"):
                    rec.count("dis_raises:%s:%s" % (spec.family, err))
                continue
            rec.ev()
            rec.count("%s:decoded" % spec.name)
            rec.count("origin:" + origin)
            rec.count("len:%s:%d" % (spec.family, instr.l))
            try:
                rec.count("mn:%s:%s" % (spec.family, ic.base_mnemonic(spec, instr)))
                rec.distinct("%s/%s/%s/%d" % (spec.name, instr.name, ic.operand_kinds(instr), instr.l))
            except Exception as exc:     # a malformed instruction object must not end the shard
                rec.count("odd_instruction_object:%s" % type(exc).__name__)
            if len(rec.samples) < 3:
                rec.sample(dict(arch=spec.name, bytes=ic.hexs(instr.b), length=instr.l))
            batch.append((data, instr, origin))
            if len(batch) >= BATCH:
                compare_batch(spec, batch, rec, workdir)
                batch = []
        if batch:
            compare_batch(spec, batch, rec, workdir)


def floors(tier, counters, evaluations):
    miss = []
    for name in ic.REFERENCED:
        got = sum(counters.get("%s:%s" % (name, k), 0) for k in
                  ("agree", "agree_partial", "ref_invalid", "ref_length", "refs_disagree", "byte_order"))
        # (ref_gap cases are counted inside ref_invalid: the verdict counter is bumped before the gap test)
        if got < 1000:
            miss.append("%s: only %d decoded candidates compared (< 1000)" % (name, got))
        if counters.get("%s:agree" % name, 0) + counters.get("%s:agree_partial" % name, 0) < 0.5 * got \
                and name != "aarch64b":
            miss.append("%s: the references agree with fewer than half of miasm's decodings (harness suspect)" % name)
    return miss
