"""C39 dependency-graph slices are faithful to the program.

For every DependencyResult of DependencyGraph(...).get(loc_key, elements, line_nb, heads)
on loop-free IR graphs: the values emul() computes from the slice, instantiated
with vf.refsem under random valuations, must equal the values the *full* blocks
leave in the tracked elements when they are executed (vf.irinterp) along the
same history.  Implicit mode: for concrete inputs, the path constraints collected
by DependencyResultImplicit.emul() hold iff the concrete execution of the
original graph follows the history."""
from vf import common

CHECK = dict(
    id="C39", level="exploration",
    rule=("(a) loop-free random IR graphs (1-6 blocks, diamonds, chains, shared tails) over the x86_32/x86_64 "
          "registers with word-wide memory accesses through never-assigned pointer registers, fixed addresses "
          "and one data-dependent derived pointer; (b) loop-free x86_32 assembly (forward jumps, cmov, setcc, "
          "dword memory operands) assembled and lifted with LifterModelCall as example/expression/asm_to_ir.py "
          "does; targets = random (block, line, 1-2 registers) with heads={entry}; every solution of the "
          "explicit (apply_simp on/off) and of the implicit dependency graph is checked under 4 valuations / "
          "6 concrete inputs; distinct = distinct (graph shape, contents, target)"),
    assumptions=["vf.irinterp/refsem define the concrete meaning of the IR",
                 "non-aliasing discipline of the syntactic memory tracking: one access width, word-aligned "
                 "offsets, pointer registers never written and >= 2^20 apart (vf/models/c39_depgraph.py)",
                 "z3 (from /verif/.deps) evaluates the path constraints under a concrete input: registers and "
                 "memory bytes are substituted and the formula is simplified to true/false; inputs for which "
                 "it does not reduce are counted and skipped",
                 "solutions with has_loop are counted and skipped (none on loop-free graphs)",
                 "memory cells are used as target elements only when their address is built from never-assigned "
                 "pointers (the address of a target element is not tracked by the dependency graph)"],
    timeout={"quick": 900, "thorough": 5400},
    deps=True,
    technique="runtime monitoring: slice emulation vs concrete execution of the full blocks along the history",
)

N_VAL = 4
N_INPUTS = 6
MAX_SOLUTIONS = 24
CASE_CPU_SECONDS = 120     # CPU time (ITIMER_PROF), not wall-clock
Z3_TIMEOUT_MS = 3000       # per satisfiability query; 'unknown' is counted and skipped


def shards(tier, seed, scale):
    per = 40 if tier == "quick" else 950
    lift = 6 if tier == "quick" else 150
    return common.mk_shards(16, seed, tier, per, scale, n_lift=max(1, int(lift * scale)))


# --------------------------------------------------------------------------- helpers

def forced_path_cfg(ircfg, h_rev, line_nb, loc_db, irdst, exit_loc):
    """the blocks of the history, in order, each jumping to the next one whatever its IRDst says;
    the last one cut before line @line_nb"""
    from miasm.ir.ir import IRCFG, IRBlock, AssignBlock
    from miasm.expression.expression import ExprLoc
    g = IRCFG(irdst, loc_db)
    for idx, lk in enumerate(h_rev):
        blk = ircfg.blocks[lk]
        last = idx == len(h_rev) - 1
        abs_ = list(blk)[:line_nb] if last else list(blk)
        nxt = ExprLoc(exit_loc if last else h_rev[idx + 1], irdst.size)
        new, seen = [], False
        for ab in abs_:
            d = dict(ab)
            if irdst in d:
                d[irdst] = nxt
                seen = True
            new.append(AssignBlock(d))
        if not seen:
            new.append(AssignBlock({irdst: nxt}))
        g.add_irblock(IRBlock(loc_db, lk, new))
    return g


def z3_walk(e, consts, selects, seen):
    import z3
    k = e.get_id()
    if k in seen:
        return
    seen.add(k)
    if z3.is_app(e):
        if e.num_args() == 0 and e.decl().kind() == z3.Z3_OP_UNINTERPRETED:
            consts.append(e)
        elif e.decl().kind() == z3.Z3_OP_SELECT:
            selects.append(e)
        for c in e.children():
            z3_walk(c, consts, selects, seen)


def z3_holds(assertions, env, regs_by_name):
    """truth value of the conjunction of @assertions under the concrete input @env, or None"""
    import z3
    e = z3.And(*assertions) if len(assertions) else z3.BoolVal(True)
    consts, selects = [], []
    z3_walk(e, consts, selects, set())
    subs = []
    for c in consts:
        if z3.is_bv(c):
            reg = regs_by_name.get(c.decl().name())
            if reg is None or reg.size != c.size():
                return None
            subs.append((c, z3.BitVecVal(env.ident(reg), c.size())))
        elif z3.is_array(c):
            continue
        else:
            return None
    if subs:
        e = z3.substitute(e, *subs)
    e = z3.simplify(e)
    for _ in range(8):
        if z3.is_true(e) or z3.is_false(e):
            break
        consts, selects = [], []
        z3_walk(e, consts, selects, set())
        subs = []
        for s in selects:
            arr, idx = s.children()
            if z3.is_bv_value(idx) and z3.is_const(arr) and arr.decl().kind() == z3.Z3_OP_UNINTERPRETED:
                subs.append((s, z3.BitVecVal(env.byte(idx.as_long()), 8)))
        if not subs:
            break
        e = z3.simplify(z3.substitute(e, *subs))
    if z3.is_true(e):
        return True
    if z3.is_false(e):
        return False
    return None


class Case(object):
    pass


def fmt_block(blk):
    """block text with explicit assignblock (line) numbers"""
    out = ["%s:" % blk.loc_key]
    for i, ab in enumerate(blk):
        for d, src in ab.items():
            out.append("  [%d] %s = %s" % (i, d, src))
    return "\n".join(out)


def mems_of(expr, out):
    def cb(x):
        if x.is_mem():
            out.add(x)
        return x
    expr.visit(cb)
    return out


def has_narrow_mem(case, sol, exprs):
    """the solution works on a memory read that does not occur (same pointer, same size) in the program"""
    prog = set()
    for blk in case.ircfg.blocks.values():
        for ab in blk:
            for d, src in ab.items():
                for m in mems_of(src, mems_of(d, set())):
                    prog.add((m.ptr, m.size))
    seen = set()
    for v in exprs:
        mems_of(v, seen)
    for e in sol.unresolved:
        mems_of(e, seen)
    for node in sol.relevant_nodes:
        mems_of(node.element, seen)
    return any((m.ptr, m.size) not in prog for m in seen)


def nosimp_solutions(case, mode, h_rev):
    """solutions of the same target with apply_simp=False and the same history (or the same lines)"""
    from miasm.analysis.depgraph import DependencyGraph
    dg = DependencyGraph(case.ircfg, implicit=(mode == "implicit"), apply_simp=False)
    sols = list(dg.get(case.target_loc, set(case.elements), case.line_nb, case.heads))
    same = [s2 for s2 in sols if list(s2.history[::-1]) == list(h_rev)]
    if same:
        return same
    # DependencyGraph.get reports only one of several paths that lead to the same dependencies: accept a
    # solution found along another path when all the lines it uses lie on the history at hand
    return [s2 for s2 in sols if set(n.loc_key for n in s2.relevant_nodes) <= set(h_rev)]


def call_unsupported(exc):
    return isinstance(exc, NotImplementedError) and "Unsupported OP yet: call_" in str(exc)


def nosimp_slice_has_more_stores(case, mode, sol, h_rev):
    """structural form of the same classifier, for slices whose constraints the z3 translator cannot
    express (call operators): with apply_simp=False the slice of the same target and history contains a
    store that the simplified slice lacks"""
    def stores(s_):
        out = set()
        for lk in h_rev:
            for ab in s_.irblock_slice(case.ircfg.blocks[lk]):
                for d in ab:
                    if d.is_mem():
                        out.add((lk, d))
        return out
    try:
        mine = stores(sol)
        return any(stores(s2) - mine for s2 in nosimp_solutions(case, mode, h_rev))
    except Exception:
        return False


def narrowed_by_simplification(case, mode, sol, res, elt, h_rev, mkenv, want, hook):
    """classifier of a value mismatch: (1) the slice works on a memory read narrower than the accesses of
    the program, and (2) the dependency graph without apply_simp, same target and history, gives the
    value of the full blocks"""
    from vf import refsem
    if not has_narrow_mem(case, sol, list(res.values())):
        return False
    try:
        for sol2 in nosimp_solutions(case, mode, h_rev):
            res2 = sol2.emul(case.ctx.lifter)
            if refsem.evaluate(res2[elt], mkenv(), hook) == want:
                return True
    except Exception as exc:
        return call_unsupported(exc) and nosimp_slice_has_more_stores(case, mode, sol, h_rev)
    return False


def narrowed_constraints(case, sol, h_rev, env_factory, follows):
    """same classifier for a path-constraint mismatch"""
    if not has_narrow_mem(case, sol, []):
        return False
    try:
        for sol2 in nosimp_solutions(case, "implicit", h_rev):
            sol2.emul(case.ctx.lifter)
            holds2 = z3_holds(list(sol2._solver.assertions()), env_factory(), case.regs_by_name)
            if holds2 is not None and holds2 == follows:
                return True
    except Exception as exc:
        return call_unsupported(exc) and nosimp_slice_has_more_stores(case, "implicit", sol, h_rev)
    return False


def check_values(rec, mode, kind, sol, res, case, h_rev, wit):
    """emul() values vs concrete execution of the full blocks along the history"""
    from vf import irinterp, refsem
    ctx = case.ctx
    g = forced_path_cfg(case.ircfg, h_rev, case.line_nb, ctx.loc_db, ctx.IRDst, case.exit_loc)
    for v in range(N_VAL):
        env0 = case.envs[v]
        base = dict(env0.ids)

        def mkenv():
            return refsem.Env(ids=dict(base), seed=env0.seed, locs=case.locmap)
        e_run = mkenv()
        r = irinterp.run(g, ctx.loc_db, h_rev[0], e_run, max_steps=400)
        if r.status != "exit" or r.path != list(h_rev):
            rec.count("skip_full_run_" + r.status)
            continue
        hook = irinterp.call_hook_factory([])
        for elt in case.elements:
            if elt not in res:
                rec.fail("%s: emul() result lacks a tracked element" % mode, "%s not in %s" % (elt, list(res)), wit)
                return False
            try:
                got = refsem.evaluate(res[elt], mkenv(), hook)
            except refsem.Undef:
                rec.count("skip_undef")
                continue
            except refsem.Unsupported:
                rec.count("skip_unsupported")
                continue
            if elt.is_id():
                want = e_run.ident(elt)
            else:
                want = refsem.evaluate(elt, e_run, hook)      # memory cell after the run (pointers are constant)
                rec.count("memory_elements_compared")
            rec.count("values_compared:%s:%s" % (kind, mode))
            if got != want and mode != "explicit-nosimp" and \
                    narrowed_by_simplification(case, mode, sol, res, elt, h_rev, mkenv, want, hook):
                rec.fail("apply_simp rewrites a slice of a memory read into a narrower read, the word-wide "
                         "store is no longer matched syntactically",
                         mode + ": %s: slice gives %s -> 0x%x, full blocks give 0x%x; history %s; the same target with "
                         "apply_simp=False gives the full-block value" % (
                             elt, common.short(res[elt], 300), got, want, [str(l) for l in h_rev]),
                         dict(wit, regs={str(k): hex(x) for k, x in base.items()}, mem_seed=env0.seed,
                              history=[str(l) for l in h_rev],
                              slice=[fmt_block(sol.irblock_slice(case.ircfg.blocks[l])) for l in h_rev]))
                return False
            if got != want:
                rec.fail("%s: emul() of the slice differs from the full blocks along the history" % mode,
                         "%s: slice gives %s -> 0x%x, full blocks give 0x%x; history %s" % (
                             elt, common.short(res[elt], 300), got, want, [str(l) for l in h_rev]),
                         dict(wit, regs={str(k): hex(x) for k, x in base.items()}, mem_seed=env0.seed,
                              history=[str(l) for l in h_rev],
                              slice=[fmt_block(sol.irblock_slice(case.ircfg.blocks[l])) for l in h_rev]))
                return False
    return True


def check_constraints(rec, kind, sol, case, h_rev, wit):
    from vf import irinterp, refsem
    ctx = case.ctx
    import z3
    try:
        # is_satisfiable is 'self._solver.check() == z3.sat'; the same query on a private solver with a
        # time limit, so that a hard bit-vector query (64-bit products) ends as 'unknown' (counted, never
        # a verdict).  The assertions are read before any check(): afterwards z3 may return them
        # preprocessed (solved equalities eliminated).
        assertions = list(sol._solver.assertions())
        mine = z3.Solver()
        mine.set("timeout", Z3_TIMEOUT_MS)
        mine.add(*assertions)
        answer = mine.check()
    except Exception as exc:
        rec.fail("implicit: is_satisfiable raises %s" % type(exc).__name__, repr(exc), wit)
        return
    if answer == z3.unknown:
        rec.count("implicit_sat_unknown")
        sat = None
    else:
        sat = (answer == z3.sat)
        rec.count("implicit_sat" if sat else "implicit_unsat")
    for k in range(N_INPUTS):
        env0 = case.inputs[k]
        base = dict(env0.ids)
        e_run = refsem.Env(ids=dict(base), seed=env0.seed, locs=case.locmap)
        r = irinterp.run(case.ircfg, ctx.loc_db, h_rev[0], e_run, max_steps=400)
        if r.status != "exit":
            rec.count("skip_concrete_" + r.status)
            continue
        follows = r.path[:len(h_rev)] == list(h_rev)
        e_eval = refsem.Env(ids=dict(base), seed=env0.seed, locs=case.locmap)
        try:
            holds = z3_holds(assertions, e_eval, case.regs_by_name)
        except Exception as exc:
            rec.count("skip_z3_eval_%s" % type(exc).__name__)
            continue
        if holds is None:
            rec.count("skip_constraints_not_reduced")
            continue
        rec.count(("inputs_follow:" if follows else "inputs_leave:") + kind)
        w = None
        if holds != follows or (follows and sat is False):
            w = dict(wit, regs={str(a): hex(b) for a, b in base.items()}, mem_seed=env0.seed,
                     history=[str(l) for l in h_rev], concrete_path=[str(l) for l in r.path],
                     constraints=[common.short(a, 400) for a in assertions])
        if w is not None and holds != follows and narrowed_constraints(
                case, sol, h_rev, lambda: refsem.Env(ids=dict(base), seed=env0.seed, locs=case.locmap), follows):
            rec.fail("apply_simp rewrites a slice of a memory read into a narrower read, the word-wide "
                     "store is no longer matched syntactically",
                     "implicit: path constraints are %s while the execution %s the history %s; the constraints "
                     "obtained with apply_simp=False agree with the execution" % (
                         holds, "follows" if follows else "leaves", [str(l) for l in h_rev]), w)
            return
        if holds and not follows:
            rec.fail("implicit: path constraints hold but the execution leaves the history",
                     "history %s, concrete path %s" % ([str(l) for l in h_rev], [str(l) for l in r.path]), w)
            return
        if follows and not holds:
            rec.fail("implicit: execution follows the history but the path constraints are false",
                     "history %s" % [str(l) for l in h_rev], w)
            return
        if follows and sat is False:
            rec.fail("implicit: is_satisfiable is False for a history a concrete input follows",
                     "history %s" % [str(l) for l in h_rev], w)
            return
        rec.count("constraints_agree:" + kind)


def make_case(rng, ctx, ircfg):
    from vf import irgen
    case = Case()
    case.ctx, case.ircfg = ctx, ircfg
    case.locmap = irgen.LocMap(ctx.loc_db)
    case.exit_loc = ctx.loc_db.add_location()
    case.regs_by_name = {r.name: r for r in ctx.lifter.arch.regs.all_regs_ids}
    case.envs = [irgen.initial_state(rng, ctx, seed=rng.getrandbits(30)) for _ in range(N_VAL)]
    case.inputs = [irgen.initial_state(rng, ctx, seed=rng.getrandbits(30)) for _ in range(N_INPUTS)]
    return case


def run_targets(rec, rng, case, locs, head, pool, kind, base_wit, shape_key):
    """random targets (block, line, elements); every solution of the three dependency graphs"""
    import itertools
    from miasm.analysis.depgraph import DependencyGraph
    ctx, ircfg = case.ctx, case.ircfg
    for t in range(rng.choice([2, 3, 4])):
        tb = rng.randrange(len(locs)) if rng.random() < 0.5 else len(locs) - 1 - rng.randrange(min(2, len(locs)))
        blk = ircfg.blocks[locs[tb]]
        case.line_nb = rng.choice([len(blk), len(blk), len(blk) - 1, rng.randrange(0, len(blk) + 1)])
        case.elements = set(rng.sample(pool, rng.choice([1, 1, 2])))
        heads = set([head])
        case.target_loc, case.heads = locs[tb], heads
        for mode in ("explicit", "explicit-nosimp", "implicit"):
            rec.ev()
            rec.distinct("%s|%d|%d|%s|%s" % (shape_key, tb, case.line_nb, sorted(map(str, case.elements)), mode))
            wit = dict(base_wit, mode=mode, head=str(head),
                       target=dict(block=str(locs[tb]), line_nb=case.line_nb,
                                   elements=sorted(map(str, case.elements))))
            tag = "%s:%s" % (kind, mode)
            try:
                dg = DependencyGraph(ircfg, implicit=(mode == "implicit"), apply_simp=(mode != "explicit-nosimp"))
                sols = list(itertools.islice(dg.get(locs[tb], set(case.elements), case.line_nb, heads),
                                             MAX_SOLUTIONS))
            except Exception as exc:
                rec.fail("%s: DependencyGraph.get raises %s" % (mode, type(exc).__name__), repr(exc), wit)
                continue
            rec.count("targets:" + tag)
            if not sols:
                rec.count("targets_without_solution:" + tag)
            for sol in sols:
                rec.count("solutions:" + tag)
                try:
                    if sol.has_loop:
                        rec.count("skip_has_loop")
                        continue
                    unresolved = sol.unresolved
                    h_rev = list(sol.history[::-1])
                    res = sol.emul(ctx.lifter)
                except NotImplementedError as exc:
                    if mode == "implicit" and "Unsupported OP yet: call_" in str(exc):
                        # the z3 translator does not model call operators: a path condition that depends
                        # on a call result cannot be expressed (documented limit, not a wrong slice)
                        rec.count("implicit_condition_on_call_unsupported")
                        continue
                    rec.fail("%s: emul raises %s" % (mode, type(exc).__name__), repr(exc), wit)
                    continue
                except Exception as exc:
                    rec.fail("%s: emul raises %s" % (mode, type(exc).__name__), repr(exc), wit)
                    continue
                if unresolved:
                    rec.count("solutions_with_free_inputs:" + tag)
                if len(h_rev) > 1:
                    rec.count("solutions_multi_block:" + tag)
                if h_rev[-1] != locs[tb]:
                    rec.fail("%s: history does not end at the target block" % mode, str(sol.history), wit)
                    continue
                ok = check_values(rec, mode, kind, sol, res, case, h_rev, wit)
                if ok and mode == "implicit":
                    check_constraints(rec, kind, sol, case, h_rev, wit)


def one_graph(rec, rng, ctxs, i):
    from vf import exprgen
    from vf.models import c39_depgraph as G
    ctx = ctxs[i % len(ctxs)]
    gen = G.DGGen(rng, ctx)
    succs = G.gen_dag(rng)
    ircfg, locs = G.build(rng, ctx, gen, succs)
    rec.count("graphs")
    rec.count("blocks", len(locs))
    if any(len([t for t in s if t != "exit"]) == 2 for s in succs):
        rec.count("graphs_with_branch")
    indeg = {}
    for s in succs:
        for t in s:
            if t != "exit":
                indeg[t] = indeg.get(t, 0) + 1
    if any(v > 1 for v in indeg.values()):
        rec.count("graphs_with_join")
    if any("call_func_ret" in str(src) for lk in locs for ab in ircfg.blocks[lk] for src in ab.values()):
        rec.count("graphs_with_call_operator")
    case = make_case(rng, ctx, ircfg)
    blocks_w = [fmt_block(ircfg.blocks[l]) for l in locs]
    shape_key = "|".join(";".join(sorted("%s<-%s" % (str(d) if d.is_id() else "M", exprgen.shape(s))
                                         for ab in ircfg.blocks[lk] for d, s in ab.items())) for lk in locs)
    pool = gen.pure + [gen.derived] + ctx.flags
    # memory cells as elements: only cells addressed through never-assigned pointers or constants (the
    # address of a target element itself is not tracked by the dependency graph)
    mems = []
    for lk in locs:
        for ab in ircfg.blocks[lk]:
            for d in ab:
                if d.is_mem() and gen.derived not in d.ptr.get_r() and d not in mems:
                    mems.append(d)
    pool = pool + mems[:4]
    if mems:
        rec.count("graphs_with_memory_elements")
    run_targets(rec, rng, case, locs, locs[0], pool, "random",
                dict(kind="random-ir", machine=ctx.machine.name, shape=succs, blocks=blocks_w), shape_key)
    if i % 10 == 0:
        rec.sample(dict(shape=succs, blocks=blocks_w[:2]), limit=3)


def one_lifted(rec, rng, i):
    from vf.models import c39_depgraph as G
    text = G.gen_asm(rng)
    try:
        ctx, ircfg, head = G.lift_asm(text)
    except Exception as exc:
        rec.count("lifted_rejected_%s" % type(exc).__name__)    # assembler / lifter business (C14, C15)
        return
    rec.count("lifted_programs")
    locs = sorted(ircfg.blocks, key=lambda lk: (ctx.loc_db.get_location_offset(lk) is None,
                                                ctx.loc_db.get_location_offset(lk) or 0, str(lk)))
    rec.count("lifted_blocks", len(locs))
    case = make_case(rng, ctx, ircfg)
    regs = ctx.lifter.arch.regs
    pool = [regs.EAX, regs.ECX, regs.EDX, regs.EBX, regs.zf, regs.cf, regs.nf, regs.of]
    run_targets(rec, rng, case, locs, head, pool, "lifted",
                dict(kind="lifted x86_32", asm=text, blocks=[fmt_block(ircfg.blocks[l]) for l in locs]), "L|" + text)
    if i % 5 == 0:
        rec.sample(dict(asm=text), limit=2)


def run_shard(params, rec):
    common.quiet()
    from vf import irgen
    rng = common.rng_for(params)
    from vf.models import cpulimit
    cpulimit.install()
    ctxs = [irgen.Ctx("x86_32"), irgen.Ctx("x86_64")]
    for i in range(params["n"]):
        try:
            with cpulimit.cpu_limit(CASE_CPU_SECONDS):
                one_graph(rec, rng, ctxs, i)
        except cpulimit.CpuTimeout:
            rec.count("case_cpu_timeout")       # never a verdict; see floors
    for i in range(params.get("n_lift", 0)):
        try:
            with cpulimit.cpu_limit(CASE_CPU_SECONDS):
                one_lifted(rec, rng, i)
        except cpulimit.CpuTimeout:
            rec.count("case_cpu_timeout")


def floors(tier, counters, evaluations):
    miss = []
    g = max(1, counters.get("graphs", 0))
    lp = max(1, counters.get("lifted_programs", 0))
    if counters.get("case_cpu_timeout", 0) > 0.01 * (g + lp):
        miss.append("more than 1%% of the cases ran out of CPU time (%d)" % counters.get("case_cpu_timeout", 0))
    for mode in ("explicit", "explicit-nosimp", "implicit"):
        if counters.get("solutions:random:" + mode, 0) < 2 * g:
            miss.append("%s: fewer than 2 solutions per random graph" % mode)
        if counters.get("values_compared:random:" + mode, 0) < 8 * g:
            miss.append("%s: fewer than 8 value comparisons per random graph" % mode)
        if counters.get("solutions_multi_block:random:" + mode, 0) < g:
            miss.append("%s: fewer than one multi-block history per random graph" % mode)
        if counters.get("values_compared:lifted:" + mode, 0) < 4 * lp:
            miss.append("%s: fewer than 4 value comparisons per lifted program" % mode)
    if counters.get("inputs_follow:random", 0) < g:
        miss.append("implicit: fewer than one concrete input per random graph follows its history")
    if counters.get("inputs_leave:random", 0) < g:
        miss.append("implicit: fewer than one concrete input per random graph leaves its history")
    if counters.get("inputs_follow:lifted", 0) + counters.get("inputs_leave:lifted", 0) < 2 * lp:
        miss.append("implicit: fewer than two constraint evaluations per lifted program")
    if counters.get("graphs_with_call_operator", 0) < 0.15 * g:
        miss.append("fewer than 15% of the random graphs contain a modelled call operator")
    if counters.get("graphs_with_join", 0) < 0.2 * g:
        miss.append("fewer than 20% of the random graphs have a join")
    if counters.get("lifted_programs", 0) < 0.5 * (counters.get("lifted_programs", 0) + sum(
            v for k, v in counters.items() if k.startswith("lifted_rejected_"))):
        miss.append("more than half of the assembly programs were rejected")
    return miss
