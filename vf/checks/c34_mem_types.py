"""C34 typed memory views read back what they write and stay in bounds.

A random type tree (Struct/Union/Array/BitField/Ptr/Num, anonymous members, both
endiannesses; Str through pointers and standalone) is built twice: as miasm.core.types
Types and as an independent byte-level model (vf/models/c34_types.py).  The view is
placed in a real VmMngr page filled with random bytes; a mirror bytearray of the page is
kept.  After every write through the view API the model applies *its* idea of the write
to the mirror (field extent from model offsets, model encoding) and the whole page must
equal the mirror: a write that lands elsewhere, spills over the field, or is encoded
differently shows up as a page difference.  Then every leaf is read back through the views
and must equal the model's decoding of the mirror; sizeof/get_offset must equal the model.
"""
from vf import common

CHECK = dict(
    id="C34", level="exploration",
    rule=("random type definitions (top-level Struct of 1-6 members, nesting depth <= 3: Num with "
          "20 formats of both endiannesses incl. floats, Ptr to Num/Struct/Str/Self/Void, Struct, "
          "Union, sized Array, BitField, anonymous Struct/Union/BitField members; 30% of the struct names "
          "recur with other layouts inside one process) placed at a "
          "random address of a VmMngr page of random bytes; ~12 writes per type: leaf assignment "
          "by attribute / set_field / index / negative index / slice / whole-array list, whole "
          "aggregate copy, memset of a sub-view, cast_field, pointer value and deref writes, Str "
          "values of 5 encodings, out-of-bounds indexes; distinct = distinct (type description, "
          "operation, path); non-trivial = all"),
    assumptions=["the model in vf/models/c34_types.py (int.to_bytes, bit arithmetic, packed "
                 "struct layout as documented) is the meaning of a field's extent and encoding",
                 "VmMngr.get_mem/set_mem are a plain byte store on a mapped RW page (C24)"],
    timeout={"quick": 900, "thorough": 3400},
    exhaustive={"quick": False, "thorough": False},
    overlay="plain",
    crash_is_violation=True,
    technique="runtime monitoring: byte-level mirror of the VM page compared after every write",
)

PAGE = 0x40000
PAGE_SIZE = 0x3000
OBJ_LO, OBJ_HI = 0x200, 0x800          # the object under test lives here
AUX = 0x1000                            # second area: sources of copies, pointer targets


def shards(tier, seed, scale):
    per = 60 if tier == "quick" else 2000
    return common.mk_shards(16, seed, tier, per_shard=per, scale=scale)


def floors(tier, counters, evaluations):
    miss = []
    n = counters.get("types", 0)
    if n == 0:
        return ["no type generated"]
    for k in ("Struct", "Union", "Array", "BitField", "Ptr", "Num", "order:big", "order:little",
              "anonymous", "Str"):
        if counters.get("kind:" + k, 0) < 0.10 * n:
            miss.append("type constructor %s in %d of %d types (<10%%)" % (k, counters.get("kind:" + k, 0), n))
    for k in ("op:leaf_attr", "op:leaf_index", "op:slice", "op:array_list", "op:aggregate_copy",
              "op:memset", "op:bits", "op:ptr_deref_write", "op:str", "op:oob_index",
              "op:cast_field", "op:set_field"):
        if counters.get(k, 0) < 0.2 * n:
            miss.append("operation %s seen %d times for %d types" % (k, counters.get(k, 0), n))
    if counters.get("page_compared", 0) < 8 * n:
        miss.append("fewer than 8 page comparisons per type")
    return miss


class Ctx(object):
    pass


def run_shard(params, rec):
    common.quiet()
    from miasm.core import types as T
    from miasm.jitter.VmMngr import Vm
    from miasm.jitter.csts import PAGE_READ, PAGE_WRITE
    from vf.models import c34_types as M
    rng = common.rng_for(params)
    gen = M.Gen(rng, "S%d" % params.get("shard", 0))
    for i in range(params["n"]):
        vm = Vm()
        init = bytes(rng.getrandbits(8) for _ in range(PAGE_SIZE))
        vm.add_memory_page(PAGE, PAGE_READ | PAGE_WRITE, init, "c34")
        cx = Ctx()
        cx.T, cx.M, cx.vm, cx.rng, cx.rec = T, M, vm, rng, rec
        cx.mirror = bytearray(init)
        one_type(cx, gen)
        str_case(cx)


def page_check(cx, what, key_prefix, witness):
    got = cx.vm.get_mem(PAGE, PAGE_SIZE)
    cx.rec.count("page_compared")
    if got == bytes(cx.mirror):
        return True
    diff = [i for i in range(PAGE_SIZE) if got[i] != cx.mirror[i]]
    lo, hi = diff[0], diff[-1]
    w = dict(witness)
    w.update(first_diff=hex(PAGE + lo), last_diff=hex(PAGE + hi), ndiff=len(diff),
             memory=bytes(got[lo:hi + 1][:64]).hex(), model=bytes(cx.mirror[lo:hi + 1][:64]).hex())
    ext = witness.get("extent")
    if ext is not None and (PAGE + lo < ext[0] or PAGE + hi >= ext[1]):
        cls = "bytes outside the field extent changed"
    else:
        cls = "bytes inside the field extent differ from the model encoding"
    cx.rec.fail("%s: %s" % (key_prefix, cls), what, w)
    # resynchronise so that one defect is reported once per operation
    cx.mirror[:] = got
    return False


def step_get(view, step):
    if step[0] == "i":
        return view[step[1]]
    if step[2] >= 2:
        # member of an anonymous aggregate nested in an anonymous aggregate: no view attribute
        # is generated for it (reported once per type); the name based API knows it
        return view.get_field(step[1])
    return getattr(view, step[1])


def step_set(view, step, val):
    if step[0] == "i":
        view[step[1]] = val
    elif step[2] >= 2:
        view.set_field(step[1], val)
    else:
        setattr(view, step[1], val)


def navigate(view, path):
    """follow @path (all but the last step) through the views; returns (parent view, last step)"""
    for step in path[:-1]:
        view = step_get(view, step)
    return view, path[-1]


def read_leaf(view, path):
    parent, last = navigate(view, path)
    return step_get(parent, last)


def norm(val):
    """python value of a leaf as returned by the views"""
    if hasattr(val, "val") and hasattr(val, "get_addr"):
        return val.val          # MemPtr
    return val


def same_value(node, got, want):
    if getattr(node, "is_float", False):
        return got == want or (got != got and want != want)
    return got == want


def pstr(path):
    return "".join((".%s" % st[1]) if st[0] == "f" else ("[%d]" % st[1]) for st in path)


def one_type(cx, gen):
    M, rec = cx.M, cx.rec
    top = gen.struct(0)
    try:
        one_type_body(cx, gen, top)
    except RecursionError as exc:
        if M.self_ptr_in_union(top):
            rec.count("union_self_ptr_types")
            rec.fail("RecursionError: Union holding a pointer to Self (Union.__repr__/__eq__ follow the pointer)",
                     "%r for %s" % (exc, top.descr()[:600]), dict(type=top.descr()))
        else:
            rec.fail("RecursionError without a Self pointer in a Union", repr(exc), dict(type=top.descr()))


def one_type_body(cx, gen, top):
    T, M, rng, rec = cx.T, cx.M, cx.rng, cx.rec
    rec.count("types")
    ks = M.kinds(top)
    for k in ks:
        rec.count("kind:" + k)
    if "_:" in top.descr():
        rec.count("kind:anonymous")
    descr = top.descr()
    wit0 = dict(type=descr)
    try:
        ty = top.mk(T)
        View = ty.lval
    except RecursionError:
        raise
    except Exception as exc:
        if isinstance(exc, RecursionError):
            raise
        rec.fail("type construction raises %s" % type(exc).__name__, "%r for %s" % (exc, descr), wit0)
        return
    if top.size > OBJ_HI - OBJ_LO:
        rec.count("type_too_big_skipped")
        return
    base = PAGE + OBJ_LO + rng.randrange(0, OBJ_HI - OBJ_LO - top.size + 1)
    wit0["addr"] = hex(base)
    view = View(cx.vm, base)
    if len(rec.samples) < 3:
        rec.sample(dict(type=descr, size=top.size))

    # ---- sizes and offsets
    rec.ev()
    try:
        sizes = (ty.size, View.sizeof(), view.get_size(), len(view))
    except Exception as exc:
        if isinstance(exc, RecursionError):
            raise
        rec.fail("sizeof raises %s" % type(exc).__name__, repr(exc), wit0)
        return
    if any(s != top.size for s in sizes):
        rec.fail("sizeof differs from the model", "sizes %r, model %d for %s" % (sizes, top.size, descr), wit0)
    all_leaves = M.leaves(top)
    inner = M.inner_nodes(top)
    # view attributes of anonymous members
    hidden = sorted(set(p[0][1] for p, _, _ in all_leaves + inner if p[0][2] >= 2))
    for p, _, _ in all_leaves + inner:
        if p[0][0] == "f" and 1 <= p[0][2]:
            rec.count("anon_members_checked")
    missing = [n for n in hidden if not hasattr(type(view), n)]
    if missing:
        rec.fail("member of an anonymous aggregate nested in an anonymous aggregate has no view attribute",
                 "%s of %s: get_field/set_field know it, attribute access does not (assignment would only set "
                 "a python attribute)" % (missing, descr), wit0)
    exposed1 = sorted(set(p[0][1] for p, _, _ in all_leaves + inner if p[0][2] == 1))
    miss1 = [n for n in exposed1 if not hasattr(type(view), n)]
    if miss1:
        rec.fail("member of an anonymous aggregate has no view attribute", "%s of %s" % (miss1, descr), wit0)
    for step, child, off in top.children():
        try:
            got = ty.get_offset(step[1])
            got2 = view.get_addr(step[1]) - base
        except Exception as exc:
            if isinstance(exc, RecursionError):
                raise
            rec.fail("get_offset raises %s" % type(exc).__name__, "%r field %s" % (exc, step[1]), wit0)
            continue
        rec.count("offsets_checked")
        if got != off or got2 != off:
            rec.fail("get_offset differs from the model (%s member)" % child.kind,
                     "field %s: get_offset %r get_addr-base %r, model %d in %s" % (step[1], got, got2, off, descr),
                     wit0)
    for path, node, off in inner:
        try:
            sub = read_leaf(view, path)
            a, s = sub.get_addr(), sub.get_size()
        except Exception as exc:
            if isinstance(exc, RecursionError):
                raise
            rec.fail("sub-view raises %s (%s)" % (type(exc).__name__, node.kind),
                     "%r at %s" % (exc, pstr(path)), wit0)
            continue
        if a != base + off or s != node.size:
            rec.fail("sub-view address/size differs from the model (%s)" % node.kind,
                     "%s: addr %#x size %d, model %#x size %d" % (pstr(path), a, s, base + off, node.size), wit0)

    def check_all_reads(tag):
        for path, node, off in all_leaves:
            raw = cx.mirror[base + off - PAGE: base + off - PAGE + node.size]
            want = node.dec(raw)
            try:
                got = norm(read_leaf(view, path))
            except Exception as exc:
                if isinstance(exc, RecursionError):
                    raise
                rec.fail("read raises %s (%s leaf)" % (type(exc).__name__, node.kind),
                         "%r reading %s after %s" % (exc, pstr(path), tag), wit0)
                continue
            rec.count("leaf_reads")
            if not same_value(node, got, want):
                rec.fail("read differs from the bytes in memory (%s leaf)" % node.kind,
                         "%s reads %r, bytes %s decode to %r (after %s)" % (
                             pstr(path), got, bytes(raw).hex(), want, tag),
                         dict(wit0, path=pstr(path)))
    check_all_reads("creation")

    # ---- writes
    nops = 12
    for _ in range(nops):
        rec.ev()
        r = rng.random()
        rec.distinct("%s/%f" % (descr, r))
        try:
            if r < 0.40 and all_leaves:
                op_leaf(cx, view, base, top, all_leaves, wit0)
            elif r < 0.52:
                op_array(cx, view, base, inner, wit0)
            elif r < 0.62:
                op_aggregate(cx, view, base, ty, top, inner, wit0)
            elif r < 0.70:
                op_memset(cx, view, base, top, inner, wit0)
            elif r < 0.80:
                op_ptr(cx, view, base, top, all_leaves, wit0)
            elif r < 0.88:
                op_cast(cx, view, base, top, wit0)
            else:
                op_oob(cx, view, base, inner, wit0)
        except HarnessSkip:
            rec.count("op_skipped")
            continue
        check_all_reads("write")


class HarnessSkip(Exception):
    pass


def apply(cx, addr, raw):
    cx.mirror[addr - PAGE: addr - PAGE + len(raw)] = raw


def op_leaf(cx, view, base, top, all_leaves, wit0):
    rng, rec = cx.rng, cx.rec
    path, node, off = rng.choice(all_leaves)
    parent, last = navigate(view, path)
    val = node.rand(rng)
    addr = base + off
    old = bytes(cx.mirror[addr - PAGE: addr - PAGE + node.size])
    if node.kind == "Bits":
        new = node.enc_into(old, val)
        want = val & ((1 << node.nbits) - 1)
        rec.count("op:bits")
    else:
        new = node.enc(val)
        want = node.dec(new)
    how = "attr"
    wit = dict(wit0, op="leaf write", path=pstr(path), value=repr(val), leaf=node.descr(),
               extent=[addr, addr + node.size])
    try:
        if last[0] == "f":
            if last[2] >= 2 or (rng.random() < 0.3 and hasattr(parent, "set_field")):
                parent.set_field(last[1], val)
                how = "set_field"
                rec.count("op:set_field")
            else:
                setattr(parent, last[1], val)
                rec.count("op:leaf_attr")
        else:
            idx = last[1]
            if rng.random() < 0.3:
                idx = idx - parent.array_len       # negative index
                how = "negative index"
                rec.count("op:negative_index")
            parent[idx] = val
            rec.count("op:leaf_index")
    except Exception as exc:
        if isinstance(exc, RecursionError):
            raise
        rec.fail("leaf write raises %s (%s, %s)" % (type(exc).__name__, node.kind, how),
                 "%r writing %r to %s" % (exc, val, pstr(path)), wit)
        return
    apply(cx, addr, new)
    page_check(cx, "write of %r to %s (%s)" % (val, pstr(path), node.descr()),
               "leaf write (%s)" % node.kind, wit)
    try:
        got = norm(read_leaf(view, path))
    except Exception as exc:
        if isinstance(exc, RecursionError):
            raise
        rec.fail("read raises %s (%s leaf)" % (type(exc).__name__, node.kind), repr(exc), wit)
        return
    rec.count("roundtrips")
    if not same_value(node, got, want):
        rec.fail("read after write differs (%s leaf)" % node.kind,
                 "%s: wrote %r, read %r, expected %r" % (pstr(path), val, got, want), wit)


def arrays_of(inner):
    return [(p, n, o) for p, n, o in inner if n.kind == "Array"]


def elem_values(cx, elem):
    """a python value assignable to an array element of model type @elem and its encoding"""
    if elem.leaf and elem.kind != "Bits":
        v = elem.rand(cx.rng)
        return v, elem.enc(v)
    raise HarnessSkip()


def op_array(cx, view, base, inner, wit0):
    rng, rec = cx.rng, cx.rec
    arrs = [(p, n, o) for p, n, o in arrays_of(inner) if n.elem.leaf]
    if not arrs:
        raise HarnessSkip()
    path, node, off = rng.choice(arrs)
    arr = read_leaf(view, path)
    addr = base + off
    es = node.elem.size
    if rng.random() < 0.5:
        # whole array assignment with a list, through the parent
        vals = [elem_values(cx, node.elem) for _ in range(node.n)]
        parent, last = navigate(view, path)
        wit = dict(wit0, op="array list assignment", path=pstr(path), values=repr([v for v, _ in vals]),
                   extent=[addr, addr + node.size])
        rec.count("op:array_list")
        try:
            step_set(parent, last, [v for v, _ in vals])
        except Exception as exc:
            if isinstance(exc, RecursionError):
                raise
            rec.fail("array list assignment raises %s" % type(exc).__name__, repr(exc), wit)
            return
        apply(cx, addr, b"".join(e for _, e in vals))
        page_check(cx, "list assignment to %s" % pstr(path), "array list assignment", wit)
        return
    # slice assignment and read
    a = rng.randint(0, node.n)
    b = rng.randint(a, node.n)
    forms = [(a, b, slice(a, b))]
    if b == node.n:
        forms.append((a, b, slice(a, None)))
    if a == 0:
        forms.append((a, b, slice(None, b)))
    if 0 < b < node.n:
        forms.append((a, b, slice(a, b - node.n)))
    a, b, sl = rng.choice(forms)
    step = 1
    if b - a >= 2 and rng.random() < 0.3:
        # extended slice: every 2nd / 3rd element; the elements in between keep their bytes
        step = rng.choice([2, 3])
        sl = slice(sl.start, sl.stop, step)
    idxs = list(range(a, b, step))
    vals = [elem_values(cx, node.elem) for _ in idxs]
    cls = "open stop" if sl.stop is None else ("stop = len" if sl.stop == node.n else
                                               ("negative stop" if (sl.stop or 0) < 0 else "inner"))
    wit = dict(wit0, op="slice assignment", path=pstr(path), slice=repr(sl), array_len=node.n,
               elem=node.elem.descr(), extent=[addr + a * es, addr + b * es])
    rec.count("op:slice")
    rec.count("slice:" + cls)
    if step != 1:
        cls += ", step %d" % step
        rec.count("slice:stepped")
    try:
        arr[sl] = [v for v, _ in vals]
    except Exception as exc:
        if isinstance(exc, RecursionError):
            raise
        rec.fail("slice assignment raises %s (%s%s)" % (
            type(exc).__name__, cls, "" if cls == "open stop" else (", 1-byte elements" if es == 1 else
                                                                     ", multi-byte elements")),
                 "%r for %s[%r] of length %d" % (exc, pstr(path), sl, node.n), wit)
        return
    for i_, (_, e_) in zip(idxs, vals):
        apply(cx, addr + i_ * es, e_)
    page_check(cx, "slice assignment %s[%r]" % (pstr(path), sl), "slice assignment", wit)
    try:
        got = [norm(x) for x in arr[sl]]
    except Exception as exc:
        if isinstance(exc, RecursionError):
            raise
        rec.fail("slice read raises %s (%s)" % (type(exc).__name__, cls), repr(exc), wit)
        return
    want = [node.elem.dec(e) for _, e in vals]
    if len(got) != len(want) or not all(same_value(node.elem, g, w) for g, w in zip(got, want)):
        rec.fail("slice read differs from what was written", "%r vs %r" % (got, want), wit)


def op_aggregate(cx, view, base, ty, top, inner, wit0):
    """copy a whole aggregate from another instance of the same type"""
    rng, rec = cx.rng, cx.rec
    cands = [(p, n, o) for p, n, o in inner if n.kind in ("Struct", "Union", "Array", "BitField")]
    if not cands:
        raise HarnessSkip()
    path, node, off = rng.choice(cands)
    parent, last = navigate(view, path)
    sub = read_leaf(view, path)
    src_addr = PAGE + AUX + rng.randrange(0, 0x400)
    try:
        src = type(sub)(cx.vm, src_addr)
    except Exception as exc:
        if isinstance(exc, RecursionError):
            raise
        rec.fail("view construction raises %s (%s)" % (type(exc).__name__, node.kind), repr(exc), wit0)
        return
    raw = bytes(cx.mirror[src_addr - PAGE: src_addr - PAGE + node.size])
    addr = base + off
    wit = dict(wit0, op="aggregate copy", path=pstr(path), kind=node.kind, extent=[addr, addr + node.size])
    rec.count("op:aggregate_copy")
    try:
        if node.kind == "BitField":
            # a BitField member is assigned its backing number (BitField.set takes a number)
            num = node.num.dec(raw)
            step_set(parent, last, num)
        else:
            step_set(parent, last, src)
    except Exception as exc:
        if isinstance(exc, RecursionError):
            raise
        rec.fail("aggregate assignment raises %s (%s)" % (type(exc).__name__, node.kind),
                 "%r assigning %s" % (exc, pstr(path)), wit)
        return
    apply(cx, addr, raw)
    page_check(cx, "copy of a %s into %s" % (node.kind, pstr(path)), "aggregate copy (%s)" % node.kind, wit)


def op_memset(cx, view, base, top, inner, wit0):
    rng, rec = cx.rng, cx.rec
    cands = [((), top, 0)] + list(inner)
    path, node, off = rng.choice(cands)
    sub = read_leaf(view, path) if path else view
    byte = bytes([rng.getrandbits(8)])
    addr = base + off
    wit = dict(wit0, op="memset", path=pstr(path), kind=node.kind, extent=[addr, addr + node.size])
    rec.count("op:memset")
    try:
        sub.memset(byte)
    except Exception as exc:
        if isinstance(exc, RecursionError):
            raise
        rec.fail("memset raises %s (%s)" % (type(exc).__name__, node.kind), repr(exc), wit)
        return
    apply(cx, addr, byte * node.size)
    page_check(cx, "memset of %s" % (pstr(path) or "<top>"), "memset (%s)" % node.kind, wit)


def op_ptr(cx, view, base, top, all_leaves, wit0):
    rng, rec, M = cx.rng, cx.rec, cx.M
    ptrs = [(p, n, o) for p, n, o in all_leaves if n.kind == "Ptr"]
    if not ptrs:
        raise HarnessSkip()
    path, node, off = rng.choice(ptrs)
    parent, last = navigate(view, path)
    addr = base + off
    bits = 8 * node.size
    if bits < 32:
        target = (PAGE + AUX + 0x800 + rng.randrange(0, 0x300)) & ((1 << bits) - 1)
    else:
        target = PAGE + AUX + 0x800 + rng.randrange(0, 0x300)
    wit = dict(wit0, op="pointer", path=pstr(path), ptr=node.descr(), target=hex(target),
               extent=[addr, addr + node.size])
    # numeric value, by int or by MemPtr
    try:
        if rng.random() < 0.3:
            mp = read_leaf(view, path)
            mp.val = target
        else:
            step_set(parent, last, target)
    except Exception as exc:
        if isinstance(exc, RecursionError):
            raise
        rec.fail("pointer write raises %s" % type(exc).__name__, repr(exc), wit)
        return
    rec.count("op:ptr_value")
    apply(cx, addr, node.enc(target))
    if not page_check(cx, "pointer value write at %s" % pstr(path), "pointer value write", wit):
        return
    if bits < 32:
        return       # target not mapped
    try:
        mp = read_leaf(view, path)
        if mp.val != target:
            rec.fail("pointer value read differs", "%r vs %#x" % (mp.val, target), wit)
            return
        if node.dst_kind == "void":
            mp.deref
            return
        tgt = mp.deref
    except Exception as exc:
        if isinstance(exc, RecursionError):
            raise
        rec.fail("pointer deref raises %s (%s)" % (type(exc).__name__, node.dst_kind), repr(exc), wit)
        return
    if tgt.get_addr() != target:
        rec.fail("deref view is not at the pointer value", "%#x vs %#x" % (tgt.get_addr(), target), wit)
        return
    rec.count("op:ptr_deref")
    if node.dst_kind == "str":
        s = rand_str(rng, node.dst)
        write_str(cx, tgt, target, s, node.dst, dict(wit, op="Str through pointer"))
        return
    dnode = node.dst
    # deref write: copy another instance
    src_addr = PAGE + AUX + rng.randrange(0, 0x300)
    raw = bytes(cx.mirror[src_addr - PAGE: src_addr - PAGE + dnode.size])
    wit2 = dict(wit, op="deref write", extent=[target, target + dnode.size])
    try:
        if dnode.leaf:
            v = dnode.rand(rng)
            tgt.val = v
            raw = dnode.enc(v)
        else:
            src = type(tgt)(cx.vm, src_addr)
            mp.deref = src
    except Exception as exc:
        if isinstance(exc, RecursionError):
            raise
        rec.fail("deref write raises %s (%s)" % (type(exc).__name__, node.dst_kind), repr(exc), wit2)
        return
    rec.count("op:ptr_deref_write")
    apply(cx, target, raw)
    page_check(cx, "write through %s" % pstr(path), "deref write (%s)" % node.dst_kind, wit2)
    if not dnode.leaf and tgt.get_size() != dnode.size:
        rec.fail("deref view size differs from the model", "%d vs %d" % (tgt.get_size(), dnode.size), wit2)


def op_cast(cx, view, base, top, wit0):
    rng, rec, T, M = cx.rng, cx.rec, cx.T, cx.M
    named = [(s, c, o) for s, c, o in top.children()]
    if not named:
        raise HarnessSkip()
    step, child, off = rng.choice(named)
    num = M.MNum(rng.choice(["B", "<H", ">I", "<Q", ">h"]))
    addr = base + off
    wit = dict(wit0, op="cast_field", field=step[1], cast_to=num.descr(), extent=[addr, addr + num.size])
    rec.count("op:cast_field")
    try:
        cv = view.cast_field(step[1], T.Num(num.fmt))
        v = num.rand(rng)
        cv.val = v
    except Exception as exc:
        if isinstance(exc, RecursionError):
            raise
        rec.fail("cast_field raises %s" % type(exc).__name__, repr(exc), wit)
        return
    if cv.get_addr() != addr:
        rec.fail("cast_field view is not at the field address", "%#x vs %#x" % (cv.get_addr(), addr), wit)
    apply(cx, addr, num.enc(v))
    page_check(cx, "write through cast_field(%s)" % step[1], "cast_field write", wit)
    if cv.val != num.dec(num.enc(v)):
        rec.fail("cast_field read after write differs", "%r vs %r" % (cv.val, v), wit)


def op_oob(cx, view, base, inner, wit0):
    """indexes outside a sized array must be refused, not written next to the array"""
    rng, rec = cx.rng, cx.rec
    arrs = [(p, n, o) for p, n, o in arrays_of(inner) if n.elem.leaf and n.elem.kind != "Bits"]
    if not arrs:
        raise HarnessSkip()
    path, node, off = rng.choice(arrs)
    arr = read_leaf(view, path)
    es = node.elem.size
    idx = rng.choice([node.n, node.n + 1, node.n * es - 1 if node.n * es - 1 >= node.n else node.n,
                      node.n * es, -node.n - 1])
    v, enc = elem_values(cx, node.elem)
    addr = base + off
    cls = "negative" if idx < 0 else ("len <= index < byte size" if idx < node.n * es else "index >= byte size")
    wit = dict(wit0, op="out-of-bounds index", path=pstr(path), index=idx, array_len=node.n,
               elem=node.elem.descr(), extent=[addr, addr + node.size])
    rec.count("op:oob_index")
    try:
        arr[idx] = v
    except (IndexError, ValueError):
        rec.count("oob_refused")
        page_check(cx, "refused index %d" % idx, "refused out-of-bounds index", wit)
        return
    except Exception as exc:
        if isinstance(exc, RecursionError):
            raise
        rec.fail("out-of-bounds index raises %s" % type(exc).__name__, repr(exc), wit)
        return
    # accepted: the write must at least stay inside the array (it cannot)
    got = cx.vm.get_mem(PAGE, PAGE_SIZE)
    cx.rec.count("page_compared")
    if got != bytes(cx.mirror):
        rec.fail("array index outside [0, array_len) is written outside the array (%s)" % cls,
                 "%s[%d] = %r accepted for an array of %d elements of %d bytes" % (pstr(path), idx, v, node.n, es),
                 wit)
        cx.mirror[:] = got
    else:
        rec.count("oob_accepted_noop")


ENC = {"ascii": "ascii", "latin1": "latin1", "ansi": "latin1", "utf8": "utf8", "utf16": "utf-16le"}


def rand_str(rng, enc):
    if enc == "ascii":
        alpha = "abcXYZ 019~!"
    elif enc in ("latin1", "ansi"):
        alpha = "abc\xe9\xff\xa0 Z"
    else:
        alpha = "ab\xe9Ā€中\U0001f600 z"
    return "".join(rng.choice(alpha) for _ in range(rng.randint(0, 12)))


def write_str(cx, mstr, addr, s, enc, wit):
    rec = cx.rec
    raw = s.encode(ENC[enc]) + "\x00".encode(ENC[enc])
    wit = dict(wit, string=s, encoding=enc, extent=[addr, addr + len(raw)])
    rec.count("op:str")
    rec.count("str:" + enc)
    try:
        mstr.val = s
    except Exception as exc:
        if isinstance(exc, RecursionError):
            raise
        rec.fail("Str write raises %s (%s)" % (type(exc).__name__, enc), repr(exc), wit)
        return
    apply(cx, addr, raw)
    if not page_check(cx, "Str %r (%s) at %#x" % (s, enc, addr), "Str write (%s)" % enc, wit):
        return
    try:
        got, size = mstr.val, mstr.get_size()
        vsize = mstr.get_type().value_size(s)
    except Exception as exc:
        if isinstance(exc, RecursionError):
            raise
        rec.fail("Str read raises %s (%s)" % (type(exc).__name__, enc), repr(exc), wit)
        return
    if got != s:
        rec.fail("Str read after write differs (%s)" % enc, "%r vs %r" % (got, s), wit)
    if size != len(raw) or vsize != len(raw):
        rec.fail("Str size differs from the bytes written (%s)" % enc,
                 "get_size %d value_size %d, %d bytes written" % (size, vsize, len(raw)), wit)


def str_case(cx):
    T, rng, rec = cx.T, cx.rng, cx.rec
    rec.count("kind:Str")
    for _ in range(2):
        rec.ev()
        enc = rng.choice(sorted(ENC))
        addr = PAGE + 0x2000 + rng.randrange(0, 0x800)
        try:
            ms = T.Str(enc).lval(cx.vm, addr)
        except Exception as exc:
            if isinstance(exc, RecursionError):
                raise
            rec.fail("Str view construction raises %s" % type(exc).__name__, repr(exc), dict(encoding=enc))
            continue
        write_str(cx, ms, addr, rand_str(rng, enc), enc, dict(op="standalone Str", addr=hex(addr)))
