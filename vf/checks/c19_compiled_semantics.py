"""C19 ARM / Thumb / AArch64 / MIPS32 / PowerPC semantics -- weaker oracle.

No reference CPU emulator exists in the sandbox (DESIGN.md C19).  What is
observed instead: UB-free C functions (vf/models/c19_cgen.py) are compiled by
clang-14 for each target and the machine code is run under miasm (ABI argument
registers, mapped stack, breakpoint on the return address); the same source is
compiled by the host gcc and called through ctypes.  Return values and the
typed output arrays must agree.

On a disagreement the function is reduced (statements are disabled one by one
while the disagreement persists): the key names the target and the catalogue
operations that remain, the witness carries the reduced source, the input and
the disassembly.
"""
import os

from vf import common

CHECK = dict(
    id="C19", level="exploration",
    rule=("generated UB-free C functions (6-10 statements drawn from a catalogue of ~150 named integer "
          "operations: arithmetic, shifts/rotates, bswap/clz/ctz, guarded division, wide multiplies, "
          "bit-field extract/insert, selects, saturation, bounded loops, typed loads/stores, 64-bit "
          "arithmetic on 32-bit targets, 128-bit comparisons and carry chains on AArch64) x 6 targets (ARM, Thumb-2, AArch64, MIPS32 BE/LE, PowerPC) x "
          "{-O0,-O1,-O2,-Os} x boundary+random inputs; distinct = distinct (target, opt level, sorted "
          "operation names); non-trivial = the function ran to its return under miasm and was compared"),
    assumptions=["clang-14 and gcc generate correct code for defined C",
                 "the generated C has no undefined or implementation-divergent behaviour",
                 "weaker than the property: only instructions clang emits and results that reach memory or the return value are observed",
                 "a function with a branch whose delay slot miasm cannot decode is an unsupported input"],
    timeout={"quick": 1500, "thorough": 7000},
    exhaustive={"quick": False, "thorough": False},
    overlay="plain",
    technique="runtime monitoring: differential execution of compiler output (miasm) against native execution of the same source",
    level_text="exploration with a weaker oracle: compiled-code differential instead of a reference emulator",
    level_note="trusted: clang/gcc code generation, the C generator's UB-freedom, the ELF reader and ABI set-up of the harness",
)

MAX_REPORTS = 3
TARGETS = ["arm", "thumb", "aarch64", "mips", "mipsel", "ppc"]
OPTS = ["-O0", "-O1", "-O2", "-Os"]
QUICK = dict(funcs=20, inputs=4, levels=1, gcc_funcs=0, nst=(5, 9))
THOROUGH = dict(funcs=160, inputs=5, levels=2, gcc_funcs=8, nst=(5, 11))


def shards(tier, seed, scale):
    cfg = dict(QUICK if tier == "quick" else THOROUGH)
    cfg["funcs"] = max(4, int(cfg["funcs"] * scale))
    cfg["gcc_funcs"] = int(cfg["gcc_funcs"] * scale) if cfg["gcc_funcs"] else 0
    return [dict(seed=seed, shard=i, tier=tier, hashseed=0, cfg=cfg) for i in range(16)]


B32 = [0, 1, 2, 3, 0x7f, 0x80, 0xff, 0x100, 0x7fff, 0x8000, 0xffff, 0x10000, 0x7fffffff, 0x80000000,
       0x80000001, 0xfffffffe, 0xffffffff, 0x55555555, 0xaaaaaaaa, 31, 32, 33, 63, 64]


def gen_input(rng):
    def v32():
        k = rng.random()
        if k < 0.4:
            return rng.choice(B32)
        if k < 0.5:
            return rng.getrandbits(5)
        return rng.getrandbits(32)

    def v(bits):
        k = rng.random()
        if k < 0.3:
            return rng.choice([0, 1, (1 << (bits - 1)) - 1, 1 << (bits - 1), (1 << bits) - 1, (1 << bits) - 2])
        return rng.getrandbits(bits)
    mem = dict(q=[v(64) for _ in range(8)], w=[v(32) for _ in range(16)], h=[v(16) for _ in range(16)],
               b=[v(8) for _ in range(32)])
    return (v32(), v32(), v32(), mem)


def run_shard(params, rec):
    common.quiet()
    from vf.models import c19_run as R
    from vf.models.c19_cgen import CGen, HEADER
    rng = common.rng_for(params)
    cfg = params["cfg"]
    workdir = os.environ.get("TMPDIR") or "/var/tmp"
    tag = "s%d" % params["shard"]
    gen = CGen(rng)
    CH = 14         # functions per translation unit
    guests = {}

    def guest(target, backend):
        k = (target, backend)
        if k not in guests:
            guests[k] = R.Guest(target, backend)
        return guests[k]

    serial = [0]

    def build(funcs, name, targets_opts):
        """compile a TU for the host and for every (target, opt): -> host, {(target,opt): elf functions}
        (every shared object gets a fresh path: dlopen() returns the already loaded image for a known path)"""
        serial[0] += 1
        base = os.path.join(workdir, "%s_%d_%s" % (tag, serial[0], name))
        src = base + ".c"
        with open(src, "w") as fd:
            fd.write(HEADER + "".join(funcs))
        so = base + ".so"
        R.host_compile(src, so)
        host = R.Host(so)
        os.unlink(so)
        objs = {}
        for (t, o) in targets_opts:
            obj = "%s_%s%s.o" % (base, t, o)
            R.cross_compile(src, t, o, obj)
            objs[(t, o)] = R.read_elf_functions(obj)
            os.unlink(obj)
        os.unlink(src)
        return host, objs

    nfun = 0
    nrep = {}
    chunk_id = 0
    gcc_left = cfg["gcc_funcs"]
    while nfun < cfg["funcs"]:
        n = min(CH, cfg["funcs"] - nfun)
        funcs = []
        for i in range(n):
            f = gen.function("f%d" % (nfun + i), rng.randrange(*cfg["nst"]),
                             allow64ops=(rng.random() < 0.25))
            funcs.append(f)
        nfun += n
        chunk_id += 1
        # opt levels used by this chunk
        levels = rng.sample(OPTS, cfg["levels"])
        tos = [(t, o) for t in TARGETS for o in levels]
        try:
            host, objs = build([f.source() for f in funcs], "c%d" % chunk_id, tos)
        except R.ToolError as exc:
            rec.count("tool_error")
            rec.extra.setdefault("tool_error", str(exc)[-400:])
            continue
        for f in funcs:
            inputs = [gen_input(rng) for _ in range(cfg["inputs"])]
            wants = [host.call(f.name, f.ret == 64, a, b, c, mem) for (a, b, c, mem) in inputs]
            for (t, o) in tos:
                if f.only64 and R.TARGETS[t]["bits"] != 64:
                    continue
                ef = objs[(t, o)].get(f.name)
                rec.count("functions:%s" % t)
                if ef is None:
                    rec.count("rejected:no_section:%s" % t)
                    continue
                if not R.usable(t, ef):
                    rec.count("rejected:relocations:%s" % t)
                    continue
                backends = ["python"]
                if gcc_left > 0 and t == TARGETS[(nfun + chunk_id) % len(TARGETS)]:
                    backends.append("gcc")
                    gcc_left -= 1
                for bk in backends:
                    g = guest(t, bk)
                    bad = run_function(R, rec, g, t, o, bk, f, ef, inputs, wants)
                    if bad is not None:
                        nrep[t] = nrep.get(t, 0) + 1
                        if nrep[t] > MAX_REPORTS:
                            # the reducer costs compiler runs: later disagreements of the same
                            # target in this shard are only counted
                            rec.count("disagreements_not_reduced:%s" % t)
                        else:
                            report(R, rec, rng, build, guest, t, o, bk, f, bad, chunk_id, ef)
        del host
    for (t, bk), g in guests.items():
        pass


def run_function(R, rec, g, t, o, bk, f, ef, inputs, wants):
    """run all inputs; returns None (agree / unsupported) or (input, want, got)"""
    ret64 = f.ret == 64
    if g.undecodable_delay_slot(ef["code"]):
        # e.g. ROTRV (MIPS32r2) in the delay slot of a branch: not a decodable instruction sequence
        rec.count("unsupported:%s:undecodable_delay_slot" % t)
        rec.count("unsupported_total:%s" % t)
        return None
    for inp, want in zip(inputs, wants):
        a, b, c, mem = inp
        rec.ev()
        got = g.call(ef["code"], ef["entry"], ret64, a, b, c, mem)
        oc = got["outcome"]
        if oc.startswith("unsupported") or oc.startswith("raised:"):
            rec.count("unsupported:%s:%s" % (t, oc.split(":", 1)[1]))
            rec.count("unsupported_total:%s" % t)
            return None
        if oc != "ok":
            return (inp, want, got)
        if got["ret"] != want[0] or got["mem"] != want[1] or not got["sp_ok"]:
            return (inp, want, got)
        rec.count("compared:%s:%s" % (t, bk))
    # the whole function agreed on every input
    rec.count("agree:%s" % t)
    rec.count("opt:%s" % o)
    for name in g.executed_mnemonics():
        rec.count("mn:%s:%s" % (t, name))
    rec.distinct("%s/%s/%s" % (t, o, ",".join(sorted(set(f.ops())))))
    if len(rec.samples) < 3:
        rec.sample(dict(target=t, opt=o, ops=f.ops(), steps=got.get("steps")))
    return None


def describe(got, want):
    if got["outcome"] != "ok":
        return "%s (%s)" % (got["outcome"], got.get("detail"))
    parts = []
    if got["ret"] != want[0]:
        parts.append("return value miasm=0x%x native=0x%x" % (got["ret"], want[0]))
    if got["mem"] != want[1]:
        for k in sorted(want[1]):
            for i, (x, y) in enumerate(zip(got["mem"][k], want[1][k])):
                if x != y:
                    parts.append("m->%s[%d] miasm=0x%x native=0x%x" % (k, i, x, y))
                    break
    if not got.get("sp_ok", True):
        parts.append("stack pointer not restored")
    return "; ".join(parts[:4])


def report(R, rec, rng, build, guest, t, o, bk, f, bad, chunk_id, ef):
    """reduce the disagreeing function and record the failure"""
    inp, want, got = bad
    a, b, c, mem = inp
    enabled = set(range(len(f.stmts)))
    kind = "wrong result" if got["outcome"] == "ok" else got["outcome"].split(":")[0] + ":" + \
        got["outcome"].split(":", 1)[1]
    g = guest(t, bk)
    tries = 0
    last = dict(got=got, want=want, code=ef["code"])
    # values of every statement variable on the failing input (host execution of a traced copy):
    # a disabled statement is replaced by its value, so that only the operations whose *code*
    # matters remain after reduction
    try:
        thost, _ = build([f.source(None, "tr", trace=True)], "trace", [])
        consts = thost.trace("tr", a, b, c, mem, len(f.stmts))
    except R.ToolError:
        consts = None

    def failing_variants(variants, pin=False):
        """variants: list of sets of enabled statements; one TU holds them all.
        Returns the indexes of the variants that show the same kind of disagreement."""
        nonlocal tries
        tries += 1
        try:
            host, objs = build([f.source(en, "r%d" % k, consts, pin=pin) for k, en in enumerate(variants)], "red", [(t, o)])
        except R.ToolError:
            return []
        out = []
        for k, en in enumerate(variants):
            ef = objs[(t, o)].get("r%d" % k)
            if ef is None or not R.usable(t, ef):
                continue
            w = host.call("r%d" % k, f.ret == 64, a, b, c, mem)
            r = g.call(ef["code"], ef["entry"], f.ret == 64, a, b, c, mem)
            if got["outcome"] == "ok":
                failing = r["outcome"] == "ok" and (r["ret"] != w[0] or r["mem"] != w[1])
            else:
                failing = r["outcome"] == got["outcome"]
            if failing:
                out.append((k, r, w, ef["code"]))
        return out

    n = len(f.stmts)
    # round 0: the function itself (must still disagree once recompiled alone) and every single statement alone
    singles = [set([i]) for i in range(n)]
    res = failing_variants([set(enabled)] + singles)
    idx = {k: (r, w, code) for k, r, w, code in res}
    if 0 not in idx:
        rec.count("disagreement_not_reproduced_alone:%s" % t)
    single = [k for k in sorted(idx) if k > 0]
    pinned = False
    if not single and consts is not None:
        # every statement alone once more, with its operands kept alive across the operation
        res2 = failing_variants([set(enabled)] + singles, pin=True)
        idx2 = {k: (r, w, code) for k, r, w, code in res2}
        single = [k for k in sorted(idx2) if k > 0]
        if single:
            idx = idx2
            pinned = True
    if single:
        k = single[0]
        enabled = set(singles[k - 1])
        last.update(got=idx[k][0], want=idx[k][1], code=idx[k][2])
    else:
        if 0 in idx:
            last.update(got=idx[0][0], want=idx[0][1], code=idx[0][2])
        # greedy rounds: all "one statement less" variants in one TU per round
        for _ in range(6):
            order = sorted(enabled, reverse=True)
            if len(order) <= 1:
                break
            res = failing_variants([enabled - {i} for i in order])
            if not res:
                break
            k, r, w, code = res[0]
            enabled = enabled - {order[k]}
            last.update(got=r, want=w, code=code)
    ops = sorted(set(f.ops(enabled)))
    rec.count("disagreements:%s" % t)
    rec.count("reduction_compiles", tries)
    if t == "thumb":
        # [weakened on purpose] miasm decodes only a few percent of clang's Thumb-2 output and the
        # functions that do run hit several defects of the Thumb lifter (ADD Rdn,Rm lifted as ADDS,
        # ORN, ADC.W ...) in a context-dependent way: one key per kind of disagreement, the
        # operations are in the witness.  The semantic functions shared with ARM mode are keyed
        # per operation under "arm".
        key = "thumb %s" % kind
    elif len(ops) == 1:
        key = "%s %s: %s" % (t, kind, ops[0])
    elif not ops:
        key = "%s %s: (no catalogue operation left)" % (t, kind)
    else:
        # register-allocation / context dependent: no single operation reproduces it alone.
        # One bucket per target and kind; the operations are in the witness.
        key = "%s %s: several operations" % (t, kind)
        rec.count("unreduced:%s" % t)
    if bk != "python":
        key = "[%s] " % bk + key
    wit = dict(target=t, opt=o, backend=bk, ops_all=f.ops(), ops_reduced=ops,
               source=f.source(enabled, "r", consts, pin=pinned), a="0x%x" % a, b="0x%x" % b, c="0x%x" % c,
               mem={k: ["0x%x" % x for x in v] for k, v in mem.items()},
               what=describe(last["got"], last["want"]))
    if last["code"] is not None:
        wit["code"] = last["code"].hex()
        wit["disassembly"] = g.disassembly(last["code"])[:120]
        wit["executed"] = sorted(g.executed_mnemonics())
    rec.fail(key, "%s %s %s: %s" % (t, o, "+".join(ops), wit["what"]), wit)


def floors(tier, counters, evaluations):
    miss = []
    for t in TARGETS:
        mns = [k for k in counters if k.startswith("mn:%s:" % t)]
        if counters.get("agree:%s" % t, 0) == 0:
            miss.append("%s: no function ran to completion and agreed" % t)
        need = MIN_MNEMONICS[t]
        if len(mns) < need:
            miss.append("%s: only %d distinct executed mnemonics (<%d)" % (t, len(mns), need))
    for o in OPTS:
        if counters.get("opt:%s" % o, 0) == 0:
            miss.append("optimisation level %s never compared" % o)
    return miss


# 60 % of the number of distinct mnemonics executed per target in calibration runs on the unchanged tree
# (calibration, quick tier, seed 0: arm 89, thumb 37, aarch64 64, mips/mipsel 52, ppc 81 distinct mnemonics;
# Thumb-2 is mostly undecodable for miasm, hence its low floor)
MIN_MNEMONICS = dict(arm=53, thumb=12, aarch64=38, mips=31, mipsel=31, ppc=48)
