"""C11 expression pattern matching only reports genuine matches.

Whenever match_expr(expr, pattern, jokers) does not return False, substituting
the returned bindings into the pattern must give the expression, modulo the
argument order of commutative operators (the monitor's own substitution and
normal form).  Patterns are cut out of random expressions by replacing
sub-terms with jokers (consistently, inconsistently or repeatedly) and are
matched against the original, a mutated sibling and an unrelated expression.
"""
from vf import common

CHECK = dict(
    id="C11", level="exploration",
    rule=("pattern = random expression (all node kinds, depth<=4) with 1..4 sub-terms replaced by joker "
          "identifiers: consistently (same sub-term -> same joker), inconsistently (one joker for two "
          "different sub-terms) or repeated on purpose; matched against the original, a sibling mutated "
          "at one node (compose part added/dropped, operator arity or name, slice bounds, memory size, "
          "constant, swapped operands, cond branches) and an unrelated expression, with argument "
          "permutations of commutative operators; distinct = (shape of pattern, kind of target)"),
    assumptions=["'genuine' = pattern with bindings substituted equals the expression up to argument "
                 "order of + * ^ & | (the monitor's substitution and normal form, not replace_expr/canonize)",
                 "a return value that is not False is a reported match (True or a falsy empty dict included)"],
    timeout={"quick": 900, "thorough": 5400},
    technique="runtime monitoring: substitute-and-compare oracle on every reported match",
)

TARGETS = ["original", "permuted", "sibling", "unrelated"]


def shards(tier, seed, scale):
    per = 6300 if tier == "quick" else 190000
    return common.mk_shards(16, seed, tier, per, scale)


def run_shard(params, rec):
    common.quiet()
    common.limit_memory(4)
    from miasm.expression import expression as m2
    from miasm.expression.expression import (ExprInt, ExprId, ExprMem, ExprOp, ExprSlice, ExprCompose,
                                             ExprCond, ExprAssign)
    from vf import exprgen
    from vf.models import c08_exprs as X

    rng = common.rng_for(params)
    gen = X.HGen(rng, hostile=0.05, loc=0.05, extra=0.10, bytes_names=False, max_width=128, pow_op=False)

    def joker(k, size):
        return ExprId("jok%d" % k, size)

    def replace_at(e, path, new):
        """@e with the sub-term at @path (child indexes) replaced by @new"""
        if not path:
            return new
        ch = list(X.children(e))
        ch[path[0]] = replace_at(ch[path[0]], path[1:], new)
        return X.with_children(e, ch)

    def paths(e, prefix=(), out=None):
        if out is None:
            out = []
        out.append((prefix, e))
        for k, c in enumerate(X.children(e)):
            paths(c, prefix + (k,), out)
        return out

    def make_pattern(e):
        """-> (pattern, jokers, mode)"""
        ps = paths(e)
        inner = [p for p in ps if p[0]] or ps
        mode = rng.choice(["consistent", "consistent", "inconsistent", "repeated", "none"])
        if mode == "none":
            return e, [joker(0, 8)], mode
        pattern = e
        jokers = []
        if mode == "consistent":
            # every occurrence of the chosen sub-terms becomes the same joker
            chosen = []
            for _ in range(rng.choice([1, 1, 2, 3, 4])):
                _, sub = rng.choice(inner)
                if sub not in chosen:
                    chosen.append(sub)
            mapping = {}
            for k, sub in enumerate(chosen):
                mapping[sub] = joker(k, sub.size)
                jokers.append(mapping[sub])
            pattern = X.subst(e, mapping)
            if rng.random() < 0.3:
                # only one occurrence replaced: the joker must then equal the other occurrences
                path, sub = rng.choice(inner)
                j = mapping.get(sub) or joker(len(jokers), sub.size)
                if j not in jokers:
                    jokers.append(j)
                pattern = replace_at(e, path, j)
        elif mode == "inconsistent":
            # one joker stands for two different sub-terms of the same size
            path1, sub1 = rng.choice(inner)
            cands = [(p, s) for p, s in inner if s.size == sub1.size and s is not sub1 and
                     p[:len(path1)] != path1 and path1[:len(p)] != p]
            j = joker(0, sub1.size)
            jokers.append(j)
            pattern = replace_at(e, path1, j)
            if cands:
                path2, _ = rng.choice(cands)
                pattern = replace_at(pattern, path2, j)
        else:
            # repeated: the pattern is built so that one joker occurs several times on purpose
            j = joker(0, e.size)
            jokers.append(j)
            k = rng.random()
            if k < 0.4:
                pattern = ExprOp(rng.choice(['+', '^', '&', '-', '==', '<u']), j, j)
            elif k < 0.7:
                pattern = ExprCond(joker(1, 1), j, j)
                jokers.append(joker(1, 1))
            else:
                pattern = ExprCompose(j, j)
        if rng.random() < 0.15:
            jokers.append(joker(9, 32))     # a joker the pattern does not use
        if rng.random() < 0.1:
            jokers = set(jokers)            # the API is also used with a set (disasm_cb)
        return pattern, jokers, mode

    def instance_of(pattern, jokers, same):
        """an expression made by filling the jokers of @pattern: with one value per joker
        (@same) or with a fresh value per occurrence"""
        def value_for(j):
            # a joker is an ordinary identifier: the matched expression may mention it (a pattern matched
            # against another pattern, or against itself)
            if rng.random() < 0.25:
                same_size = [x for x in jokers if x.size == j.size]
                rec.count("target_mentions_joker")
                return rng.choice(same_size)
            return gen.expr(j.size, 1)
        if same:
            return X.subst(pattern, dict((j, value_for(j)) for j in jokers))

        M61 = (1 << 61) - 1      # CPython hashes integers modulo this prime
        collide = {}
        if rng.random() < 0.2:
            for j in jokers:
                if j.size >= 62:
                    collide[j] = [rng.getrandbits(rng.choice([3, 16, 60])), 0]

        def fill(p):
            if p in collide:
                # different values whose hashes are equal: x and x + (2**61 - 1)
                c, n = collide[p]
                collide[p][1] += 1
                rec.count("fillings_with_equal_hashes")
                return ExprInt((c + (n % 2) * M61) & ((1 << p.size) - 1), p.size)
            if p in jokers:
                return value_for(p)
            ch = X.children(p)
            if not ch:
                return p
            return X.with_children(p, [fill(c) for c in ch])
        return fill(pattern)

    def mutate(e):
        """a sibling of @e: one node changed; -> (expr, kind) or (None, None)"""
        ps = paths(e)
        rng.shuffle(ps)
        if rng.random() < 0.35:
            # composes first: their arity is the suspected weak spot
            ps.sort(key=lambda q: q[1].__class__ is not ExprCompose)
        for path, sub in ps[:12]:
            c = sub.__class__
            new, kind = None, None
            try:
                if c is ExprCompose:
                    k = rng.random()
                    if k < 0.4:
                        new, kind = ExprCompose(*(sub.args + (gen.expr(rng.choice([1, 8]), 0),))), "compose_extra_part"
                    elif k < 0.7 and len(sub.args) > 1:
                        new, kind = ExprCompose(*sub.args[:-1]), "compose_dropped_part"
                    elif len(sub.args) > 1:
                        new, kind = ExprCompose(*(sub.args[1:] + sub.args[:1])), "compose_rotated"
                elif c is ExprOp:
                    k = rng.random()
                    if k < 0.35 and sub.op in X.COMMUTATIVE:
                        new, kind = ExprOp(sub.op, *(sub.args + (sub.args[0],))), "op_extra_arg"
                    elif k < 0.5 and sub.op in X.COMMUTATIVE and len(sub.args) > 2:
                        new, kind = ExprOp(sub.op, *sub.args[:-1]), "op_dropped_arg"
                    elif k < 0.75 and len(sub.args) == 2 and sub.op not in X.COMMUTATIVE and \
                            sub.args[0] is not sub.args[1]:
                        new, kind = ExprOp(sub.op, sub.args[1], sub.args[0]), "op_swapped_noncommutative"
                    else:
                        swap = {'+': '^', '^': '|', '|': '&', '&': '*', '*': '+', '>>': 'a>>', 'a>>': '<<',
                                '<<': '>>', '<<<': '>>>', '>>>': '<<<', '<u': '<s', '<s': '<=s',
                                '<=s': '<=u', '<=u': '<u', 'udiv': 'sdiv', 'sdiv': 'udiv', '/': '%',
                                '%': '/', 'umod': 'smod', 'smod': 'umod'}
                        if sub.op in swap:
                            new, kind = ExprOp(swap[sub.op], *sub.args), "op_name"
                        elif sub.op.startswith('zeroExt_'):
                            new, kind = ExprOp('signExt_' + sub.op[8:], *sub.args), "op_name"
                        elif sub.op.startswith('signExt_'):
                            new, kind = ExprOp('zeroExt_' + sub.op[8:], *sub.args), "op_name"
                elif c is ExprSlice:
                    a = sub.arg
                    opts = [(s, t) for s, t in ((sub.start + 1, sub.stop + 1), (sub.start - 1, sub.stop - 1),
                                                (sub.start, sub.stop - 1), (sub.start + 1, sub.stop),
                                                (sub.start - 1, sub.stop), (sub.start, sub.stop + 1))
                            if 0 <= s < t <= a.size]
                    if opts:
                        s, t = rng.choice(opts)
                        new, kind = ExprSlice(a, s, t), "slice_bounds"
                elif c is ExprMem:
                    new, kind = ExprMem(sub.ptr, sub.size + rng.choice([8, 1, sub.size])), "mem_size"
                elif c is ExprInt:
                    new, kind = ExprInt(int(sub) ^ (1 << rng.randrange(sub.size)), sub.size), "constant"
                elif c is ExprId:
                    new, kind = ExprId(sub.name + "_", sub.size), "identifier"
                elif c is ExprCond:
                    if sub.src1 is not sub.src2:
                        new, kind = ExprCond(sub.cond, sub.src2, sub.src1), "cond_branches_swapped"
                elif c is ExprAssign:
                    continue
                if new is None:
                    continue
                return replace_at(e, path, new), kind
            except (ValueError, AssertionError):
                continue       # the mutated node does not fit its parent (sizes): try another node
        return None, None

    def permuted(e):
        """@e with the arguments of its commutative operators shuffled"""
        ch = X.children(e)
        if not ch:
            return e
        new = [permuted(c) for c in ch]
        if e.__class__ is ExprOp and e.op in X.COMMUTATIVE:
            rng.shuffle(new)
        return X.with_children(e, new)

    for i in range(params["n"]):
        kind = rng.choice([k for k in X.KINDS if k not in ("ExprInt", "ExprId", "ExprLoc")] + ["ExprOp"] * 2)
        e = gen.top(kind, rng.choice([1, 2, 2, 3, 4]))
        try:
            pattern, jokers, mode = make_pattern(e)
        except (ValueError, AssertionError):
            rec.count("pattern_not_buildable")
            continue
        t = rng.random()
        mkind = ""
        if mode == "repeated":
            # targets for a hand-made pattern: instances with equal / different fillings
            same = rng.random() < 0.5
            try:
                target = instance_of(pattern, list(jokers), same)
            except (ValueError, AssertionError):
                rec.count("target_not_buildable")
                continue
            tkind = "original" if same else "sibling"
            mkind = "joker_filled_differently" if not same else ""
        elif t < 0.30:
            target, tkind = e, "original"
        elif t < 0.45:
            target, tkind = permuted(e), "permuted"
        elif t < 0.85:
            target, mkind = mutate(e)
            tkind = "sibling"
            if target is None:
                target, tkind, mkind = e, "original", ""
        else:
            target, tkind = gen.top(kind, rng.choice([1, 2, 3])), "unrelated"
        rec.ev()
        rec.count("target:" + tkind)
        rec.count("pattern_mode:" + mode)
        if mkind:
            rec.count("sibling:" + mkind)
        rec.count("pattern_top:" + pattern.__class__.__name__)
        rec.distinct("%s/%s/%s" % (exprgen.shape(pattern), tkind, mkind))
        jl = sorted(jokers, key=lambda j: j.name)
        try:
            res = m2.match_expr(target, pattern, jokers)
        except Exception as exc:
            rec.fail("match_expr raises %s (pattern top=%s)" % (type(exc).__name__, pattern.__class__.__name__),
                     "match_expr(%s, %s) raised %r" % (common.short(target), common.short(pattern), exc),
                     dict(expr=repr(target), pattern=repr(pattern), jokers=[repr(j) for j in jl]))
            continue
        if res is False:
            rec.count("no_match")
            rec.count("no_match:" + tkind)
            continue
        rec.count("match")
        rec.count("match:" + tkind)
        if res is True:
            bindings = {}
        elif isinstance(res, dict):
            bindings = res
        else:
            rec.fail("match_expr returns %s" % type(res).__name__, "neither False, True nor a dict: %r" % (res,),
                     dict(expr=repr(target), pattern=repr(pattern)))
            continue
        if bindings:
            rec.count("match_with_bindings")
        def mechanism():
            """re-run the match with a recorder around the (recursive) matcher and name the
            innermost accepted pair whose nodes do not fit each other"""
            calls = []
            orig = m2.match_expr

            def recorded(expr, pat, tks, result=None):
                r = orig(expr, pat, tks, result)
                calls.append((expr, pat, r))
                return r
            m2.match_expr = recorded
            try:
                recorded(target, pattern, jokers)
            except Exception:
                pass
            finally:
                m2.match_expr = orig
            for x, p, r in calls:       # completion order: innermost first
                if r is False or p in jokers:
                    continue
                if p.__class__ is not x.__class__:
                    return "node kinds differ"
                cp, cx = X.children(p), X.children(x)
                if p.__class__ is ExprCompose and len(cp) != len(cx):
                    return "ExprCompose parts count differs"
                if p.__class__ is ExprOp and p.op != x.op:
                    return "ExprOp names differ"
                if p.__class__ is ExprOp and len(cp) != len(cx):
                    return "ExprOp arity differs"
                if p.__class__ is ExprSlice and (p.start, p.stop) != (x.start, x.stop):
                    return "ExprSlice bounds differ"
                if p.__class__ is ExprMem and p.size != x.size:
                    return "ExprMem sizes differ"
                if not cp and p is not x:
                    return "%s leaves differ" % p.__class__.__name__
            return "bindings do not reproduce the expression"
        bad = [k for k in bindings if k not in jokers]
        if bad or not all(isinstance(v, m2.Expr) for v in bindings.values()):
            rec.fail("bindings are not joker -> expression", "match_expr returned %r" % (bindings,),
                     dict(expr=repr(target), pattern=repr(pattern), jokers=[repr(j) for j in jl]))
            continue
        try:
            rebuilt = X.subst(pattern, bindings)
            same = X.norm(rebuilt) == X.norm(target)
        except (ValueError, AssertionError) as exc:
            rebuilt, same = None, False
        if not same:
            rec.fail("reported match is not genuine: " + mechanism(),
                     "match_expr(%s, %s) = %s but the pattern with these bindings is %s" % (
                         common.short(target), common.short(pattern),
                         dict((str(k), str(v)[:80]) for k, v in bindings.items()), common.short(rebuilt)),
                     dict(expr=repr(target), pattern=repr(pattern), jokers=[repr(j) for j in jl],
                          bindings=dict((repr(k), repr(v)) for k, v in bindings.items()),
                          substituted=repr(rebuilt), target_kind=tkind, sibling=mkind, pattern_mode=mode))
            continue
        rec.count("match_genuine")
        if i % 500 == 0:
            rec.sample(dict(expr=str(target)[:200], pattern=str(pattern)[:200],
                            bindings=dict((str(k), str(v)[:60]) for k, v in bindings.items())), limit=6)


def floors(tier, counters, evaluations):
    miss = []
    if counters.get("match", 0) < 0.2 * evaluations:
        miss.append("fewer than 20%% of the cases are reported matches (%d of %d)" % (
            counters.get("match", 0), evaluations))
    if counters.get("target:sibling", 0) < 0.2 * evaluations:
        miss.append("fewer than 20%% of the cases match against a mutated sibling (%d of %d)" % (
            counters.get("target:sibling", 0), evaluations))
    if counters.get("match_with_bindings", 0) < 0.1 * evaluations:
        miss.append("fewer than 10% of the cases are matches that bind a joker")
    if counters.get("target_mentions_joker", 0) < 0.01 * evaluations:
        miss.append("fewer than 1% of the targets mention a joker identifier")
    for k in ["compose_extra_part", "compose_dropped_part", "op_extra_arg", "op_swapped_noncommutative",
              "op_name", "slice_bounds", "mem_size", "constant", "identifier", "cond_branches_swapped",
              "joker_filled_differently"]:
        if counters.get("sibling:" + k, 0) < 100:
            miss.append("sibling mutation %s seen %d times (<100)" % (k, counters.get("sibling:" + k, 0)))
    for m in ["consistent", "inconsistent", "repeated", "none"]:
        if counters.get("pattern_mode:" + m, 0) < 500:
            miss.append("pattern mode %s seen %d times (<500)" % (m, counters.get("pattern_mode:" + m, 0)))
    for t in TARGETS:
        if counters.get("target:" + t, 0) < 500:
            miss.append("target kind %s seen %d times (<500)" % (t, counters.get("target:" + t, 0)))
    return miss
