"""C46 the sandboxed file system never escapes its base directory.

Monitored: FileSystem.resolve_path (str and bytes, follow_link True/False, with and without
passthrough entries), os_dep.common.unix_to_sbpath and windows_to_sbpath.
Oracle: the host file system itself.  A real scratch tree is built (sandbox base `sb` next to an
`outside` directory), symbolic-link layouts are created inside the sandbox, and the host path
returned for a guest path is passed to os.path.realpath: the property holds iff the real path is
the base or below it (or the guest path matches a configured passthrough entry).
"""
import os
import re

from vf import common

CHECK = dict(
    id="C46", level="exploration",
    rule=("guest paths from a grammar over {existing names, link names, '..', '.', '', missing "
          "names} with 0-3 leading separators, optional trailing separator, relative/absolute, "
          "backslash/slash mixes and drive letters for the Windows mapping; half of them are "
          "mutations of paths that exist in the layout (through links too); 6 symlink layouts "
          "(none, file links, directory links, climbing relative targets, chains, loops); "
          "distinct = distinct (function, layout, guest path); non-trivial = the guest path has a "
          "'..' component or reaches a symbolic link; plus histories of 24 readlink/exists/open_ calls on ONE "
          "FileSystem object over 5 guest paths: the kernel's name of the opened descriptor (/proc/self/fd) and "
          "the returned values are compared with a fresh object's resolution of the same argument"),
    assumptions=["os.path.realpath on the scratch tree is the definition of where a host path leads",
                 "for follow_link=False the final component is not followed by the oracle either "
                 "(the link itself must live inside the sandbox)",
                 "a refusal (AssertionError) or RecursionError on a link loop is not an escape"],
    timeout={"quick": 600, "thorough": 3000},
    exhaustive={"quick": False, "thorough": False},
    technique="runtime monitoring: realpath containment on a real directory tree with symlink layouts",
)

NLAYOUTS = 7


def shards(tier, seed, scale):
    per = 700 if tier == "quick" else 11000      # per (shard, layout, function group)
    return common.mk_shards(16, seed, tier, per, scale, salt="c46")


# ------------------------------------------------------------------ scratch tree

def build_layout(root, k):
    """returns (base, interesting guest paths (posix, relative to the sandbox root), names)"""
    os.makedirs(root)
    for d in ("cwd", "outside/dir", "etc", "sb/etc", "sb/a/b", "sb/d", "sb/c:/a"):
        os.makedirs(os.path.join(root, d))
    files = {"outside/secret.txt": "SECRET", "outside/dir/file.txt": "SECRET2", "etc/passwd": "HOSTPW",
             "sb/etc/passwd": "sbpw", "sb/a/b/c.txt": "c", "sb/a/f.txt": "af", "sb/f.txt": "f",
             "sb/c:/f.txt": "cf", "sb/c:/a/f.txt": "caf"}
    for p, c in files.items():
        with open(os.path.join(root, p), "w") as fd:
            fd.write(c)
    sb = os.path.join(root, "sb")
    out_abs = os.path.join(root, "outside")
    links = []
    if k == 1:      # file links
        links = [("lf_abs", out_abs + "/secret.txt"), ("a/lf_rel_out", "../../outside/secret.txt"),
                 ("lf_in", "a/f.txt"), ("a/lf_abs_in", "/etc/passwd"), ("a/b/lf_up", "../f.txt")]
    elif k == 2:    # directory links
        links = [("ld_abs", out_abs), ("a/ld_rel", "../../outside"), ("ld_in", "a"), ("ld_root", "/"),
                 ("ld_up", ".."), ("a/ld_sib", "../d")]
    elif k == 3:    # climbing relative targets
        links = [("a/b/l3", "../../../../outside/secret.txt"), ("l1up", "../outside/secret.txt"),
                 ("a/lup_in", "../f.txt"), ("a/b/lup2", "../../etc/passwd"), ("d/lclimb", "../../../../../../etc/passwd")]
    elif k == 4:    # chains
        links = [("c1", "c2"), ("c2", "c3"), ("c3", out_abs + "/secret.txt"), ("k1", "k2"), ("k2", "a/f.txt"),
                 ("ld", out_abs), ("a/kd", "../ld"), ("a/kabs", "/k1"), ("d/q1", "/a/kd")]
    elif k == 5:    # loops
        links = [("loop1", "loop2"), ("loop2", "loop1"), ("self", "self"), ("a/dloop", "../a"),
                 ("a/b/up", ".."), ("lf_abs", out_abs + "/secret.txt"), ("a/aloop", "/a/aloop")]
    chains = []
    if k == 6:      # long chains (1..12 links) ending outside (absolute / climbing), inside, or looping
        os.makedirs(os.path.join(sb, "ch"))
        for length in range(1, 13):
            for tail, target in (("abs_out", out_abs + "/secret.txt"), ("climb_out", "../outside/secret.txt"),
                                 ("climb2_out", "../../../../../etc/passwd"), ("inside", "a/f.txt"),
                                 ("abs_guest", "/etc/passwd"), ("loop", None)):
                cname = "c%d%s" % (length, tail)
                for i in range(length):
                    if i + 1 < length:
                        # hops: same directory, via '.', via a guest-absolute path
                        hop = ["%s_%d", "./%s_%d", "a/../%s_%d"][(i + length) % 3] % (cname, i + 1)
                    elif target is None:
                        hop = "%s_0" % cname
                    else:
                        hop = target
                    links.append(("%s_%d" % (cname, i), hop))
                chains.append((cname, length, tail))
    if k:
        links.append(("c:/wl", "../../outside"))
    for name, target in links:
        os.symlink(target, os.path.join(sb, name))
    interesting = ["etc/passwd", "a/b/c.txt", "a/f.txt", "f.txt", "a", "a/b", "d", "etc", "",
                   "c:/f.txt", "c:/a/f.txt", "c:/a"]
    for name, target in links:
        interesting.append(name)
        if k == 6:
            continue
        for tail in ("secret.txt", "dir/file.txt", "f.txt", "b/c.txt", "etc/passwd", "outside/secret.txt",
                     "sb/f.txt"):
            interesting.append(name + "/" + tail)
    names = sorted(set(c for p in interesting for c in p.split("/") if c))
    names += ["outside", "secret.txt", "sb", "cwd", "nonexist", "passwd"]
    return sb, interesting, sorted(set(names)), [l[0] for l in links], chains


# ------------------------------------------------------------------ guest path grammar

_LISTDIR = {}


def _listdir(d):
    if d not in _LISTDIR:
        try:
            _LISTDIR[d] = sorted(os.listdir(d))
        except OSError:
            _LISTDIR[d] = []
    return _LISTDIR[d]


def gen_walk(rng, base):
    """components chosen while physically walking the tree from the sandbox root, so that most
    paths are alive for the kernel (links are followed, '..' is physical)"""
    root = os.path.dirname(base)
    cur = base
    comps = []
    for _ in range(rng.randint(1, 8)):
        x = rng.random()
        entries = _listdir(cur) if os.path.isdir(cur) else []
        if x < 0.70 and entries:
            c = rng.choice(entries)
        elif x < 0.88:
            c = ".."
        elif x < 0.93:
            c = rng.choice([".", ""])
        else:
            c = "nonexist"
        comps.append(c)
        if c in (".", ""):
            continue
        if c == "..":
            if cur != root:
                cur = os.path.dirname(cur)
            continue
        nxt = os.path.join(cur, c)
        if os.path.islink(nxt):
            nxt = os.path.realpath(nxt)
        if os.path.isdir(nxt) and (nxt == root or nxt.startswith(root + os.sep)):
            cur = nxt
        else:
            # a file, a missing name, a loop or a directory of the host outside the scratch tree
            if rng.random() < 0.85:
                break
    return comps


def gen_components(rng, interesting, names, base=None):
    r = rng.random()
    if base is not None and r < 0.45:
        return gen_walk(rng, base)
    if r < 0.80:
        comps = rng.choice(interesting).split("/")
        comps = [c for c in comps if c]
        # mutate
        for _ in range(rng.choice([0, 0, 1, 1, 2, 3, 5])):
            pos = rng.randint(0, len(comps))
            comps.insert(pos, rng.choice(["..", "..", "..", ".", "", rng.choice(names), "nonexist"]))
    else:
        comps = []
        for _ in range(rng.randint(1, 7)):
            x = rng.random()
            if x < 0.55:
                comps.append(rng.choice(names))
            elif x < 0.82:
                comps.append("..")
            elif x < 0.88:
                comps.append(".")
            elif x < 0.93:
                comps.append("")
            else:
                comps.append("nonexist")
    return comps


def gen_posix(rng, interesting, names, base=None):
    comps = gen_components(rng, interesting, names, base)
    lead = rng.choice(["", "/", "/", "/", "//", "///", "./", "../"])
    trail = rng.choice(["", "", "", "/", "/."])
    return lead + "/".join(comps) + trail, comps


def gen_windows(rng, interesting, names, base=None):
    comps = gen_components(rng, interesting, names, base)
    seps = ["\\", "\\", "\\", "\\", "/", "\\\\"]
    lead = rng.choice(["", "c:\\", "C:\\", "\\", "\\\\", "..\\", "c:", "\\\\?\\c:\\", "/", "c:/"])
    s = lead
    for i, c in enumerate(comps):
        if rng.random() < 0.15:
            c = c.upper()
        s += c
        if i + 1 < len(comps):
            s += rng.choice(seps)
    s += rng.choice(["", "", "\\", "/"])
    return s, comps


# ------------------------------------------------------------------ oracle

class Oracle(object):
    """Kernel-like path walk on the real tree.  `walk` returns (status, real, why):
    status 'inside' / 'outside' / 'dead' (a directory component is missing, is not a directory,
    or the links loop: the kernel would refuse the path, it leads nowhere)."""

    T = "result is not below the base even textually"
    D = "'..' components of the result climb above the base"
    DL = "'..' after a symbolic link inside the sandbox climbs above the base"
    SD = "a directory component of the result is a symbolic link leading outside"
    SF = "the final component of the result is a symbolic link leading outside"

    def __init__(self, base):
        self.base = base
        self.base_real = os.path.realpath(base)

    def inside(self, real):
        return real == self.base_real or real.startswith(self.base_real + os.sep)

    def textual(self, host, prefixes=()):
        for t in [os.path.abspath(self.base)] + list(prefixes):
            if host == t or host.startswith(t + os.sep):
                return True
        return False

    def walk(self, host, follow=True, prefixes=()):
        assert os.path.isabs(host)
        comps = [c for c in host.split(os.sep) if c not in ("", ".")]
        todo = [(c, i) for i, c in enumerate(comps)]
        nlast = len(comps) - 1
        cur = os.sep
        nlinks = 0
        link_seen = False
        why = None
        while todo:
            c, origin = todo.pop(0)
            last = not todo
            was_inside = self.inside(cur)
            via_link = None
            if c == "..":
                cur = os.path.dirname(cur)
            else:
                nxt = os.path.join(cur, c)
                if os.path.islink(nxt) and (not last or follow):
                    nlinks += 1
                    if nlinks > 40:
                        return "dead", cur, "ELOOP"
                    target = os.readlink(nxt)
                    if target.startswith(os.sep):
                        cur = os.sep
                    todo = [(x, ("L", origin if not isinstance(origin, tuple) else origin[1]))
                            for x in target.split(os.sep) if x not in ("", ".")] + todo
                    if was_inside:
                        link_seen = True
                    if not (was_inside and not self.inside(cur)):
                        continue
                    via_link = origin if not isinstance(origin, tuple) else origin[1]
                elif last:
                    cur = nxt           # may not exist: that is where it would be created
                elif os.path.isdir(nxt):
                    cur = nxt
                else:
                    return "dead", nxt, "ENOENT/ENOTDIR"
            if was_inside and not self.inside(cur):
                if isinstance(origin, tuple):
                    via_link = origin[1]
                if via_link is not None:
                    why = self.SF if via_link == nlast else self.SD
                else:
                    why = self.DL if link_seen else self.D
        if self.inside(cur):
            return "inside", cur, None
        if not self.textual(host, prefixes):
            why = self.T
        return "outside", cur, why or "real path outside for an unknown reason"


def to_text(x):
    return x.decode("utf-8", "surrogateescape") if isinstance(x, bytes) else x


PASSTHROUGH_GUESTS = ["/dev/urandom", "/dev/../dev/urandom", "//dev/urandom", "/dev/urandom/", "dev/urandom",
                      "/proc/self/maps", "/proc/self/../../etc/passwd", "/proc/selfish/x", "/proc/self/",
                      "/dev/null", "/dev/null/../../etc/passwd", "/sys/class", "/sys/../outside/secret.txt",
                      "/dev/urandom/../../outside/secret.txt", "/proc/self/fd/../../../outside/secret.txt",
                      "/dev/nullx", "/sys"]


def run_shard(params, rec):
    common.quiet()
    import sys
    sys.setrecursionlimit(250)      # link loops end in RecursionError: keep them cheap
    import miasm.os_dep.common as osc
    from miasm.os_dep.linux.environment import FileSystem
    rng = common.rng_for(params)
    scratch = os.environ.get("VERIF_SCRATCH_DIR") or os.environ["TMPDIR"]
    top = os.path.join(scratch, "c46_%s_%s" % (params.get("seed", 0), params["shard"]))
    n = params["n"]
    tier_quick = params.get("tier") == "quick"

    for k in range(NLAYOUTS):
        root = os.path.join(top, "L%d" % k)
        base, interesting, names, links, chains = build_layout(root, k)
        os.chdir(os.path.join(root, "cwd"))
        orc = Oracle(base)
        link_names = set(l.split("/")[-1] for l in links)
        rec.count("layout:%d" % k)

        def nontrivial(comps):
            return ".." in comps or any(c.lower() in link_names for c in comps)

        # ---------------- FileSystem.resolve_path
        fs_plain = FileSystem(base, None)
        fs_pass = FileSystem(base, None)
        fs_pass.passthrough = ["/dev/urandom", re.compile(r"/proc/self/.*"), b"/dev/null",
                               re.compile(br"/sys/.*")]
        # base given as bytes / relative spelling too
        fs_rel = FileSystem(os.path.relpath(base), None)

        def pass_match(guest_text):
            norm = os.path.normpath(guest_text)
            if norm in ("/dev/urandom", "/dev/null"):
                return True
            return bool(re.match(r"/proc/self/.*", norm) or re.match(r"/sys/.*", norm))

        def do_resolve(guest, comps, fs, fsname, as_bytes, follow):
            arg = guest.encode() if as_bytes else guest
            fn = "resolve_path"
            rec.ev()
            rec.count("fn:resolve_path")
            rec.count("resolve_path:%s" % ("bytes" if as_bytes else "str"))
            rec.count("resolve_path:follow_link=%s" % follow)
            rec.count("resolve_path:fs=%s" % fsname)
            if nontrivial(comps):
                rec.distinct("rp/%d/%s/%s" % (k, guest, follow))
            try:
                res = fs.resolve_path(arg, follow_link=follow)
            except AssertionError:
                rec.count("resolve_path:refused(assert)")
                return
            except RecursionError:
                rec.count("resolve_path:recursion_on_loop")
                if k not in (5, 6):
                    rec.fail("resolve_path: RecursionError without a link loop", guest,
                             dict(layout=k, guest=guest))
                return
            except Exception as exc:
                rec.fail("resolve_path raises %s" % type(exc).__name__, "%r: %r" % (guest, exc),
                         dict(layout=k, guest=guest, bytes=as_bytes, follow_link=follow))
                return
            if isinstance(res, bytes) != as_bytes:
                rec.count("resolve_path:result_type_differs_from_argument")
            host = to_text(res)
            if fs is fs_pass and pass_match(guest):
                rec.count("resolve_path:passthrough_matched")
                if host == os.path.normpath(guest):
                    rec.count("resolve_path:passthrough_returned_as_is")
                return
            host_abs = host if os.path.isabs(host) else os.path.join(os.getcwd(), host)
            status, real, why = orc.walk(host_abs, follow)
            if follow and status != "dead" and os.path.exists(host_abs):
                # harness sanity: the walk and the C library agree where an existing path leads
                assert os.path.realpath(host_abs) == real, (host_abs, real)
            if status == "dead":
                rec.count("resolve_path:dead_path(kernel would refuse)")
                return
            if status == "inside":
                rec.count("resolve_path:inside")
                if os.path.lexists(host):
                    rec.count("resolve_path:inside_and_exists")
                if real != os.path.normpath(host_abs):
                    rec.count("resolve_path:inside_through_link")
                if rec.evaluations % 997 == 0:
                    rec.sample(dict(fn=fn, layout=k, guest=guest, host=host.replace(top, "<top>"),
                                    real=real.replace(top, "<top>")))
                return
            # ---- escape: classify the mechanism
            gnorm = os.path.normpath(guest)
            lead = gnorm == ".." or gnorm.startswith("../")
            final_link = os.path.islink(os.path.join(base, gnorm.lstrip("/")))
            if not follow and final_link and why == orc.T:
                key = ("resolve_path(follow_link=False): a final symbolic link yields its guest target, "
                       "not a host path in the sandbox")
            elif why in (orc.D, orc.DL) and lead:
                key = "resolve_path: leading '..' of a relative guest path survives normpath"
            elif why in (orc.D, orc.DL) and follow and final_link:
                key = "resolve_path: relative target of a final symbolic link climbs above the base"
            else:
                key = "resolve_path: " + why
            rec.count("resolve_path:escape")
            rec.fail(key, "guest %r -> host %r -> real %r (base %r)" % (guest, host, real, orc.base_real),
                     dict(layout=k, guest=guest, bytes=as_bytes, follow_link=follow, fs=fsname,
                          host=host.replace(top, "<top>"), real=real.replace(top, "<top>"),
                          readable=os.path.isfile(real)))

        for i in range(n):
            which = rng.random()
            if which < 0.08:
                guest = rng.choice(PASSTHROUGH_GUESTS)
                comps = [c for c in guest.split("/")]
                fs, fsname = fs_pass, "passthrough"
            else:
                guest, comps = gen_posix(rng, interesting, names, base)
                fs, fsname = (fs_plain, "plain") if which < 0.8 else (
                    (fs_pass, "passthrough") if which < 0.9 else (fs_rel, "relbase"))
            as_bytes = rng.random() < 0.35
            follow = rng.random() < 0.8
            do_resolve(guest, comps, fs, fsname, as_bytes, follow)

        # ---------------- long symbolic-link chains: every entry point of every chain
        for cname, length, tail in chains:
            for start in range(length):
                remaining = length - start
                for rep in range(4 if tier_quick else 8):
                    lead = rng.choice(["/", "", "//", "./", "/a/../", "/ch/../"])
                    trail = rng.choice(["", "", "/", "/."])
                    guest = "%s%s_%d%s" % (lead, cname, start, trail)
                    follow = rng.random() < 0.85
                    rec.count("chain:entered_with_%d_links_ahead" % remaining)
                    rec.count("chain:tail=%s" % tail)
                    if remaining >= 9 and follow:
                        rec.count("chain:followed_with>=9_links_ahead")
                        rec.count("chain:followed_with>=9_links_ahead:tail=%s" % tail)
                    do_resolve(guest, [cname + "_%d" % start], rng.choice([(fs_plain, "plain"), (fs_rel, "relbase")])[0],
                               "chain", rng.random() < 0.35, follow)

        # ---------------- environment API on ONE FileSystem object: readlink / exists / open_ histories
        # over a small pool of guest paths (repeats, follow and no-follow resolutions of the same string).
        # Observation: the kernel's own name of the descriptor that was opened (/proc/self/fd) and the
        # returned values, compared with a FRESH FileSystem's resolution of the same argument.
        from miasm.os_dep.linux.environment import LinuxEnvironment_x86_64, FileDescriptorRegularFile, \
            FileDescriptorDirectory

        class Env(LinuxEnvironment_x86_64):
            filesystem_base = base
        for h in range(max(2, n // 60)):
            env = Env()
            fs = env.filesystem
            pool = []
            while len(pool) < 5:
                if rng.random() < 0.6:
                    pool.append(rng.choice(["/", "", "./"]) + rng.choice(interesting))
                else:
                    pool.append(gen_posix(rng, interesting, names, base)[0])
            hist = []
            for step in range(24):
                guest = rng.choice(pool)
                op = rng.choice(["readlink", "readlink", "exists", "open", "open", "open_nofollow"])
                follow = op in ("exists", "open")
                hist.append("%s(%r)" % (op, guest))
                rec.ev()
                rec.count("fn:environment_api")
                rec.count("api:" + op)
                try:
                    want_path = FileSystem(base, None).resolve_path(guest, follow_link=follow)
                except (AssertionError, RecursionError):
                    want_path = None
                kernel = got = want = None
                try:
                    if op == "readlink":
                        got = fs.readlink(guest)
                        if want_path is not None:
                            want = os.readlink(want_path) if os.path.islink(want_path) else None
                    elif op == "exists":
                        got = fs.exists(guest)
                        if want_path is not None:
                            want = os.path.exists(want_path)
                    else:
                        flags = env.O_RDONLY
                        if want_path is not None and os.path.isdir(want_path):
                            flags |= env.O_DIRECTORY
                        fd = fs.open_(guest, flags, follow_link=follow)
                        if fd == -1:
                            got = "ENOENT"
                        else:
                            fdesc = env.file_descriptors[fd]
                            if isinstance(fdesc, FileDescriptorRegularFile):
                                kernel = os.readlink("/proc/self/fd/%d" % fdesc.real_fd)
                                os.close(fdesc.real_fd)
                            elif isinstance(fdesc, FileDescriptorDirectory):
                                kernel = os.path.realpath(fdesc.real_path)
                            del env.file_descriptors[fd]
                            got = kernel
                            rec.count("api:opened")
                        if want_path is not None:
                            want = os.path.realpath(want_path) if os.path.exists(want_path) else "ENOENT"
                except (AssertionError, RecursionError, RuntimeError):
                    rec.count("api:refused_or_not_implemented")
                    continue
                except Exception as exc:
                    rec.count("api:raised_%s" % type(exc).__name__)
                    continue
                if want_path is None:
                    rec.count("api:fresh_resolution_refused")
                    continue
                rec.count("api:compared")
                if len(hist) > 1 and any(x.endswith("(%r)" % guest) for x in hist[:-1]):
                    rec.count("api:compared_on_a_path_used_before")
                rec.distinct("api/%d/%s/%s" % (k, op, guest))
                if got != want:
                    rec.fail("environment API on a used FileSystem object reaches another host file than a fresh "
                             "resolution of the same argument (%s)" % op.split("_")[0],
                             "%s(%r) gives %r, a fresh FileSystem resolves the argument to %r (%r); history %s" % (
                                 op, guest, to_text(got) if not isinstance(got, bool) else got,
                                 to_text(want) if not isinstance(want, bool) else want,
                                 to_text(want_path).replace(top, "<top>"), hist[-8:]),
                             dict(layout=k, history=hist, guest=guest, op=op))
                    break
        # ---------------- unix_to_sbpath / windows_to_sbpath
        old_base = osc.BASE_SB_PATH
        for spell in ("abs", "rel"):
            osc.BASE_SB_PATH = base if spell == "abs" else os.path.relpath(base)
            for fnname, gen, func in (("unix_to_sbpath", gen_posix, osc.unix_to_sbpath),
                                      ("windows_to_sbpath", gen_windows, osc.windows_to_sbpath)):
                for i in range(n // 4):
                    guest, comps = gen(rng, interesting, names, base)
                    rec.ev()
                    rec.count("fn:" + fnname)
                    if nontrivial(comps):
                        rec.distinct("%s/%d/%s" % (fnname, k, guest))
                    try:
                        host = func(guest)
                    except Exception as exc:
                        rec.fail("%s raises %s" % (fnname, type(exc).__name__), "%r: %r" % (guest, exc),
                                 dict(layout=k, guest=guest))
                        continue
                    # keep the '..' components: join by hand instead of abspath
                    host_abs = host if os.path.isabs(host) else os.path.join(os.getcwd(), host)
                    status, real, why = orc.walk(
                        host_abs, True, [os.path.join(os.getcwd(), os.path.relpath(base))])
                    if status != "dead" and os.path.exists(host_abs):
                        assert os.path.realpath(host_abs) == real, (host_abs, real)
                    if status == "dead":
                        rec.count(fnname + ":dead_path(kernel would refuse)")
                        continue
                    if status == "inside":
                        rec.count(fnname + ":inside")
                        if os.path.lexists(host_abs):
                            rec.count(fnname + ":inside_and_exists")
                        if rec.evaluations % 997 == 0:
                            rec.sample(dict(fn=fnname, layout=k, guest=guest,
                                            host=host_abs.replace(top, "<top>")))
                        continue
                    rec.count(fnname + ":escape")
                    rec.fail("%s: %s" % (fnname, why),
                             "guest %r -> host %r -> real %r" % (guest, host, real),
                             dict(layout=k, guest=guest, host=host.replace(top, "<top>"),
                                  real=real.replace(top, "<top>"), base_spelling=spell,
                                  readable=os.path.isfile(real)))
        osc.BASE_SB_PATH = old_base
        os.chdir("/")


def floors(tier, counters, evaluations):
    miss = []
    need = {"api:compared": 3000, "api:opened": 300, "api:compared_on_a_path_used_before": 1500,
            "fn:resolve_path": 40000, "fn:unix_to_sbpath": 20000, "fn:windows_to_sbpath": 20000,
            "resolve_path:bytes": 10000, "resolve_path:str": 10000,
            "resolve_path:follow_link=False": 6000, "resolve_path:inside": 15000,
            "resolve_path:inside_and_exists": 5000, "resolve_path:inside_through_link": 200,
            "resolve_path:passthrough_matched": 1000, "resolve_path:passthrough_returned_as_is": 1000,
            "resolve_path:fs=relbase": 3000,
            "unix_to_sbpath:inside": 3000, "windows_to_sbpath:inside": 3000,
            "unix_to_sbpath:inside_and_exists": 1000, "windows_to_sbpath:inside_and_exists": 1000}
    for k in range(NLAYOUTS):
        need["layout:%d" % k] = 16
    need["chain:followed_with>=9_links_ahead"] = 2000
    for t in ("abs_out", "climb_out", "climb2_out", "inside", "abs_guest", "loop"):
        need["chain:followed_with>=9_links_ahead:tail=%s" % t] = 200
    for l in range(1, 13):
        need["chain:entered_with_%d_links_ahead" % l] = 100
    for k, v in sorted(need.items()):
        if counters.get(k, 0) < v:
            miss.append("%s = %d < %d" % (k, counters.get(k, 0), v))
    return miss
