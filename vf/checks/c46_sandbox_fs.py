"""C46 the sandboxed file system never escapes its base directory.

Monitored: FileSystem.resolve_path (str and bytes, follow_link True/False, with and without
passthrough entries), os_dep.common.unix_to_sbpath and windows_to_sbpath.
Oracle: the host file system itself.  A real scratch tree is built (sandbox base `sb` next to an
`outside` directory), symbolic-link layouts are created inside the sandbox, and the host path
returned for a guest path is passed to os.path.realpath: the property holds iff the real path is
the base or below it (or the guest path matches a configured passthrough entry).
"""
import os
import re

from vf import common

CHECK = dict(
    id="C46", level="exploration",
    rule=("guest paths from a grammar over {existing names, link names, '..', '.', '', missing "
          "names} with 0-3 leading separators, optional trailing separator, relative/absolute, "
          "backslash/slash mixes and drive letters for the Windows mapping; half of them are "
          "mutations of paths that exist in the layout (through links too); 6 symlink layouts "
          "(none, file links, directory links, climbing relative targets, chains, loops); "
          "distinct = distinct (function, layout, guest path); non-trivial = the guest path has a "
          "'..' component or reaches a symbolic link"),
    assumptions=["os.path.realpath on the scratch tree is the definition of where a host path leads",
                 "for follow_link=False the final component is not followed by the oracle either "
                 "(the link itself must live inside the sandbox)",
                 "a refusal (AssertionError) or RecursionError on a link loop is not an escape"],
    timeout={"quick": 600, "thorough": 3000},
    exhaustive={"quick": False, "thorough": False},
    technique="runtime monitoring: realpath containment on a real directory tree with symlink layouts",
)

NLAYOUTS = 6


def shards(tier, seed, scale):
    per = 1300 if tier == "quick" else 11000      # per (shard, layout, function group)
    return common.mk_shards(16, seed, tier, per, scale, salt="c46")


# ------------------------------------------------------------------ scratch tree

def build_layout(root, k):
    """returns (base, interesting guest paths (posix, relative to the sandbox root), names)"""
    os.makedirs(root)
    for d in ("cwd", "outside/dir", "etc", "sb/etc", "sb/a/b", "sb/d"):
        os.makedirs(os.path.join(root, d))
    files = {"outside/secret.txt": "SECRET", "outside/dir/file.txt": "SECRET2", "etc/passwd": "HOSTPW",
             "sb/etc/passwd": "sbpw", "sb/a/b/c.txt": "c", "sb/a/f.txt": "af", "sb/f.txt": "f"}
    for p, c in files.items():
        with open(os.path.join(root, p), "w") as fd:
            fd.write(c)
    sb = os.path.join(root, "sb")
    out_abs = os.path.join(root, "outside")
    links = []
    if k == 1:      # file links
        links = [("lf_abs", out_abs + "/secret.txt"), ("a/lf_rel_out", "../../outside/secret.txt"),
                 ("lf_in", "a/f.txt"), ("a/lf_abs_in", "/etc/passwd"), ("a/b/lf_up", "../f.txt")]
    elif k == 2:    # directory links
        links = [("ld_abs", out_abs), ("a/ld_rel", "../../outside"), ("ld_in", "a"), ("ld_root", "/"),
                 ("ld_up", ".."), ("a/ld_sib", "../d")]
    elif k == 3:    # climbing relative targets
        links = [("a/b/l3", "../../../../outside/secret.txt"), ("l1up", "../outside/secret.txt"),
                 ("a/lup_in", "../f.txt"), ("a/b/lup2", "../../etc/passwd"), ("d/lclimb", "../../../../../../etc/passwd")]
    elif k == 4:    # chains
        links = [("c1", "c2"), ("c2", "c3"), ("c3", out_abs + "/secret.txt"), ("k1", "k2"), ("k2", "a/f.txt"),
                 ("ld", out_abs), ("a/kd", "../ld"), ("a/kabs", "/k1"), ("d/q1", "/a/kd")]
    elif k == 5:    # loops
        links = [("loop1", "loop2"), ("loop2", "loop1"), ("self", "self"), ("a/dloop", "../a"),
                 ("a/b/up", ".."), ("lf_abs", out_abs + "/secret.txt"), ("a/aloop", "/a/aloop")]
    for name, target in links:
        os.symlink(target, os.path.join(sb, name))
    interesting = ["etc/passwd", "a/b/c.txt", "a/f.txt", "f.txt", "a", "a/b", "d", "etc", ""]
    for name, target in links:
        interesting.append(name)
        for tail in ("secret.txt", "dir/file.txt", "f.txt", "b/c.txt", "etc/passwd", "outside/secret.txt",
                     "sb/f.txt"):
            interesting.append(name + "/" + tail)
    names = sorted(set(c for p in interesting for c in p.split("/") if c))
    names += ["outside", "secret.txt", "sb", "cwd", "nonexist", "passwd"]
    return sb, interesting, sorted(set(names)), [l[0] for l in links]


# ------------------------------------------------------------------ guest path grammar

def gen_components(rng, interesting, names):
    r = rng.random()
    if r < 0.55:
        comps = rng.choice(interesting).split("/")
        comps = [c for c in comps if c]
        # mutate
        for _ in range(rng.choice([0, 0, 1, 1, 2, 3, 5])):
            pos = rng.randint(0, len(comps))
            comps.insert(pos, rng.choice(["..", "..", "..", ".", "", rng.choice(names), "nonexist"]))
    else:
        comps = []
        for _ in range(rng.randint(1, 7)):
            x = rng.random()
            if x < 0.55:
                comps.append(rng.choice(names))
            elif x < 0.82:
                comps.append("..")
            elif x < 0.88:
                comps.append(".")
            elif x < 0.93:
                comps.append("")
            else:
                comps.append("nonexist")
    return comps


def gen_posix(rng, interesting, names):
    comps = gen_components(rng, interesting, names)
    lead = rng.choice(["", "/", "/", "/", "//", "///", "./", "../"])
    trail = rng.choice(["", "", "", "/", "/."])
    return lead + "/".join(comps) + trail, comps


def gen_windows(rng, interesting, names):
    comps = gen_components(rng, interesting, names)
    seps = ["\\", "\\", "\\", "\\", "/", "\\\\"]
    lead = rng.choice(["", "c:\\", "C:\\", "\\", "\\\\", "..\\", "c:", "\\\\?\\c:\\", "/", "c:/"])
    s = lead
    for i, c in enumerate(comps):
        if rng.random() < 0.15:
            c = c.upper()
        s += c
        if i + 1 < len(comps):
            s += rng.choice(seps)
    s += rng.choice(["", "", "\\", "/"])
    return s, comps


# ------------------------------------------------------------------ oracle

class Oracle(object):
    def __init__(self, base):
        self.base = base
        self.base_real = os.path.realpath(base)

    def inside(self, real):
        return real == self.base_real or real.startswith(self.base_real + os.sep)

    def contained(self, host, follow=True):
        """(ok, real path)"""
        real = os.path.realpath(host)
        if self.inside(real):
            return True, real
        if not follow:
            # the final component is not followed: the name itself must live inside
            h = host.rstrip(os.sep) or os.sep
            parent = os.path.realpath(os.path.dirname(h))
            real2 = os.path.join(parent, os.path.basename(h))
            if self.inside(real2):
                return True, real2
        return False, real

    def classify(self, host, prefixes=None):
        """why does `host` (absolute, '..' kept) lead outside:
        textual / dotdot / symlink (directory component | final component)"""
        base = os.path.abspath(self.base)
        rel = None
        for t in [base] + list(prefixes or []):
            if host == t:
                rel = ""
            elif host.startswith(t + os.sep):
                rel = host[len(t) + 1:]
            if rel is not None:
                break
        if rel is None or not os.path.isabs(host):
            return "result is not below the base even textually"
        stack = []
        for c in rel.split(os.sep):
            if c in ("", "."):
                continue
            if c == "..":
                if not stack:
                    return "'..' components of the result climb above the base"
                stack.pop()
            else:
                stack.append(c)
        # lexically inside, really outside: a symbolic link on the way
        cur = base
        for i, c in enumerate(stack):
            cur = os.path.join(cur, c)
            if os.path.islink(cur):
                if i + 1 < len(stack):
                    return "a directory component of the result is a symbolic link leading outside"
                return "the final component of the result is a symbolic link leading outside"
        return "real path outside for an unknown reason"


def to_text(x):
    return x.decode("utf-8", "surrogateescape") if isinstance(x, bytes) else x


PASSTHROUGH_GUESTS = ["/dev/urandom", "/dev/../dev/urandom", "//dev/urandom", "/dev/urandom/", "dev/urandom",
                      "/proc/self/maps", "/proc/self/../../etc/passwd", "/proc/selfish/x", "/proc/self/",
                      "/dev/null", "/dev/null/../../etc/passwd", "/sys/class", "/sys/../outside/secret.txt",
                      "/dev/urandom/../../outside/secret.txt", "/proc/self/fd/../../../outside/secret.txt",
                      "/dev/nullx", "/sys"]


def run_shard(params, rec):
    common.quiet()
    import miasm.os_dep.common as osc
    from miasm.os_dep.linux.environment import FileSystem
    rng = common.rng_for(params)
    scratch = os.environ.get("VERIF_SCRATCH_DIR") or os.environ["TMPDIR"]
    top = os.path.join(scratch, "c46_%s_%s" % (params.get("seed", 0), params["shard"]))
    n = params["n"]

    for k in range(NLAYOUTS):
        root = os.path.join(top, "L%d" % k)
        base, interesting, names, links = build_layout(root, k)
        os.chdir(os.path.join(root, "cwd"))
        orc = Oracle(base)
        link_names = set(l.split("/")[-1] for l in links)
        rec.count("layout:%d" % k)

        def nontrivial(comps):
            return ".." in comps or any(c.lower() in link_names for c in comps)

        # ---------------- FileSystem.resolve_path
        fs_plain = FileSystem(base, None)
        fs_pass = FileSystem(base, None)
        fs_pass.passthrough = ["/dev/urandom", re.compile(r"/proc/self/.*"), b"/dev/null",
                               re.compile(br"/sys/.*")]
        # base given as bytes / relative spelling too
        fs_rel = FileSystem(os.path.relpath(base), None)

        def pass_match(guest_text):
            norm = os.path.normpath(guest_text)
            if norm in ("/dev/urandom", "/dev/null"):
                return True
            return bool(re.match(r"/proc/self/.*", norm) or re.match(r"/sys/.*", norm))

        for i in range(n):
            which = rng.random()
            if which < 0.08:
                guest = rng.choice(PASSTHROUGH_GUESTS)
                comps = [c for c in guest.split("/")]
                fs, fsname = fs_pass, "passthrough"
            else:
                guest, comps = gen_posix(rng, interesting, names)
                fs, fsname = (fs_plain, "plain") if which < 0.8 else (
                    (fs_pass, "passthrough") if which < 0.9 else (fs_rel, "relbase"))
            as_bytes = rng.random() < 0.35
            follow = rng.random() < 0.8
            arg = guest.encode() if as_bytes else guest
            fn = "resolve_path"
            rec.ev()
            rec.count("fn:resolve_path")
            rec.count("resolve_path:%s" % ("bytes" if as_bytes else "str"))
            rec.count("resolve_path:follow_link=%s" % follow)
            rec.count("resolve_path:fs=%s" % fsname)
            if nontrivial(comps):
                rec.distinct("rp/%d/%s/%s" % (k, guest, follow))
            try:
                res = fs.resolve_path(arg, follow_link=follow)
            except AssertionError:
                rec.count("resolve_path:refused(assert)")
                continue
            except RecursionError:
                rec.count("resolve_path:recursion_on_loop")
                if k not in (5,):
                    rec.fail("resolve_path: RecursionError without a link loop", guest,
                             dict(layout=k, guest=guest))
                continue
            except Exception as exc:
                rec.fail("resolve_path raises %s" % type(exc).__name__, "%r: %r" % (guest, exc),
                         dict(layout=k, guest=guest, bytes=as_bytes, follow_link=follow))
                continue
            if isinstance(res, bytes) != as_bytes:
                rec.count("resolve_path:result_type_differs_from_argument")
            host = to_text(res)
            if fs is fs_pass and pass_match(guest):
                rec.count("resolve_path:passthrough_matched")
                if host == os.path.normpath(guest):
                    rec.count("resolve_path:passthrough_returned_as_is")
                continue
            ok, real = orc.contained(host, follow)
            if ok:
                rec.count("resolve_path:inside")
                if os.path.lexists(host):
                    rec.count("resolve_path:inside_and_exists")
                if os.path.realpath(host) != os.path.normpath(host):
                    rec.count("resolve_path:inside_through_link")
                if rec.evaluations % 997 == 0:
                    rec.sample(dict(fn=fn, layout=k, guest=guest, host=host.replace(top, "<top>"),
                                    real=real.replace(top, "<top>")))
                continue
            # ---- escape: classify the mechanism
            why = orc.classify(host)
            gnorm = os.path.normpath(guest)
            final_link = os.path.islink(os.path.join(base, gnorm.lstrip("/")))
            if not follow and final_link and why.startswith("result is not below"):
                key = ("resolve_path(follow_link=False): a final symbolic link yields its guest target, "
                       "not a host path in the sandbox")
            elif why.startswith("'..'"):
                if gnorm == ".." or gnorm.startswith("../"):
                    key = "resolve_path: leading '..' of a relative guest path survives normpath"
                else:
                    key = "resolve_path: '..' climbs above the base although the guest path does not start with it"
            elif why.startswith("result is not below"):
                key = "resolve_path: " + why
            else:
                key = "resolve_path: " + why
            if follow and final_link and not (gnorm == ".." or gnorm.startswith("../")) and \
                    why.startswith("'..'"):
                key = "resolve_path: relative target of a final symbolic link climbs above the base"
            rec.count("resolve_path:escape")
            rec.fail(key, "guest %r -> host %r -> real %r (base %r)" % (guest, host, real, orc.base_real),
                     dict(layout=k, guest=guest, bytes=as_bytes, follow_link=follow, fs=fsname,
                          host=host.replace(top, "<top>"), real=real.replace(top, "<top>"),
                          readable=os.path.isfile(real)))

        # ---------------- unix_to_sbpath / windows_to_sbpath
        old_base = osc.BASE_SB_PATH
        for spell in ("abs", "rel"):
            osc.BASE_SB_PATH = base if spell == "abs" else os.path.relpath(base)
            for fnname, gen, func in (("unix_to_sbpath", gen_posix, osc.unix_to_sbpath),
                                      ("windows_to_sbpath", gen_windows, osc.windows_to_sbpath)):
                for i in range(n // 4):
                    guest, comps = gen(rng, interesting, names)
                    rec.ev()
                    rec.count("fn:" + fnname)
                    if nontrivial(comps):
                        rec.distinct("%s/%d/%s" % (fnname, k, guest))
                    try:
                        host = func(guest)
                    except Exception as exc:
                        rec.fail("%s raises %s" % (fnname, type(exc).__name__), "%r: %r" % (guest, exc),
                                 dict(layout=k, guest=guest))
                        continue
                    # keep the '..' components: join by hand instead of abspath
                    host_abs = host if os.path.isabs(host) else os.path.join(os.getcwd(), host)
                    ok, real = orc.contained(host_abs, True)
                    if ok:
                        rec.count(fnname + ":inside")
                        if os.path.lexists(host_abs):
                            rec.count(fnname + ":inside_and_exists")
                        if rec.evaluations % 997 == 0:
                            rec.sample(dict(fn=fnname, layout=k, guest=guest,
                                            host=host_abs.replace(top, "<top>")))
                        continue
                    why = orc.classify(host_abs, [os.path.join(os.getcwd(), os.path.relpath(base))])
                    rec.count(fnname + ":escape")
                    rec.fail("%s: %s" % (fnname, why),
                             "guest %r -> host %r -> real %r" % (guest, host, real),
                             dict(layout=k, guest=guest, host=host.replace(top, "<top>"),
                                  real=real.replace(top, "<top>"), base_spelling=spell,
                                  readable=os.path.isfile(real)))
        osc.BASE_SB_PATH = old_base
        os.chdir("/")


def floors(tier, counters, evaluations):
    miss = []
    need = {"fn:resolve_path": 60000, "fn:unix_to_sbpath": 30000, "fn:windows_to_sbpath": 30000,
            "resolve_path:bytes": 15000, "resolve_path:str": 15000,
            "resolve_path:follow_link=False": 8000, "resolve_path:inside": 20000,
            "resolve_path:inside_and_exists": 5000, "resolve_path:inside_through_link": 200,
            "resolve_path:passthrough_matched": 1000, "resolve_path:passthrough_returned_as_is": 1000,
            "resolve_path:fs=relbase": 3000,
            "unix_to_sbpath:inside": 5000, "windows_to_sbpath:inside": 5000,
            "unix_to_sbpath:inside_and_exists": 1000, "windows_to_sbpath:inside_and_exists": 1000}
    for k in range(NLAYOUTS):
        need["layout:%d" % k] = 16
    for k, v in sorted(need.items()):
        if counters.get(k, 0) < v:
            miss.append("%s = %d < %d" % (k, counters.get(k, 0), v))
    return miss
