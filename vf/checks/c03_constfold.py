"""C03 constant evaluation is fixed-width two's complement.

Oracle: refsem (independent big-int arithmetic).  Monitored: the value and
shape of expr_simp / expr_simp_explicit on operators applied to constants.
"""
import itertools

from vf import common

CHECK = dict(
    id="C03", level="exploration",
    rule=("every operator with a folding rule applied to ExprInt operands; exhaustive operand "
          "pairs for small widths, boundary-set squared plus random pairs for larger widths; "
          "distinct = distinct (operator, width, operand tuple); non-trivial = all (every case "
          "is a folding of an operator)"),
    exhaustive={"quick": True, "thorough": True},
    assumptions=["refsem.py is the definition of fixed-width two's-complement arithmetic",
                 "division and modulo by zero are left unfolded (undefined) and skipped"],
    timeout={"quick": 600, "thorough": 3000},
)

BIN_OPS = ['+', '*', '^', '&', '|', '>>', '<<', 'a>>', '>>>', '<<<', '/', '%', 'sdiv', 'smod',
           'umod', 'udiv', '-']
UN_OPS = ['-', 'parity', 'cntleadzeros', 'cnttrailzeros']
CMP_OPS = ['==', '<u', '<s', '<=u', '<=s']
FLAG2 = ['FLAG_EQ_AND', 'FLAG_EQ_CMP', 'FLAG_SIGN_SUB', 'FLAG_ADD_CF', 'FLAG_ADD_OF',
         'FLAG_SUB_CF', 'FLAG_SUB_OF']
FLAG3 = ['FLAG_EQ_ADDWC', 'FLAG_EQ_SUBWC', 'FLAG_SIGN_ADDWC', 'FLAG_SIGN_SUBWC',
         'FLAG_ADDWC_CF', 'FLAG_ADDWC_OF', 'FLAG_SUBWC_CF', 'FLAG_SUBWC_OF']
CC = {'CC_U<=': 2, 'CC_U>=': 1, 'CC_S<': 2, 'CC_S>': 3, 'CC_S<=': 3, 'CC_S>=': 2,
      'CC_U>': 2, 'CC_U<': 1}
BIG_WIDTHS = [9, 15, 16, 31, 32, 33, 63, 64, 65, 127, 128]


def shards(tier, seed, scale):
    small = list(range(1, 7)) if tier == "quick" else list(range(1, 9))
    items = []
    for w in small:
        for grp in ("bin", "un", "cmp", "flag2", "flag3", "ext", "slice", "pow"):
            items.append((grp, w, "exh"))
    for w in BIG_WIDTHS:
        for grp in ("bin", "un", "cmp", "flag2", "flag3", "ext", "slice", "pow"):
            items.append((grp, w, "bnd"))
    items.append(("cc", 1, "exh"))
    # heavy items first, round-robin
    items.sort(key=lambda it: -(4 ** it[1] if it[2] == "exh" else 4000))
    n = 16
    out = []
    for i in range(n):
        out.append(dict(seed=seed, shard=i, tier=tier, items=items[i::n], hashseed=0,
                        nrand=int((60 if tier == "quick" else 600) * scale)))
    return out


def operand_pairs(w, mode, rng, nrand, count_op=False):
    from vf.exprgen import boundary_values
    if mode == "exh":
        return itertools.product(range(1 << w), repeat=2)
    bv = boundary_values(w)
    second = list(bv)
    if count_op:
        second += [c for c in range(0, 2 * w + 2)] + [c for k in range(1, 8) for c in
                                                        ((1 << k) - 1, (1 << k), (1 << k) + 1)]
        second = sorted(set(c & ((1 << w) - 1) for c in second))
    pairs = list(itertools.product(bv, second))
    pairs += [(rng.getrandbits(w), rng.getrandbits(w)) for _ in range(nrand)]
    if count_op:
        pairs += [(rng.getrandbits(w), rng.randrange(0, 2 * w + 2) & ((1 << w) - 1)) for _ in range(nrand)]
    return pairs


def run_shard(params, rec):
    common.quiet()
    from miasm.expression.expression import ExprInt, ExprOp, ExprSlice, ExprCompose
    from miasm.expression.simplifications import expr_simp, expr_simp_explicit
    from vf import refsem
    rng = common.rng_for(params)
    env = refsem.Env()

    def check(e, opname, w, operands, cls=""):
        rec.ev()
        rec.count("op:" + opname)
        rec.count("width:%d" % w)
        rec.distinct("%s/%d/%r" % (opname, w, operands))
        try:
            want = refsem.evaluate(e, env)
        except refsem.Undef:
            rec.count("undef_skipped")
            want = None
        for sname, simp in (("expr_simp", expr_simp), ("expr_simp_explicit", expr_simp_explicit)):
            try:
                got = simp(e)
            except Exception as exc:  # folding must not raise
                rec.fail("fold raises op=%s %s" % (opname, type(exc).__name__),
                         "%s(%s) raised %r" % (sname, e, exc), dict(expr=repr(e), simp=sname))
                continue
            if want is None:
                # undefined: any result (folded or not) is acceptable
                continue
            if not got.is_int():
                rec.fail("fold not constant op=%s%s" % (opname, cls),
                         "%s(%s) = %s is not a constant" % (sname, e, got),
                         dict(expr=repr(e), simp=sname, got=repr(got), want=want))
                continue
            if got.size != e.size or int(got) != want:
                rec.fail("fold value op=%s%s" % (opname, cls),
                         "%s(%s) = %s/%d, two's complement gives 0x%x/%d" % (
                             sname, e, got, got.size, want, e.size),
                         dict(expr=repr(e), simp=sname, got=repr(got), want=want))

    for grp, w, mode in params["items"]:
        grp, w, mode = str(grp), int(w), str(mode)
        m = (1 << w) - 1
        if grp == "bin":
            for op in BIN_OPS:
                cnt = op in ('>>', '<<', 'a>>', '>>>', '<<<')
                for a, b in operand_pairs(w, mode, rng, params["nrand"], cnt):
                    cls = ""
                    if cnt:
                        cls = " count>=width" if b >= w else " count<width"
                    e = ExprOp(op, ExprInt(a, w), ExprInt(b, w))
                    check(e, op, w, (a, b), cls)
                    if len(rec.samples) < 3 and a > 1 and b > 1:
                        rec.sample(dict(expr=str(e), folded=str(expr_simp(e))))
            # n-ary folding of associative operators
            for op in ['+', '*', '^', '&', '|']:
                for _ in range(40):
                    vals = [rng.getrandbits(w) for _ in range(3)]
                    check(ExprOp(op, *[ExprInt(v, w) for v in vals]), op + "(3)", w, tuple(vals))
        elif grp == "un":
            from vf.exprgen import boundary_values
            vals = range(1 << w) if mode == "exh" else (
                boundary_values(w) + [rng.getrandbits(w) for _ in range(params["nrand"])] +
                [1 << k for k in range(w)] + [m ^ ((1 << k) - 1) for k in range(w)])
            for a in vals:
                for op in UN_OPS:
                    check(ExprOp(op, ExprInt(a, w)), "u" + op, w, (a,))
                check(ExprOp('FLAG_EQ', ExprInt(a, w)), 'FLAG_EQ', w, (a,))
        elif grp == "cmp":
            for op in CMP_OPS:
                for a, b in operand_pairs(w, mode, rng, params["nrand"]):
                    check(ExprOp(op, ExprInt(a, w), ExprInt(b, w)), op, w, (a, b))
        elif grp == "flag2":
            for op in FLAG2:
                for a, b in operand_pairs(w, mode, rng, params["nrand"]):
                    check(ExprOp(op, ExprInt(a, w), ExprInt(b, w)), op, w, (a, b))
        elif grp == "flag3":
            for op in FLAG3:
                for a, b in operand_pairs(w, mode, rng, params["nrand"]):
                    for c in (0, 1):
                        check(ExprOp(op, ExprInt(a, w), ExprInt(b, w), ExprInt(c, 1)), op, w, (a, b, c))
        elif grp == "cc":
            for op, k in sorted(CC.items()):
                for bits in itertools.product((0, 1), repeat=k):
                    check(ExprOp(op, *[ExprInt(b, 1) for b in bits]), op, 1, bits)
        elif grp == "ext":
            from vf.exprgen import boundary_values
            vals = range(1 << w) if mode == "exh" else (
                boundary_values(w) + [rng.getrandbits(w) for _ in range(params["nrand"])])
            for a in vals:
                for tw in sorted(set([w + 1, w + 7, 2 * w, 64, 65, 128])):
                    if tw <= w:
                        continue
                    check(ExprOp('zeroExt_%d' % tw, ExprInt(a, w)), 'zeroExt', w, (a, tw))
                    check(ExprOp('signExt_%d' % tw, ExprInt(a, w)), 'signExt', w, (a, tw))
        elif grp == "slice":
            from vf.exprgen import boundary_values
            vals = range(1 << w) if mode == "exh" else (
                boundary_values(w) + [rng.getrandbits(w) for _ in range(params["nrand"] // 4)])
            bounds = [(s, t) for s in range(w) for t in range(s + 1, w + 1)]
            if len(bounds) > 40:
                bounds = rng.sample(bounds, 40)
            for a in vals:
                for s, t in bounds:
                    check(ExprSlice(ExprInt(a, w), s, t), 'slice', w, (a, s, t))
                b = rng.getrandbits(w)
                k = rng.choice([1, 3, 8])
                check(ExprCompose(ExprInt(a, w), ExprInt(b, w), ExprInt(a & ((1 << k) - 1), k)),
                      'compose', w, (a, b, k))
        elif grp == "pow":
            for a, b in operand_pairs(min(w, 5) if mode == "exh" else w, mode, rng, 10):
                if b > 70:
                    b = b % 67
                check(ExprOp('**', ExprInt(a & m, w), ExprInt(b & m, w)), '**', w, (a, b))


def floors(tier, counters, evaluations):
    miss = []
    for op in BIN_OPS + CMP_OPS + FLAG2 + FLAG3 + ['u' + o for o in UN_OPS] + sorted(CC) + \
            ['zeroExt', 'signExt', 'slice', 'compose', '**']:
        if counters.get("op:" + op, 0) == 0:
            miss.append("operator %s never folded" % op)
    for w in list(range(1, 7)) + BIG_WIDTHS:
        if counters.get("width:%d" % w, 0) == 0:
            miss.append("width %d never folded" % w)
    return miss
