"""C33 the patchable byte buffer behaves like a zero-padded growable byte string.

Oracle: a bytearray + padding byte.  Reading index i / slice [a:b] (a, b >= 0)
reads the infinite string `content + padding*`; an open-ended slice reads the
content; a write at i / [a:b] (len(value) == b-a) first pads the content up to
the end of the write, then replaces exactly those bytes; `+=` appends;
find/rfind/in answer on the current content.  After every operation
len() and bytes() must equal the model.

Outside the judged domain (not generated): negative steps, slice writes whose
value length differs from the slice length, writes at negative positions,
index reads below -len.
"""
import sys

from vf import common

CHECK = dict(
    id="C33", level="exploration",
    rule=("random histories of 12-40 operations (index/slice reads at, before and past the end, with "
          "steps 1/2 and a few negative bounds; index and slice writes inside, across and past the end; "
          "+=; find/rfind/in with optional bounds; len; bytes) on buffers of 0-12 bytes over the alphabet "
          "{padding, 'A', 'B'} with padding 0x00 or 0xff; distinct = distinct sequences of operation "
          "classes; non-trivial = histories with a past-the-end access and a search"),
    exhaustive={"quick": False, "thorough": False},
    assumptions=["Python bytes/bytearray slicing and find/rfind are the reference"],
    timeout={"quick": 600, "thorough": 3000},
    technique="runtime monitoring: history-vs-shadow-model (bytearray with padding)",
)


def shards(tier, seed, scale):
    per = 1500 if tier == "quick" else 70000
    return common.mk_shards(16, seed, tier, per, scale, salt="c33")


def run_shard(params, rec):
    common.quiet()
    from miasm.loader.strpatchwork import StrPatchwork
    rng = common.rng_for(params)

    for _ in range(params["n"]):
        pad = b"\x00" if rng.random() < 0.75 else b"\xff"
        alpha = [pad, b"A", b"B"]

        def rbytes(n):
            return b"".join(rng.choice(alpha) for _ in range(n))

        init = rbytes(rng.choice([0, 0, 1, 2, 3, 5, 8, 12]))
        explicit_pad = pad != b"\x00" or rng.random() < 0.3
        hist = [("new", init.hex(), pad.hex())]
        try:
            sp = StrPatchwork(init, pad) if explicit_pad else StrPatchwork(init)
        except Exception as exc:
            rec.fail("constructor raises %s" % type(exc).__name__, repr(exc), dict(history=hist))
            continue
        model = bytearray(init)
        iadd_since_write = False
        classes = []
        past_end = searched = False
        rec.ev()
        nops = rng.randint(12, 40)
        dead = False
        for _step in range(nops):
            L = len(model)

            def pos(extra=6):
                r = rng.random()
                if r < 0.25:
                    return L
                if r < 0.35:
                    return L + 1
                return rng.randint(0, L + extra)
            r = rng.random()
            op = None
            want = None
            newmodel = None
            # ------------------------------------------------------------ choose
            if r < 0.14:
                i = pos()
                if L and rng.random() < 0.1:
                    i = -rng.randint(1, L)
                op = ("get", i)
                cls = "get_neg" if i < 0 else ("get_in" if i < L else ("get_at_end" if i == L else "get_past"))
                want = bytes([model[i]]) if i < L else pad
            elif r < 0.34:
                a = rng.choice([None, pos(), pos()])
                b = rng.choice([None, pos(), pos(), pos()])
                step = rng.choice([None, None, None, 1, 2])
                neg = ""
                if L and rng.random() < 0.08:
                    a = -rng.randint(1, L)
                    neg = "_negstart"
                elif L and rng.random() < 0.05 and b is not None:
                    b = -rng.randint(1, L)
                    neg = "_negstop"
                op = ("slice", a, b, step)
                if b is None or b < 0:
                    want = bytes(model[a:b:step])
                    cls = "slice_open" if b is None else "slice" + neg
                else:
                    inf = bytes(model) + pad * max(0, b - L)
                    a2 = a
                    if a is not None and a < 0:
                        a2 = max(0, L + a)      # a negative start counts from the end of the content
                    want = inf[a2:b:step]
                    cls = ("slice_past" if b > L else "slice_in") + neg
            elif r < 0.50:
                i = pos()
                val = rbytes(rng.choice([1, 1, 2, 3, 4]))
                op = ("set", i, val.hex())
                end = i + len(val)
                newmodel = bytearray(model)
                if len(newmodel) < end:
                    newmodel.extend(pad * (end - len(newmodel)))
                newmodel[i:end] = val
                cls = "set_in" if end <= L else ("set_across" if i < L else ("set_at_end" if i == L else "set_past"))
            elif r < 0.62:
                a = pos()
                n = rng.choice([1, 1, 2, 3, 5])
                b = a + n
                val = rbytes(n)
                op = ("setslice", a, b, val.hex())
                newmodel = bytearray(model)
                if len(newmodel) < b:
                    newmodel.extend(pad * (b - len(newmodel)))
                newmodel[a:b] = val
                cls = "setslice_in" if b <= L else ("setslice_across" if a < L else "setslice_past")
            elif r < 0.645:
                a = rng.randint(0, L)
                val = rbytes(L - a)
                op = ("setslice", a, None, val.hex())
                newmodel = bytearray(model)
                newmodel[a:] = val
                cls = "setslice_open"
            elif r < 0.66:
                op = ("set", pos(), None)
                newmodel = bytearray(model)
                cls = "set_none"
            elif r < 0.76:
                val = rbytes(rng.choice([0, 1, 2, 3]))
                op = ("iadd", val.hex())
                newmodel = bytearray(model) + val
                cls = "iadd"
            elif r < 0.93:
                pat = rbytes(rng.choice([1, 1, 2, 2, 3]))
                kind = rng.choice(["find", "rfind"])
                args = ()
                rr = rng.random()
                if rr < 0.25:
                    args = (rng.randint(0, L + 2),)
                elif rr < 0.45:
                    args = (rng.randint(0, L + 2), rng.randint(0, L + 2))
                op = (kind, pat.hex()) + args
                want = getattr(bytes(model), kind)(pat, *args)
                cls = kind + ("_hit" if want >= 0 else "_miss")
            elif r < 0.97:
                pat = rbytes(rng.choice([1, 2, 3]))
                op = ("in", pat.hex())
                want = pat in bytes(model)
                cls = "in"
            else:
                op = ("len",)
                want = L
                cls = "len"
            hist.append(op)
            classes.append(cls)
            rec.count("op:" + cls)
            rec.count("ops")
            if cls in ("get_at_end", "get_past", "slice_past", "set_past", "set_across", "set_at_end",
                       "setslice_past", "setslice_across"):
                past_end = True
            if cls.startswith(("find", "rfind", "in")):
                searched = True
            # ------------------------------------------------------------ run
            got = None
            raised = None
            try:
                k = op[0]
                if k == "get":
                    got = sp[op[1]]
                elif k == "slice":
                    got = sp[slice(op[1], op[2], op[3])]
                elif k == "set":
                    sp[op[1]] = None if op[2] is None else bytes.fromhex(op[2])
                elif k == "setslice":
                    sp[op[1]:op[2]] = bytes.fromhex(op[3])
                elif k == "iadd":
                    sp += bytes.fromhex(op[1])
                elif k in ("find", "rfind"):
                    got = getattr(sp, k)(bytes.fromhex(op[1]), *op[2:])
                elif k == "in":
                    got = bytes.fromhex(op[1]) in sp
                elif k == "len":
                    got = len(sp)
            except Exception as exc:
                raised = "%s: %s" % (type(exc).__name__, exc)
                rname = type(exc).__name__
            wit = dict(history=[list(o) for o in hist], model=bytes(model).hex())
            soft_ok = True
            if raised is not None:
                rec.fail("%s raises %s" % (cls, rname), "%s -> %s" % (op, raised), wit)
            elif newmodel is None and got != want:
                if cls.startswith(("find", "rfind")) and iadd_since_write:
                    key = "find/rfind ignore bytes appended by += (search cache not refreshed)"
                else:
                    key = "%s returns wrong value" % cls
                rec.fail(key, "%s -> %r, model %r" % (op, got, want), wit)
            if raised is None and newmodel is not None:
                model = newmodel
                if op[0] in ("set", "setslice") and not (op[0] == "set" and op[2] is None):
                    iadd_since_write = False
                elif op[0] == "iadd":
                    iadd_since_write = True
            # ------------------------------------------------------------ state
            try:
                cur = bytes(sp)
                curlen = len(sp)
            except Exception as exc:
                rec.fail("bytes()/len() raises %s" % type(exc).__name__, repr(exc), wit)
                dead = True
                break
            if cur != bytes(model) or curlen != len(model):
                if raised is None:
                    rec.fail("%s changes other bytes than the targeted ones" % cls if newmodel is not None
                             else "%s (a read) changes the buffer" % cls,
                             "%s: buffer %r, model %r" % (op, cur, bytes(model)), wit)
                else:
                    rec.fail("%s raised after changing the buffer" % cls,
                             "%s: buffer %r, model %r" % (op, cur, bytes(model)), wit)
                dead = True
                break
        if dead:
            rec.count("histories_stopped")
        rec.distinct(",".join(classes))
        if past_end and searched:
            rec.count("histories_nontrivial")
        if len(rec.samples) < 2:
            rec.sample(dict(history=[list(o) for o in hist], final=bytes(model).hex()))


NEEDED = ["get_in", "get_at_end", "get_past", "slice_in", "slice_past", "slice_open", "set_in", "set_across",
          "set_at_end", "set_past", "setslice_in", "setslice_across", "setslice_past", "iadd", "find_hit",
          "find_miss", "rfind_hit", "rfind_miss", "in", "len"]


def floors(tier, counters, evaluations):
    miss = []
    ops = counters.get("ops", 0)
    for c in NEEDED:
        if counters.get("op:" + c, 0) < max(50, ops // 500):
            miss.append("operation class %s seen %d times" % (c, counters.get("op:" + c, 0)))
    if counters.get("histories_nontrivial", 0) * 2 < evaluations:
        miss.append("fewer than half of the histories have a past-the-end access and a search")
    return miss
