"""C30 assembly CFG edges mirror block constraints.

Oracle: after every API call the expected graph is recomputed from scratch from
the `bto` sets of the blocks the graph holds:
    edges    = {(b, c.loc_key) labelled c.c_t | b held, c in b.bto, c.loc_key held}
    pendings = {c.loc_key | b held, c in b.bto, c.loc_key not held}
and compared with edges() (each edge exactly once), edges2constraint,
successors/predecessors and the non-empty keys of `pendings`; every node must be
a held block (the workload never adds bare nodes).  Accepted calls must also have
their own effect (block present/absent, edge present with the kind / absent).

Deliberate weakenings: (1) when a block has constraints of two kinds to the same
destination (the graph stores one kind per edge) either kind is accepted as the
label; (2) direct `bto` edits are only judged after the documented
`rebuild_edges()`; (3) only the destinations of `pendings` are compared.
"""
from vf import common

CHECK = dict(
    id="C30", level="exploration",
    rule=("random histories of 8-40 mutations over 5 LocKeys: add_block (fresh or re-used block, 0-3 "
          "constraints incl. self-loops, 3% duplicate destinations), del_block, add_edge/del_edge between "
          "held blocks (existing, missing, other kind), merge/copy of a second graph built from its own "
          "blocks, rebuild_edges alone and after direct bto edits; distinct = distinct sequences of "
          "(operation, accepted/rejected); non-trivial = histories that held a pending destination and a "
          "resolved edge"),
    exhaustive={"quick": False, "thorough": False},
    assumptions=["block.bto is the ground truth of a block's constraints",
                 "graphs only contain nodes that are blocks (sanity_check says bare nodes are unsupported)"],
    timeout={"quick": 900, "thorough": 3600},
    technique="runtime monitoring: state invariant recomputed from scratch after every call of a random history",
)

NLK = 5
OPS = ["add_block", "del_block", "add_edge", "del_edge", "merge", "rebuild_edges", "bto_edit+rebuild_edges"]


def shards(tier, seed, scale):
    per = 260 if tier == "quick" else 19000
    return common.mk_shards(16, seed, tier, per, scale, salt="c30")


class Stop(Exception):
    pass


def run_shard(params, rec):
    common.quiet()
    from miasm.core.asmblock import AsmCFG, AsmBlock, AsmConstraint
    from miasm.core.locationdb import LocationDB
    rng = common.rng_for(params)
    KINDS = [AsmConstraint.c_to, AsmConstraint.c_next]

    def new_block(loc_db, lks, lk, dup_ok=True):
        b = AsmBlock(loc_db, lk)
        n = rng.choice([0, 1, 1, 2, 2, 3])
        dsts = [rng.choice(lks) for _ in range(n)]
        if not dup_ok or rng.random() > 0.03:
            dsts = list(dict.fromkeys(dsts))
        elif dsts:
            dsts.append(dsts[0])
        for d in dsts:
            b.bto.add(AsmConstraint(d, rng.choice(KINDS)))
        return b

    def bto_repr(b):
        return sorted((str(c.loc_key), c.c_t) for c in b.bto)

    def dup_class(blocks):
        two_kinds = same_kind = False
        for b in blocks:
            seen = {}
            for c in b.bto:
                seen.setdefault(c.loc_key, []).append(c.c_t)
            for ks in seen.values():
                if len(set(ks)) > 1:
                    two_kinds = True
                elif len(ks) > 1:
                    same_kind = True
        if two_kinds:
            return " [a block has two constraint kinds to one destination]"
        if same_kind:
            return " [a block has two equal constraints to one destination]"
        return ""

    def check_graph(g, lks, opname, hist, involved=()):
        """returns None or (check name, detail)"""
        held = {}
        for lk in lks:
            b = g.loc_key_to_block(lk)
            if b is not None:
                held[lk] = b
        blocks_view = list(g.blocks)
        if sorted(b.loc_key for b in blocks_view) != sorted(held):
            return "blocks and loc_key_to_block disagree", "%r" % sorted(map(str, held))
        nodes = set(g.nodes())
        if nodes != set(held):
            return ("node set differs from the held blocks",
                    "nodes %r blocks %r" % (sorted(map(str, nodes)), sorted(map(str, held))))
        exp = {}
        pend = set()
        for lk, b in held.items():
            for c in b.bto:
                if c.loc_key in held:
                    exp.setdefault((lk, c.loc_key), set()).add(c.c_t)
                else:
                    pend.add(c.loc_key)
        edges = list(g.edges())
        if sorted(edges) != sorted(exp):
            missing = [e for e in exp if e not in edges]
            extra = [e for e in edges if e not in exp or edges.count(e) > 1]
            name = "edge missing for a constraint to a held block" if missing else \
                "edge without constraint (or repeated)"
            return name, "missing %r extra %r" % ([(str(a), str(b)) for a, b in missing],
                                                   [(str(a), str(b)) for a, b in extra])
        e2c = dict(g.edges2constraint)
        if set(e2c) != set(exp):
            return "edges2constraint keys differ from edges", repr(sorted((str(a), str(b)) for a, b in e2c))
        for e, k in e2c.items():
            if k not in exp[e]:
                return "edge labelled with another kind than its constraint", "%s->%s %r, constraints %r" % (
                    e[0], e[1], k, sorted(exp[e]))
        for lk in held:
            if sorted(g.successors(lk)) != sorted(d for (s, d) in exp if s == lk) or \
                    sorted(g.predecessors(lk)) != sorted(s for (s, d) in exp if d == lk):
                return "successors/predecessors differ from edges", str(lk)
        got_pend = set(k for k, v in g.pendings.items() if v)
        if got_pend != pend:
            return ("pendings list a destination no held block waits for" if got_pend - pend
                    else "pendings miss an absent destination",
                    "pendings %r expected %r" % (sorted(map(str, got_pend)), sorted(map(str, pend))))
        return None

    def stale_waiters(g):
        """blocks registered as waiters in pendings that the graph no longer holds"""
        out = []
        for pends in g.pendings.values():
            for p in pends:
                if g.loc_key_to_block(p.waiter.loc_key) is not p.waiter:
                    out.append(p.waiter)
        return out

    STALE_SYMPTOMS = {
        "pendings list a destination no held block waits for": "a destination nobody waits for stays pending",
        "node set differs from the held blocks": "adding the destination later creates an edge from the deleted block",
        "edge without constraint (or repeated)": "adding the destination later creates an edge from the deleted block",
    }

    def describe(g, lks):
        out = {}
        for lk in lks:
            b = g.loc_key_to_block(lk)
            if b is not None:
                out[str(lk)] = bto_repr(b)
        return dict(blocks=out, edges=sorted((str(a), str(b), g.edges2constraint.get((a, b)))
                                             for a, b in g.edges()),
                    pendings=sorted(str(k) for k, v in g.pendings.items() if v),
                    nodes=sorted(str(n) for n in g.nodes()))

    def build_other(loc_db, lks, hist):
        g2 = AsmCFG(loc_db)
        spec = []
        for lk in rng.sample(lks, rng.randint(1, 4)):
            b = new_block(loc_db, lks, lk, dup_ok=False)
            spec.append([str(lk), bto_repr(b)])
            g2.add_block(b)
        return g2, spec

    for _ in range(params["n"]):
        rec.ev()
        loc_db = LocationDB()
        lks = [loc_db.add_location() for _ in range(NLK)]
        g = AsmCFG(loc_db)
        spare = {}          # lk -> block object removed from the graph (may be re-added)
        hist = []
        kinds = []
        had_pending = had_edge = False
        try:
            for _step in range(rng.randint(8, 40)):
                held = [lk for lk in lks if g.loc_key_to_block(lk) is not None]
                absent = [lk for lk in lks if lk not in held]
                r = rng.random()
                post = None
                entry = None
                asserted = False
                stale_pre = stale_waiters(g)
                try:
                    if r < 0.27:
                        opname = "add_block"
                        lk = rng.choice(absent) if absent and rng.random() < 0.85 else rng.choice(lks)
                        if lk in spare and rng.random() < 0.5 and lk not in held:
                            b = spare.pop(lk)
                        else:
                            b = new_block(loc_db, lks, lk)
                        entry = [opname, str(lk), bto_repr(b)]
                        hist.append(entry)
                        was_held = lk in held
                        ret = g.add_block(b)
                        if not was_held:
                            post = (lambda b=b, lk=lk: None if g.loc_key_to_block(lk) is b
                                    else ("add_block did not insert the block", str(lk)))
                        else:
                            post = (lambda b=b, lk=lk: None if g.loc_key_to_block(lk) is not b
                                    else ("add_block replaced a held block", str(lk)))
                    elif r < 0.40:
                        opname = "del_block"
                        lk = rng.choice(held) if held and rng.random() < 0.9 else rng.choice(lks)
                        b = g.loc_key_to_block(lk)
                        entry = [opname, str(lk)]
                        hist.append(entry)
                        if b is None:
                            b = AsmBlock(loc_db, lk)
                        else:
                            spare[lk] = b
                        g.del_block(b)
                        post = (lambda lk=lk: None if g.loc_key_to_block(lk) is None
                                else ("del_block left the block", str(lk)))
                    elif r < 0.54:
                        opname = "add_edge"
                        if len(held) == 0:
                            continue
                        src, dst = rng.choice(held), rng.choice(held)
                        kind = rng.choice(KINDS)
                        entry = [opname, str(src), str(dst), kind]
                        hist.append(entry)
                        g.add_edge(src, dst, kind)
                        post = (lambda src=src, dst=dst, kind=kind:
                                None if g.edges2constraint.get((src, dst)) == kind and (src, dst) in g.edges()
                                else ("add_edge accepted without effect", "%s->%s" % (src, dst)))
                    elif r < 0.66:
                        opname = "del_edge"
                        if len(held) == 0:
                            continue
                        edges = list(g.edges())
                        if edges and rng.random() < 0.8:
                            src, dst = rng.choice(edges)
                        else:
                            src, dst = rng.choice(held), rng.choice(held)
                        entry = [opname, str(src), str(dst)]
                        hist.append(entry)
                        g.del_edge(src, dst)
                        post = (lambda src=src, dst=dst:
                                None if (src, dst) not in g.edges() else
                                ("del_edge accepted without effect", "%s->%s" % (src, dst)))
                    elif r < 0.76:
                        opname = "merge"
                        g2, spec = build_other(loc_db, lks, hist)
                        bad = check_graph(g2, lks, "add_block", hist)
                        if bad:
                            hist.append(["other graph", spec])
                            rec.fail("%s after add_block (second graph)" % bad[0], bad[1],
                                     dict(history=hist, graph=describe(g2, lks)))
                            raise Stop()
                        if rng.random() < 0.25:
                            opname = "copy"
                            entry = [opname]
                            hist.append(entry)
                            g3 = g.copy()
                            bad = check_graph(g3, lks, "copy", hist)
                            if bad is None and (sorted(g3.edges()) != sorted(g.edges()) or
                                                dict(g3.edges2constraint) != dict(g.edges2constraint)):
                                bad = ("copy differs from the original", "")
                            if bad:
                                rec.fail("%s after copy (the copy)%s" % (bad[0], dup_class(g.blocks)), bad[1],
                                         dict(history=hist, graph=describe(g3, lks)))
                                raise Stop()
                        else:
                            entry = [opname, spec]
                            hist.append(entry)
                            other_blocks = {b.loc_key: b for b in g2.blocks}
                            g.merge(g2)
                            post = (lambda ob=other_blocks: None if all(
                                g.loc_key_to_block(lk) is not None for lk in ob)
                                else ("merge did not bring every block", ""))
                    elif r < 0.84:
                        opname = "rebuild_edges"
                        entry = [opname]
                        hist.append(entry)
                        g.rebuild_edges()
                    else:
                        opname = "bto_edit+rebuild_edges"
                        if not held:
                            continue
                        lk = rng.choice(held)
                        b = g.loc_key_to_block(lk)
                        rr = rng.random()
                        cons = sorted(b.bto, key=lambda c: (str(c.loc_key), c.c_t))
                        if rr < 0.40 or not cons:
                            dst = rng.choice(lks)
                            if rng.random() < 0.9:
                                while cons and dst in [c.loc_key for c in cons] and len(cons) < NLK:
                                    dst = rng.choice(lks)
                            b.bto.add(AsmConstraint(dst, rng.choice(KINDS)))
                            what = "add"
                        elif rr < 0.70:
                            b.bto.remove(rng.choice(cons))
                            what = "remove"
                        elif rr < 0.92:
                            c = rng.choice(cons)
                            c.c_t = KINDS[1 - KINDS.index(c.c_t)]
                            what = "flip"
                        else:
                            b.bto = set()
                            what = "clear"
                        entry = [opname, str(lk), what, bto_repr(b)]
                        hist.append(entry)
                        g.rebuild_edges()
                    accepted = True
                except Stop:
                    raise
                except Exception as exc:
                    accepted = False
                    if entry is None:
                        raise
                    entry.append("raised %s" % type(exc).__name__)
                    asserted = isinstance(exc, AssertionError)
                rec.count("op:" + opname)
                rec.count("ops")
                rec.count("accepted" if accepted else "rejected")
                kinds.append(opname + ("" if accepted else "!"))
                bad = check_graph(g, lks, opname, hist)
                if bad is None and accepted and post is not None:
                    bad = post()
                if bad is not None:
                    stale_now = stale_waiters(g)
                    cls = dup_class(list(g.blocks) + stale_pre + stale_now)
                    if cls and not accepted:
                        key = "graph out of sync%s" % cls
                    elif (stale_pre or stale_now) and bad[0] in STALE_SYMPTOMS:
                        key = "del_block leaves the deleted block as a waiter in pendings: %s" % STALE_SYMPTOMS[bad[0]]
                    elif cls:
                        key = "graph out of sync%s" % cls
                    else:
                        key = "%s after %s%s" % (bad[0], opname, "" if accepted else " (raised)")
                    rec.fail(key, bad[1], dict(history=hist, graph=describe(g, lks)))
                    # a stale pending set is repaired by the documented resynchronisation; anything else ends
                    # the history
                    if not bad[0].startswith("pendings"):
                        raise Stop()
                    rec.count("resync_after_failure")
                    try:
                        g.rebuild_edges()
                    except Exception:
                        raise Stop()
                    if check_graph(g, lks, "rebuild_edges", hist) is not None:
                        raise Stop()
                    hist.append(["(harness) rebuild_edges"])
                if asserted and "two constraint kinds" in dup_class(list(g.blocks)):
                    # add_block/merge/add_edge gave up half-way on a block with two kinds to one destination
                    # (the known mechanism): what was skipped may only show later, so the history ends here
                    rec.count("histories_ended_after_two_kinds_assertion")
                    raise Stop()
                if g.pendings and any(g.pendings.values()):
                    had_pending = True
                if g.edges():
                    had_edge = True
        except Stop:
            rec.count("histories_stopped")
        rec.distinct(",".join(kinds))
        if had_pending and had_edge:
            rec.count("histories_nontrivial")
        if len(rec.samples) < 2 and had_pending and had_edge:
            rec.sample(dict(history=hist, final=describe(g, lks)))


def floors(tier, counters, evaluations):
    miss = []
    ops = counters.get("ops", 0)
    for op in OPS:
        if counters.get("op:" + op, 0) * 20 < ops:
            miss.append("operation %s is %d of %d calls (< 5%%)" % (op, counters.get("op:" + op, 0), ops))
    if counters.get("histories_nontrivial", 0) * 2 < evaluations:
        miss.append("fewer than half of the histories had a pending destination and an edge")
    if counters.get("rejected", 0) * 50 < ops:
        miss.append("fewer than 2% rejected calls")
    return miss
