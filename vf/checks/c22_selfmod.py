"""C22 modified code is re-translated before it runs again."""
from vf import common

CHECK = dict(
    id="C22", level="exploration",
    rule=("histories run -> write -> run: a loop-free program is run to its end (translating it), one "
          "instruction A is overwritten by a same-length instruction B with a different effect, then the "
          "program is run again on the SAME jitter from the same registers; the outcome must equal that of a "
          "fresh single-step jitter started on the patched image. Writers: host vm.set_mem of the whole "
          "instruction or of one differing byte (first/middle/last), host set_u8/16/32, and (x86) a guest "
          "store (MOV [abs], imm8 or the string store STOSB) placed earlier in the same program (same block or another block), compared "
          "against the single-step reference of the same self-modifying program. Patched instruction first / "
          "middle / last in the program, jit_maxline in {1,2,3,50}; distinct = (arch, backend, writer, "
          "byte position, instruction position)"),
    assumptions=["LLVM back end unavailable",
                 "pairs (A, B) whose effects do not differ on the chosen state are discarded and counted"],
    overlay={"quick": "plain", "thorough": "asan"},
    crash_is_violation=True,
    timeout={"quick": 1500, "thorough": 6000},
    technique="runtime monitoring: history (run, write, run) on one jitter vs fresh single-step execution of the patched image",
)

ARCHS = ["x86_32", "x86_64", "arml", "aarch64l", "mips32l", "ppc32b", "msp430", "x86_16", "armb",
         "mips32b", "armtl", "mepl"]


def shards(tier, seed, scale):
    per = 10 if tier == "quick" else 450
    out = []
    for i in range(24):
        out.append(dict(seed=seed, shard=i, tier=tier, hashseed=0 if i % 2 == 0 else 1 + seed + i,
                        arch=ARCHS[i % len(ARCHS)], backend="gcc" if (i // len(ARCHS)) % 2 == 0 else "python",
                        n=max(1, int(per * scale))))
    return out


def clone_with_code(jitlib, prog, code):
    q = jitlib.Prog(prog.spec)
    q.code, q.instrs, q.end, q.regs, q.loop = code, prog.instrs, prog.end, dict(prog.regs), prog.loop
    q.pages = []
    for addr, perm, data, name in prog.pages:
        if name == "code":
            data = code + data[len(code):]
        q.pages.append((addr, perm, data, name))
    return q


def x86_store_imm8(spec, addr, value):
    """MOV BYTE PTR [addr], imm8 for the x86 modes (absolute addressing)"""
    import struct
    if spec.mname == "x86_32":
        return b"\xc6\x05" + struct.pack("<I", addr) + bytes([value])
    if spec.mname == "x86_64":
        return b"\xc6\x04\x25" + struct.pack("<I", addr) + bytes([value])
    if spec.mname == "x86_16":
        return b"\xc6\x06" + struct.pack("<H", addr) + bytes([value])
    return None


def x86_store_stos(spec, addr, value):
    """MOV (E/R)DI, addr ; MOV AL, value ; STOSB -- a string store: lifted to several IR blocks, the
    store sits in the head IR block and the exit of the instruction in a later one"""
    import struct
    if spec.mname == "x86_32":
        return [b"\xbf" + struct.pack("<I", addr), b"\xb0" + bytes([value]), b"\xaa"]
    if spec.mname == "x86_64":
        return [b"\x48\xc7\xc7" + struct.pack("<I", addr), b"\xb0" + bytes([value]), b"\xaa"]
    if spec.mname == "x86_16":
        return [b"\xbf" + struct.pack("<H", addr), b"\xb0" + bytes([value]), b"\xaa"]
    return None


def guest_store(spec, form, addr, value):
    if form == "mov":
        return [x86_store_imm8(spec, addr, value)]
    return x86_store_stos(spec, addr, value)


def run_shard(params, rec):
    common.quiet()
    from vf import jitlib
    rng = common.rng_for(params)
    spec = jitlib.ArchSpec(params["arch"])
    backend = params["backend"]
    pool = jitlib.instr_pool(spec, rng, 90)
    if len(pool) < 20:
        rec.count("pool_too_small:" + spec.mname)
        return
    L = spec.L
    by_len = {}
    for p in pool:
        by_len.setdefault(len(p[0]), []).append(p)
    for i in range(params["n"]):
        rec.ev()
        prog = jitlib.make_prog(spec, rng, pool, rng.randrange(3, 9), with_loop=False, fault_bias=0.0)
        body = [(o, ln, t, nm) for o, ln, t, nm in prog.instrs]
        posname = rng.choice(["first", "middle", "last"])
        k = 0 if posname == "first" else (len(body) - 1 if posname == "last" else rng.randrange(0, len(body)))
        off, ln, txt, nm = body[k]
        old = prog.code[off - L.CODE: off - L.CODE + ln]
        cands = [p for p in by_len.get(ln, []) if p[0] != old]
        if not cands:
            rec.count("discarded_no_same_length_instruction")
            continue
        new, new_txt, new_nm = rng.choice(cands)
        diff_idx = [j for j in range(ln) if old[j] != new[j]]
        code2 = prog.code[:off - L.CODE] + new + prog.code[off - L.CODE + ln:]
        guest = spec.family.startswith("x86") and rng.random() < 0.4 and len(diff_idx) == 1
        maxline = rng.choice([1, 2, 3, 50])
        opts = dict(jit_maxline=maxline, max_exec_per_call=rng.choice([0, 0, 1, 3]))
        ref_opts = dict(jit_maxline=1, max_exec_per_call=1)
        wit = dict(machine=spec.mname, backend=backend, opts=opts, patched="%x: %s -> %s" % (off, txt, new_txt),
                   position=posname)
        try:
            if guest:
                # ---- the program patches itself: store placed before the patched instruction
                j0 = diff_idx[0]
                form = rng.choice(["mov", "stos"])
                parts = guest_store(spec, form, 0, 0)
                where = rng.choice(["same_block", "other_block"])
                # layout: [store][body...] ; all offsets move by len(store)
                shift = sum(len(x) for x in parts)
                target = off + shift + j0
                parts = guest_store(spec, form, target, new[j0])
                store = b"".join(parts)
                sm = jitlib.Prog(spec)
                sm.code = store + prog.code
                sm.instrs = []
                o_ = L.CODE
                for x in parts:
                    sm.instrs.append((o_, len(x), "<%s store part -> %x>" % (form, target), "SELFSTORE"))
                    o_ += len(x)
                sm.instrs += [(o + shift, l_, t, n) for o, l_, t, n in prog.instrs]
                sm.end = prog.end + shift
                sm.regs = dict(prog.regs)
                sm.pages = []
                for addr, perm, data, name in prog.pages:
                    if name == "code":
                        data = sm.code + b"\x00" * (jitlib.PAGE - len(sm.code))
                    sm.pages.append((addr, perm, data, name))
                # the patched instruction must not have been decoded as part of a different stream:
                # its own bytes are unchanged except one byte, lengths are equal by construction
                if where == "other_block":
                    opts["jit_maxline"] = max(1, min(opts["jit_maxline"], k + len(parts) - 1))
                got = jitlib.run(spec, backend, sm, options=opts, max_steps=300)
                want = jitlib.run(spec, backend, sm, options=ref_opts, max_steps=300)
                # distinguishable? same program without the store's effect (store writes the old byte)
                same = jitlib.Prog(spec)
                same.__dict__.update(sm.__dict__)
                nostore = b"".join(guest_store(spec, form, target, old[j0]))
                same.code = nostore + prog.code
                same.pages = [(a, p_, (same.code + b"\x00" * (jitlib.PAGE - len(same.code))) if n == "code" else d_, n)
                              for a, p_, d_, n in sm.pages]
                base = jitlib.run(spec, backend, same, options=ref_opts, max_steps=300)
                writer = "guest %s store (%s)" % (form, where)
                wit["prog"] = sm.describe()
            elif rng.random() < 0.5:
                # ---- several writes on a looping program: the loop head starts a second translated block
                # that overlaps the block translated from the program start
                prog = jitlib.make_prog(spec, rng, pool, rng.randrange(5, 10), with_loop=True, fault_bias=0.0)
                # a patched instruction may clobber the loop counter: a finite per-call limit brings an
                # endless guest loop back to the step budget
                opts["max_exec_per_call"] = rng.choice([1, 3, 8])
                wit["patched"] = "multi-write history"
                posname = "-"
                real = [(o, l_, t, n) for o, l_, t, n in prog.instrs
                        if n != "LOOPTAIL" and o not in prog.delay_slots]
                jitter = jitlib.new_jitter(spec, backend, prog, opts)
                all_regs = jitter.cpu.get_gpreg()
                first = jitlib.run(spec, backend, prog, max_steps=300, jitter=jitter)
                if first.budget or first.raised:
                    rec.count("discarded_first_run")
                    continue
                entries = [L.CODE] + ([prog.loop[0]] if prog.loop else [])
                image = bytearray(prog.code)
                before = [x for x in real if prog.loop and x[0] < prog.loop[0]]
                inside = [x for x in real if prog.loop and prog.loop[0] <= x[0] < prog.loop[1]]
                order = []
                if before and inside:
                    order = [rng.choice(before), rng.choice(inside)]
                order += rng.sample(real, min(len(real), rng.choice([0, 1])))
                steps = []
                for w, (o_, l_, t_, n_) in enumerate(order):
                    cnd = [q for q in by_len.get(l_, []) if q[0] != bytes(image[o_ - L.CODE:o_ - L.CODE + l_])]
                    if not cnd:
                        continue
                    nb, ntxt, _ = rng.choice(cnd)
                    cur_ = bytes(image[o_ - L.CODE:o_ - L.CODE + l_])
                    dif_ = [x_ for x_ in range(l_) if cur_[x_] != nb[x_]]
                    if rng.random() < 0.5:
                        # only the bytes that change (patching an immediate / a displacement): the write may
                        # start in the middle or on the last byte of the instruction
                        jitter.vm.set_mem(o_ + dif_[0], nb[dif_[0]:dif_[-1] + 1])
                        steps.append("write %x+%d..%d: %s -> %s" % (o_, dif_[0], dif_[-1], t_, ntxt))
                        if dif_[0] > 0:
                            rec.count("multi_write_starting_inside_an_instruction")
                    else:
                        jitter.vm.set_mem(o_, nb)
                        steps.append("write %x: %s -> %s" % (o_, t_, ntxt))
                    image[o_ - L.CODE:o_ - L.CODE + l_] = nb
                    if w < len(order) - 1:
                        k_ = rng.random()
                        if k_ < 0.65:
                            # intermediate run: mostly entering at the loop head, so that the block
                            # translated from the program start is invalidated but not translated again
                            jitter.cpu.set_gpreg(all_regs)
                            jitter.vm.set_exception(jitter.vm.get_exception() & 1)
                            jitter.cpu.set_exception(0)
                            e_ = entries[-1] if rng.random() < 0.75 else entries[0]
                            mid = rerun(jitlib, spec, prog, jitter, start=e_)
                            steps.append("run from %x" % e_)
                            if mid.budget:
                                break
                        elif k_ < 0.85:
                            # a breakpoint de-jits the blocks around its address at once
                            jitter.add_breakpoint(o_, lambda j: True)
                            steps.append("add_breakpoint %x" % o_)
                if len([x for x in steps if x.startswith("write")]) < 2:
                    rec.count("discarded_no_same_length_instruction")
                    continue
                snap = jitlib.Outcome()
                jitlib.snapshot(jitter, spec, snap)
                entry = entries[-1] if rng.random() < 0.7 else entries[0]
                steps.append("final run from %x" % entry)
                jitter.cpu.set_gpreg(all_regs)
                jitter.vm.set_exception(jitter.vm.get_exception() & 1)
                jitter.cpu.set_exception(0)
                got = rerun(jitlib, spec, prog, jitter, start=entry)
                fresh = jitlib.Prog(spec)
                fresh.code, fresh.instrs, fresh.end, fresh.regs = bytes(image), prog.instrs, prog.end, dict(prog.regs)
                names = {a_: (p_, n_) for a_, p_, d_, n_ in prog.pages}
                fresh.pages = [(addr, names[addr][0], data, names[addr][1])
                               for addr, (data, access) in sorted(snap.mem.items())]
                want = jitlib.run(spec, backend, fresh, options=ref_opts, max_steps=300, start=entry)
                unpatched = jitlib.Prog(spec)
                unpatched.__dict__.update(fresh.__dict__)
                unpatched.pages = [(a_, p_, (prog.code + d_[len(prog.code):]) if n_ == "code" else d_, n_)
                                   for a_, p_, d_, n_ in fresh.pages]
                base = jitlib.run(spec, backend, unpatched, options=ref_opts, max_steps=300, start=entry)
                writer = "multi-write history"
                wit["steps"] = steps
                wit["prog"] = prog.describe()
            else:
                writer = rng.choice(["set_mem instruction", "set_mem byte", "set_u8", "set_u16", "set_u32"])
                jitter = jitlib.new_jitter(spec, backend, prog, opts)
                all_regs = jitter.cpu.get_gpreg()
                first = jitlib.run(spec, backend, prog, max_steps=300, jitter=jitter)
                if first.budget or first.raised:
                    rec.count("discarded_first_run")
                    continue
                # memory after the first run, then the patch
                if writer == "set_mem instruction" or len(diff_idx) > 1 and writer == "set_mem byte":
                    jitter.vm.set_mem(off, new)
                    writer = "set_mem instruction"
                    bytepos = "all"
                else:
                    j0 = rng.choice(diff_idx)
                    if writer == "set_mem byte":
                        jitter.vm.set_mem(off + j0, new[j0:j0 + 1])
                    elif writer == "set_u8":
                        jitter.vm.set_u8(off + j0, new[j0])
                    else:
                        width = 2 if writer == "set_u16" else 4
                        start = min(max(0, j0 - rng.randrange(0, width)), max(0, ln - width))
                        if start + width > ln:
                            jitter.vm.set_u8(off + j0, new[j0])
                            writer = "set_u8"
                        else:
                            chunk = bytes(new[start + t_] if (start + t_) == j0 else old[start + t_]
                                          for t_ in range(width))
                            val = int.from_bytes(chunk, "big" if spec.big else "little")
                            getattr(jitter.vm, "set_u%d" % (width * 8))(off + start, val)
                    # only byte j0 changed: the image now holds `old` with one byte of `new`
                    patched = bytearray(old)
                    patched[j0] = new[j0]
                    code2 = prog.code[:off - L.CODE] + bytes(patched) + prog.code[off - L.CODE + ln:]
                    bytepos = "first" if j0 == 0 else ("last" if j0 == ln - 1 else "middle")
                wit["byte"] = bytepos
                if rng.random() < 0.3:
                    # a breakpoint added between the write and the next run (it de-jits around its
                    # address) must not make the pending code modification be forgotten
                    bp_at = rng.choice(prog.instrs)[0]
                    jitter.add_breakpoint(bp_at, lambda j: True)
                    writer += " + add_breakpoint"
                snap = jitlib.Outcome()
                jitlib.snapshot(jitter, spec, snap)
                # second run on the same jitter
                jitter.cpu.set_gpreg(all_regs)       # every register back to its initial value
                jitter.vm.set_exception(jitter.vm.get_exception() & 1)   # keep only CODE_AUTOMOD
                jitter.cpu.set_exception(0)
                got = rerun(jitlib, spec, prog, jitter)
                # fresh single-step jitter on the patched image (memory as left by the first run)
                fresh = jitlib.Prog(spec)
                fresh.code, fresh.instrs, fresh.end, fresh.regs = code2, prog.instrs, prog.end, dict(prog.regs)
                fresh.pages = []
                names = {a: (p_, n) for a, p_, d_, n in prog.pages}
                for addr, (data, access) in sorted(snap.mem.items()):
                    fresh.pages.append((addr, names[addr][0], data, names[addr][1]))
                want = jitlib.run(spec, backend, fresh, options=ref_opts, max_steps=300)
                unpatched = jitlib.Prog(spec)
                unpatched.__dict__.update(fresh.__dict__)
                unpatched.pages = [(a, p_, (prog.code + d_[len(prog.code):]) if n == "code" else d_, n)
                                   for a, p_, d_, n in fresh.pages]
                base = jitlib.run(spec, backend, unpatched, options=ref_opts, max_steps=300)
                wit["prog"] = prog.describe()
        except Exception as exc:
            rec.count("harness_case_error")
            rec.extra.setdefault("harness_case_error", repr(exc)[:300])
            continue
        if "CalledProcessError" in (got.raised, want.raised, base.raised):
            rec.count("unsupported_by_backend")
            continue
        if got.raised or want.raised or base.raised:
            # the patched bytes decode to an instruction the lifter does not support: translation of
            # a block raises before anything runs, which depends on the block length (outside the
            # "supported instructions" the properties quantify over)
            rec.count("discarded_unsupported_patched_instruction")
            continue
        if got.budget or want.budget:
            rec.count("discarded_budget")
            continue
        if jitlib.diff_outcomes(want, base, spec, skip=()) is None:
            rec.count("discarded_indistinguishable")
            continue
        rec.count("compared")
        cell = "%s|%s|%s" % (writer, wit.get("byte", "-"), posname)
        rec.count("cell:" + cell)
        rec.distinct("%s|%s|%s|%s" % (spec.mname, backend, cell, maxline))
        d = jitlib.diff_outcomes(want, got, spec)
        if d is not None:
            stale = jitlib.diff_outcomes(base, got, spec) is None
            rec.fail("%s: %s after %s (%s)" % (backend, "old instruction still executed" if stale
                                               else "second run differs from the patched image", writer,
                                               "maxline=1" if maxline == 1 else "maxline>1"),
                     "%s %s: %s; %s %s" % (spec.mname, backend, wit["patched"], d[0], d[1]), dict(wit, diff=d))
            continue
        rec.count("ok")
        if i % 10 == 0:
            rec.sample(dict(machine=spec.mname, backend=backend, writer=writer, patched=wit["patched"],
                            maxline=maxline), limit=8)


def rerun(jitlib, spec, prog, jitter, start=None):
    out = jitlib.Outcome()
    state = dict(steps=0)

    def count(j):
        state["steps"] += 1
        if state["steps"] > 300:
            out.budget = True
            return False
        return True
    jitter.exec_cb = count
    try:
        jitter.run(start if start is not None else spec.L.CODE)
    except Exception as exc:
        out.raised = type(exc).__name__
    jitlib.snapshot(jitter, spec, out)
    return out


def floors(tier, counters, evaluations):
    miss = []
    if counters.get("compared", 0) < 0.3 * evaluations:
        miss.append("only %d of %d histories compared" % (counters.get("compared", 0), evaluations))
    writers = set(k.split(":", 1)[1].split("|")[0] for k in counters if k.startswith("cell:"))
    base_writers = set(w.split(" + ")[0] for w in writers)
    if "set_mem instruction" not in base_writers:
        miss.append("writer 'set_mem instruction' never exercised")
    if len(base_writers & {"set_mem byte", "set_u8", "set_u16", "set_u32"}) < 2:
        miss.append("fewer than two partial-byte host writers exercised")
    if evaluations >= 150:
        if not any(w.startswith("guest mov store") for w in writers) or \
                not any(w.startswith("guest stos store") for w in writers):
            miss.append("guest store writer never exercised")
        if "multi-write history" not in writers:
            miss.append("multi-write histories never compared")
    return miss
