"""C36 IR graph simplification preserves observable behaviour.

Oracle: the independent concrete IR interpreter (vf.irinterp) runs the original
graph and the simplified graph from the same initial state; the sequence of
memory writes and call events, the exit and the values of the ABI output
registers (return value, stack pointer) at the exit must agree.

Pipelines (driven the way the repository itself drives them):
  common      IRCFGSimplifierCommon(lifter_model_call).simplify(ircfg, head)
              -- example/disasm/full.py --simplify, example/ida/graph_ir.py
  ssa         IRCFGSimplifierSSA(lifter_model_call).simplify(ircfg, head)
              -- example/disasm/full.py --propagexpr (stock lifter, no dummy)
  ssa+dummy   same, after appending a trailing AssignBlock {reg: reg} for the
              ABI output registers to every leaf -- example/ida/graph_ir.py as it
              actually executes (its IRAOutRegs class is defined but never
              instantiated; the simplifier gets the stock lifter).
The lifter's get_out_regs returns the *original* register names in all three:
DeadRemoval maps every destination back through expr_to_original_expr
(= all_ssa_vars) before comparing it with get_out_regs, so a get_out_regs that
answers SSA names (IRAOutRegs of test/analysis/unssa.py) makes the shipped
DeadRemoval drop the return value and the stack pointer.  That combination is
therefore NOT driven here (it would be the harness, not the pipeline, that is
wrong).  Graphs with an explicit jump to a location outside the graph
("incomplete leaf") are only given to the plain pipeline.

[weakened on purpose] a silent store (writes the bytes the location already
holds; `@[p] = @[p]` is dropped by AssignBlock.simplify as a self-assignment) is
not counted as a memory write, on either side.

A failure attributed to ssa_to_unssa is keyed by mechanism monitors that watch
UnSSADiGraph from outside: every Phi source must be copied at the end of its
parent after insert_parallel_copy ("parallel copies of a Phi lost"), and an
independent liveness on the graph before replace_merge_sets must not find a
member of a merge set live after the definition of another ("interfering
variables coalesced").

"The variable that stands for register R" at the exit of an SSA-pipeline
result: the most recently assigned variable V on the executed path with
lifter.ssa_var[V] == R (R itself when none was assigned).  With the leaf dummy
this is the dummy's destination.

Per-pass attribution: the `passes` lists of the simplifier objects are wrapped
by recorders that keep a snapshot (dict of blocks) after every pass, as are
ircfg_to_ssa / ssa_to_unssa and the passes of the final IRCFGSimplifierCommon;
on a failing input every snapshot is interpreted (Phi = most recently defined
argument) and the first one that deviates names the guilty pass."""
from vf import common

CHECK = dict(
    id="C36", level="translation_validation",
    rule=("(a) random structured function-like IR over the x86_32/x86_64 register files: if/else "
          "diamonds, if-then, bounded loops (counter register nothing else writes, <= 8 trips), breaks, "
          "early exits to a shared epilogue, constant conditions, dead assignments, overlapping "
          "loads/stores, modelled calls, ret-like leaves; (b) x86_32/x86_64 functions assembled from "
          "templates with miasm's assembler, disassembled and lifted with lifter_model_call. Each "
          "graph is simplified by the plain pipeline and the SSA pipeline (with and without the leaf "
          "dummy of the ida example) and executed from >= 8 initial states (2 with aliasing pointers); "
          "distinct = distinct region structures x machine"),
    assumptions=["vf.irinterp / vf.refsem define concrete IR semantics (parallel assignment, "
                 "little-endian byte memory, calls = uninterpreted functions of their arguments)",
                 "Phi(v1..vn) in intermediate SSA snapshots = the argument defined most recently (attribution only)",
                 "an exception raised by a pipeline is counted (rejected), not a violation: the statement "
                 "speaks about the graph that is yielded"],
    timeout={"quick": 900, "thorough": 5400},
    exhaustive={"quick": False, "thorough": False},
    technique="runtime monitoring: translation validation of each simplified graph against the original "
              "by differential concrete execution, with per-pass snapshots for attribution",
    level_text="every simplified graph produced in the run is validated on sampled initial states",
)

PIPELINES = ("common", "ssa", "ssa+dummy")
N_STATES = 8
MAX_STEPS = 3000


def shards(tier, seed, scale):
    per = 26 if tier == "quick" else 1000
    per_asm = 4 if tier == "quick" else 90
    return common.mk_shards(16, seed, tier, per, scale, n_asm=max(1, int(per_asm * scale)))


# --------------------------------------------------------------------------
# driving the pipelines with recorders

class Stages(object):
    def __init__(self):
        self.items = []     # (name, blocks snapshot, modified)
        self.notes = {}     # mechanism monitors of the out-of-SSA step: cause -> example

    def add(self, name, graph, modified):
        self.items.append((name, dict(graph.blocks), bool(modified)))


def _wrap(fn, stages, prefix, graph_of):
    name = prefix + fn.__name__

    def wrapped(graph, head):
        ret = fn(graph, head)
        stages.add(name, graph_of(graph), ret)
        return ret
    wrapped.__name__ = fn.__name__
    return wrapped


def run_common(ctx, ircfg, head, stages):
    from miasm.analysis.simplifier import IRCFGSimplifierCommon
    lifter = ctx.machine.lifter_model_call(ctx.loc_db)
    simp = IRCFGSimplifierCommon(lifter)
    simp.passes = [_wrap(p, stages, "", lambda g: g) for p in simp.passes]
    simp.simplify(ircfg, head)
    return ircfg, {}


def add_leaf_dummies(lifter, ircfg):
    """example/ida/graph_ir.py: 'Add dummy dependency to uncover out regs affectation'"""
    from miasm.ir.ir import AssignBlock, IRBlock
    for loc in ircfg.leaves():
        irblock = ircfg.blocks.get(loc)
        if irblock is None:
            continue
        regs = {}
        for reg in lifter.get_out_regs(irblock):
            regs[reg] = reg
        assignblks = list(irblock)
        assignblks.append(AssignBlock(regs, assignblks[-1].instr))
        ircfg.blocks[loc] = IRBlock(irblock.loc_db, irblock.loc_key, assignblks)


# ---- mechanism monitors of the out-of-SSA step (used to key a failure attributed to ssa_to_unssa)

def _ids_read(assignblk):
    out = set()
    for dst, src in assignblk.items():
        out.update(x for x in src.get_r(mem_read=True) if x.is_id())
        if dst.is_mem():
            out.update(x for x in dst.ptr.get_r(mem_read=True) if x.is_id())
    return out


def unssa_lost_copies(unssa):
    """after insert_parallel_copy: every Phi source must be copied into the Phi's
    new variable at the end of the parent it comes from"""
    graph = unssa.ssa.graph
    lost = []
    for dst, parent_srcs in unssa.phi_parent_sources.items():
        new_var = unssa.phi_new_var[dst]
        for parent, src in parent_srcs:
            blk = graph.blocks.get(parent)
            if blk is None or not any(ab.get(new_var, None) == src for ab in blk):
                lost.append("%s = %s at the end of %s" % (new_var, src, parent))
    return lost


def unssa_interfering_merges(unssa):
    """before replace_merge_sets: own liveness on the graph with the parallel copies
    in place; two different variables of one merge set interfere when one is live
    after an assignblock that defines the other (a plain copy between the two
    excepted) or when one assignblock defines both."""
    graph = unssa.ssa.graph
    blocks = graph.blocks
    use, defs = {}, {}
    for loc, blk in blocks.items():
        use[loc] = [_ids_read(ab) for ab in blk]
        defs[loc] = [set(d for d in ab if d.is_id()) for ab in blk]
    live_in = dict((loc, set()) for loc in blocks)
    live_after = {}
    changed = True
    while changed:
        changed = False
        for loc, blk in blocks.items():
            live = set()
            for succ in graph.successors(loc):
                live |= live_in.get(succ, set())
            after = [None] * len(blk)
            for i in range(len(blk) - 1, -1, -1):
                after[i] = set(live)
                live = use[loc][i] | (live - defs[loc][i])
            live_after[loc] = after
            if live != live_in[loc]:
                live_in[loc] = live
                changed = True
    merged = {}
    for var, mset in unssa.merge_state.items():
        if len(mset) > 1:
            merged[var] = mset
    found = []
    for loc, blk in blocks.items():
        for i, ab in enumerate(blk):
            ds = defs[loc][i]
            for x in ds:
                mset = merged.get(x)
                if mset is None:
                    continue
                for y in mset:
                    if y == x:
                        continue
                    if y in ds:
                        found.append("%s and %s defined together in %s" % (x, y, loc))
                    elif y in live_after[loc][i] and ab[x] != y:
                        found.append("%s live after the definition of %s in %s" % (y, x, loc))
                if len(found) > 3:
                    return found
    return found


def run_ssa(ctx, ircfg, head, stages, dummy):
    import miasm.analysis.simplifier as simplifier_mod
    lifter = ctx.machine.lifter_model_call(ctx.loc_db)
    if dummy:
        add_leaf_dummies(lifter, ircfg)
        stages.add("leaf_dummies", ircfg, True)
    base_common = simplifier_mod.IRCFGSimplifierCommon
    base_ssa = simplifier_mod.IRCFGSimplifierSSA

    orig_init_passes = base_common.init_passes

    def rec_init_passes(self):
        # the post-SSA simplifier instantiated inside IRCFGSimplifierSSA.simplify
        # (IRCFGSimplifierSSA overrides init_passes, so only plain instances come here)
        orig_init_passes(self)
        self.passes = [_wrap(p, stages, "post:", lambda g: g) for p in self.passes]

    class RecSSA(base_ssa):
        n_to_ssa = 0

        def ircfg_to_ssa(self, graph, head_):
            ssa = base_ssa.ircfg_to_ssa(self, graph, head_)
            stages.add("ircfg_to_ssa" if self.n_to_ssa == 0 else "ircfg_to_ssa(update)", ssa.graph, True)
            self.n_to_ssa += 1
            return ssa

        def ssa_to_unssa(self, ssa, head_):
            graph = base_ssa.ssa_to_unssa(self, ssa, head_)
            stages.add("ssa_to_unssa", graph, True)
            return graph

    from miasm.analysis.outofssa import UnSSADiGraph
    orig_ipc = UnSSADiGraph.insert_parallel_copy
    orig_rms = UnSSADiGraph.replace_merge_sets

    def mon_ipc(self):
        ret = orig_ipc(self)
        try:
            lost = unssa_lost_copies(self)
            if lost:
                stages.notes["parallel copies of a Phi lost"] = lost[:3]
        except Exception as exc:
            stages.notes["monitor error"] = repr(exc)
        return ret

    def mon_rms(self):
        try:
            # (liveness is meaningless once copies are missing)
            bad = [] if "parallel copies of a Phi lost" in stages.notes else unssa_interfering_merges(self)
            if bad:
                stages.notes["interfering variables coalesced"] = bad[:3]
        except Exception as exc:
            stages.notes["monitor error"] = repr(exc)
        return orig_rms(self)

    simp = RecSSA(lifter)
    simp.passes = [_wrap(p, stages, "", lambda ssa: ssa.graph) for p in simp.passes]
    base_common.init_passes = rec_init_passes
    UnSSADiGraph.insert_parallel_copy = mon_ipc
    UnSSADiGraph.replace_merge_sets = mon_rms
    try:
        out = simp.simplify(ircfg, head)
    finally:
        base_common.init_passes = orig_init_passes
        UnSSADiGraph.insert_parallel_copy = orig_ipc
        UnSSADiGraph.replace_merge_sets = orig_rms
    return out, dict(lifter.ssa_var)


def run_pipeline(name, ctx, ircfg, head, stages):
    if name == "common":
        return run_common(ctx, ircfg, head, stages)
    return run_ssa(ctx, ircfg, head, stages, dummy=(name == "ssa+dummy"))


# --------------------------------------------------------------------------
# comparison

def fmt_event(e):
    if e[0] == "w":
        return "store @%d[0x%x] = 0x%x" % (8 * e[2], e[1], e[3])
    return "%s(%s)" % (e[1], ", ".join("0x%x" % a for a in e[2]))


def fmt_exit(ctx, x):
    from miasm.expression.expression import LocKey
    if isinstance(x, LocKey):
        return ctx.loc_db.pretty_str(x)
    return "0x%x" % x


def compare(ctx, ref, ref_events, got, got_events, ssa_var, out_regs):
    """-> None or (diff class, text)"""
    from vf.models import irfunc_gen as G
    if got.status != "exit":
        if got.status == "budget":
            return "nonterminating", "the simplified graph is still running after %d steps (original: %d)" % (
                got.steps, ref.steps)
        return "skip:" + got.status, got.detail
    if ref_events != got_events:
        n = 0
        while n < len(ref_events) and n < len(got_events) and ref_events[n] == got_events[n]:
            n += 1
        a = fmt_event(ref_events[n]) if n < len(ref_events) else "<end>"
        b = fmt_event(got_events[n]) if n < len(got_events) else "<end>"
        kinds = set()
        for ev in (ref_events[n:n + 1] + got_events[n:n + 1]):
            kinds.add("call" if ev[0] == "c" else "store")
        if n >= len(ref_events) or n >= len(got_events):
            kinds.add("missing" if n >= len(got_events) else "extra")
        return "events:" + "+".join(sorted(kinds)), "event #%d: original %s, simplified %s" % (n, a, b)
    if ref.exit != got.exit:
        return "exit", "original exits to %s, simplified to %s" % (fmt_exit(ctx, ref.exit), fmt_exit(ctx, got.exit))
    for tag, reg in out_regs:
        want = ref.env.ident(reg)
        var, val = G.out_reg_value(got, reg, ssa_var)
        if val != want:
            return "outreg:" + tag, "%s at exit: original 0x%x, simplified 0x%x (read through %s)" % (
                reg, want, val, var)
    return None


def phi_left(blocks):
    for loc, blk in blocks.items():
        for ab in blk:
            for dst, src in ab.items():
                if any(x.is_op("Phi") for x in _subexprs(src)):
                    return "%s = %s in %s" % (dst, common.short(src, 120), loc)
    return None


def _subexprs(expr):
    out = []

    def cb(x):
        out.append(x)
        return x
    expr.visit(cb)
    return out


def make_key(pname, guilty, diff_class, stages):
    if guilty == "ssa_to_unssa":
        causes = sorted(c for c in stages.notes if c != "monitor error")
        if causes:
            # the out-of-SSA step is shared by both SSA protocols: one key per mechanism
            return "pass=ssa_to_unssa cause=%s" % " + ".join(causes)
    return "pipeline=%s pass=%s diff=%s" % (pname, guilty, diff_class)


def attribute(ctx, head, stages, ids, seed, ref, ref_events, ssa_var, out_regs):
    """first snapshot whose behaviour deviates from the original"""
    from vf.models import irfunc_gen as G
    for name, blocks, modified in stages.items:
        env = G.mkenv(ctx, ids, seed)
        try:
            got, got_events = G.observe(blocks, ctx, head, env, 4 * MAX_STEPS + 100, phi_mode=True)
        except Exception as exc:
            return name, "snapshot not interpretable: %r" % (exc,)
        d = compare(ctx, ref, ref_events, got, got_events, ssa_var, out_regs)
        if d is not None and not d[0].startswith("skip:"):
            return name, d[1]
    return "unattributed", "no intermediate snapshot deviates"


def dump_graph(ctx, blocks, limit=40):
    """one string per block; assignments of one (parallel) AssignBlock are joined by ' || '"""
    out = []
    for loc, blk in list(blocks.items())[:limit]:
        lines = [ctx.loc_db.pretty_str(loc) + ":"]
        for ab in blk:
            lines.append("    " + " || ".join("%s = %s" % (d, s) for d, s in ab.items()))
        out.append("\n".join(lines))
    return out


# --------------------------------------------------------------------------

def check_graph(rec, rng, ctx, ircfg, head, info, tier, case_id):
    from vf.models import irfunc_gen as G
    from vf.models import cpulimit
    kind = info["kind"]
    out_regs = [("ret", ctx.ret_reg), ("sp", ctx.sp)]
    # [weakened on purpose] a *silent* store (one that writes the bytes the location
    # already holds, e.g. `@[p] = @[p]`, which AssignBlock.simplify drops as a
    # self-assignment, also after propagation turned `r = @[p]; @[p] = r` into it) is
    # not counted as a memory write: G.observe removes silent stores on both sides.
    results = {}
    for pname in PIPELINES:
        if pname != "common" and "leaf_incomplete" in info["features"]:
            # a jump to a location outside the graph: DeadRemoval documents the case ("incomplete
            # leaf", every definition kept) but no register stands for the ABI registers at such
            # an exit of an SSA result; only the plain pipeline is driven on these graphs
            rec.count("skipped_incomplete_leaf:" + pname)
            continue
        work = G.copy_graph(ircfg)
        stages = Stages()
        rec.count("pipeline_runs:" + pname)
        try:
            with cpulimit.cpu_limit(20):
                out, ssa_var = run_pipeline(pname, ctx, work, head, stages)
        except cpulimit.CpuTimeout:
            rec.count("rejected_timeout:" + pname)
            continue
        except Exception as exc:
            rec.count("rejected_raises:%s:%s" % (pname, type(exc).__name__))
            rec.sample(dict(rejected=pname, exc=repr(exc)[:200], shape=info["shape"]), limit=12)
            continue
        rec.count("pipeline_ok:" + pname)
        left = phi_left(out.blocks)
        if left:
            # not a behavioural question: the result of the pipeline must be out of SSA
            wit = dict(info)
            wit.update(pipeline=pname, simplified=dump_graph(ctx, out.blocks), original=dump_graph(ctx, ircfg.blocks))
            rec.fail("pipeline=%s pass=ssa_to_unssa result still contains Phi" % pname,
                     "%s (%s): %s" % (pname, kind, left), wit)
            continue
        for name in set(n for n, _, m in stages.items if m):
            rec.count("modified:%s:%s" % (pname, name))
        if set(out.blocks) != set(ircfg.blocks):
            rec.count("blocks_changed:" + pname)
        for c in stages.notes:
            rec.count("unssa_monitor:%s:%s" % (pname, c))
        results[pname] = (out, ssa_var, stages)
    if not results:
        return
    n_ok = 0
    failed = set()
    for k in range(N_STATES):
        ids = G.initial_ids(rng, ctx, alias=(k >= N_STATES - 2))
        seed = case_id * 16 + k
        ref, ref_events = G.observe(ircfg, ctx, head, G.mkenv(ctx, ids, seed), MAX_STEPS)
        if ref.status != "exit":
            rec.count("skip_original_" + ref.status)
            continue
        n_ok += 1
        rec.count("states_run")
        rec.count("path_blocks", len(ref.path))
        rec.count("events_compared", len(ref_events))
        if any(e[0] == "c" for e in ref_events):
            rec.count("states_with_call")
        if any(e[0] == "w" for e in ref_events):
            rec.count("states_with_store")
        if len(ref.path) != len(set(ref.path)):
            rec.count("states_with_loop_iteration")
        for pname, (out, ssa_var, stages) in results.items():
            if pname in failed:
                continue
            got, got_events = G.observe(out, ctx, head, G.mkenv(ctx, ids, seed), 4 * MAX_STEPS + 100, phi_mode=True)
            d = compare(ctx, ref, ref_events, got, got_events, ssa_var, out_regs)
            rec.count("compared:" + pname)
            if d is None:
                continue
            if d[0].startswith("skip:"):
                rec.count("skip_simplified_%s:%s" % (d[0][5:], pname))
                continue
            failed.add(pname)
            guilty, why = attribute(ctx, head, stages, ids, seed, ref, ref_events, ssa_var, out_regs)
            key = make_key(pname, guilty, d[0], stages)
            wit = dict(info)
            wit["unssa_monitors"] = stages.notes
            wit.update(pipeline=pname, guilty_pass=guilty, first_deviation=why,
                       regs={str(r): hex(v) for r, v in ids.items()}, mem_seed=seed,
                       head=ctx.loc_db.pretty_str(head),
                       original=dump_graph(ctx, ircfg.blocks), simplified=dump_graph(ctx, out.blocks),
                       stages=[(n, m) for n, _, m in stages.items][:80])
            rec.fail(key, "%s (%s): %s" % (pname, kind, d[1]), wit)
    if n_ok:
        rec.count("graphs_compared:" + kind)
    if tier == "thorough" and n_ok and case_id % 4 == 0:
        # errors that cancel out: every snapshot on one state
        deep_check(rec, rng, ctx, ircfg, head, info, results, out_regs, case_id, failed)


def deep_check(rec, rng, ctx, ircfg, head, info, results, out_regs, case_id, failed):
    from vf.models import irfunc_gen as G
    ids = G.initial_ids(rng, ctx)
    seed = case_id * 16 + 15
    ref, ref_events = G.observe(ircfg, ctx, head, G.mkenv(ctx, ids, seed), MAX_STEPS)
    if ref.status != "exit":
        return
    for pname, (out, ssa_var, stages) in results.items():
        if pname in failed:
            continue
        for name, blocks, modified in stages.items:
            if not modified:
                continue
            try:
                got, got_events = G.observe(blocks, ctx, head, G.mkenv(ctx, ids, seed), 4 * MAX_STEPS + 100,
                                            phi_mode=True)
            except Exception:
                rec.count("deep_snapshot_not_interpretable")
                continue
            rec.count("deep_snapshots_compared")
            d = compare(ctx, ref, ref_events, got, got_events, ssa_var, out_regs)
            if d is None or d[0].startswith("skip:"):
                continue
            key = make_key(pname, name, d[0], stages)
            if not key.startswith("pass=ssa_to_unssa cause="):
                key += " (intermediate)"
            wit = dict(info)
            wit.update(pipeline=pname, guilty_pass=name, regs={str(r): hex(v) for r, v in ids.items()},
                       mem_seed=seed, original=dump_graph(ctx, ircfg.blocks), snapshot=dump_graph(ctx, blocks))
            rec.fail(key, "%s: snapshot after %s: %s" % (pname, name, d[1]), wit)
            break


def run_shard(params, rec):
    common.quiet()
    common.limit_memory(4)
    from vf.models import cpulimit
    cpulimit.install()
    import pyparsing
    pyparsing.ParserElement.enable_packrat()
    from vf.models import irfunc_gen as G
    rng = common.rng_for(params)
    tier = params["tier"]
    case_id = params["shard"] * 1000000
    for i in range(params["n"]):
        machine = ("x86_32", "x86_64")[i % 2]
        ctx, ircfg, head, info = G.gen_function(rng, machine, allow_incomplete_leaf=True)
        rec.ev()
        rec.count("graphs:random-ir")
        rec.distinct(machine + "|" + info["shape"])
        for f in info["features"]:
            rec.count("feature:" + f)
        if i % 10 == 0:
            rec.sample(dict(kind="random-ir", machine=machine, shape=info["shape"], nblocks=info["nblocks"]))
        check_graph(rec, rng, ctx, ircfg, head, info, tier, case_id + i)
    for i in range(params.get("n_asm", 0)):
        machine = ("x86_32", "x86_64")[i % 2]
        try:
            ctx, ircfg, head, info = G.gen_asm_function(rng, machine)
        except Exception as exc:
            rec.count("asm_rejected:" + type(exc).__name__)
            continue
        rec.ev()
        rec.count("graphs:asm")
        rec.distinct(machine + "|asm|" + info["shape"])
        for f in info["features"]:
            rec.count("feature:asm_" + f)
        if i % 3 == 0:
            rec.sample(dict(kind="asm", machine=machine, asm=info["asm"][:600]), limit=8)
        check_graph(rec, rng, ctx, ircfg, head, info, tier, case_id + 500000 + i)


PASS_FLOORS = {
    "common": ["simplify_ircfg", "do_dead_simp_ircfg"],
    "ssa": ["simplify_ssa", "do_propagate_expressions", "do_del_dummy_phi", "do_dead_simp_ssa",
            "do_remove_empty_assignblks", "do_del_unused_edges", "do_merge_blocks",
            "post:do_dead_simp_ircfg"],
}
PASS_FLOORS["ssa+dummy"] = PASS_FLOORS["ssa"]


def floors(tier, counters, evaluations):
    miss = []
    for p in PIPELINES:
        runs = counters.get("pipeline_runs:" + p, 0)
        ok = counters.get("pipeline_ok:" + p, 0)
        if ok < 0.6 * max(1, runs):
            miss.append("pipeline %s produced a graph for only %d of %d inputs" % (p, ok, runs))
        for name in PASS_FLOORS[p]:
            m = counters.get("modified:%s:%s" % (p, name), 0)
            if m < 0.05 * max(1, ok):
                miss.append("pass %s of pipeline %s modified the graph in %d of %d cases (< 5%%)" % (name, p, m, ok))
        if counters.get("compared:" + p, 0) < 4 * max(1, ok):
            miss.append("pipeline %s: fewer than 4 states compared per graph" % p)
    n_asm = counters.get("graphs:asm", 0) + sum(v for k, v in counters.items() if k.startswith("asm_rejected:"))
    if counters.get("graphs_compared:asm", 0) < max(8, 0.7 * n_asm):
        miss.append("only %d of %d lifted x86 functions compared" % (counters.get("graphs_compared:asm", 0), n_asm))
    sr = max(1, counters.get("states_run", 0))
    for c, frac in (("states_with_call", 0.2), ("states_with_store", 0.5), ("states_with_loop_iteration", 0.2)):
        if counters.get(c, 0) < frac * sr:
            miss.append("%s in only %d of %d executed states" % (c, counters.get(c, 0), sr))
    return miss
