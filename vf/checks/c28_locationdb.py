"""C28 the location database stays consistent.

Oracle: a shadow model (location -> offset, names) driven by the *requests*:
after every API call
  * the observable state (every getter, over the whole name/offset/LocKey pool)
    must equal the model: a call that raised must leave it unchanged, an
    accepted call must have changed exactly the requested association;
  * each offset maps to at most one location and back, each name to exactly one
    location that lists it (checked on the observed tables, by icontract
    invariants attached to a harness-side subclass, and by miasm's own
    consistency_check());
  * non-strict add_location must return a LocKey carrying the requested name
    and offset;
  * merge must import every association of the other database whenever the two
    databases are compatible (no name/offset forces two locations of the target,
    or two offsets, into one location).
Which conflicting requests are refused is not judged (the statement does not say);
if such a request is accepted the model displaces the older association.
"""
from vf import common

CHECK = dict(
    id="C28", level="exploration",
    rule=("random histories of 10-60 public API calls over 4 names (incl. the empty name), 5 offsets (incl. 0, 2**32-1, 2**64-1) and the LocKeys returned so "
          "far (live, removed, foreign): add_location strict/non-strict with name and/or offset, "
          "get_or_create_*, add/remove_location_name, set_location_offset with/without force, "
          "unset_location_offset, remove_location, merge of a second independently built database; "
          "distinct = distinct sequences of (call kind, accepted/rejected); non-trivial = histories with "
          "a rejected call and a merge"),
    exhaustive={"quick": False, "thorough": False},
    assumptions=["the public getters are the observable state",
                 "LocKeys of two databases may coincide (merge renumbers)"],
    timeout={"quick": 900, "thorough": 3600},
    deps=True,
    technique=("runtime monitoring: history-vs-shadow-model; icontract class invariants on a harness-side "
               "subclass of LocationDB"),
)

# small pools so that collisions are the norm; they include the values a truthiness test or a width
# assumption would mishandle (offset 0, the empty name, 2**32-1, 2**64-1)
NAMES = ["n0", "n1", "", "loc_0000000000000010"]
OFFSETS = [0, 1, 0x10, 2 ** 32 - 1, 2 ** 64 - 1]


def shards(tier, seed, scale):
    per = 320 if tier == "quick" else 25000
    return common.mk_shards(16, seed, tier, per, scale, salt="c28")


# --------------------------------------------------------------------------- model
class Model(object):
    def __init__(self):
        self.locs = {}      # lk -> [offset or None, set(names)]

    def copy(self):
        m = Model()
        m.locs = {lk: [v[0], set(v[1])] for lk, v in self.locs.items()}
        return m

    def name_loc(self, name):
        for lk, v in self.locs.items():
            if name in v[1]:
                return lk
        return None

    def offset_loc(self, off):
        for lk, v in self.locs.items():
            if v[0] == off and off is not None:
                return lk
        return None

    def bind_name(self, lk, name):
        old = self.name_loc(name)
        if old is not None and old != lk:
            self.locs[old][1].discard(name)
        self.locs[lk][1].add(name)

    def bind_offset(self, lk, off):
        old = self.offset_loc(off)
        if old is not None and old != lk:
            self.locs[old][0] = None
        self.locs[lk][0] = off

    def view(self):
        per = {lk: (v[0], frozenset(v[1])) for lk, v in self.locs.items()}
        names = {}
        offs = {}
        for lk, v in self.locs.items():
            for n in v[1]:
                names[n] = lk
            if v[0] is not None:
                offs[v[0]] = lk
        return per, names, offs


def merge_plan(model, foreign):
    """foreign: list of (set(names), offset).  Returns (compatible, groups) where groups is a list of
    (local lk or None, names, offset) for the groups that contain a foreign location."""
    parent = {}

    def find(x):
        while parent.setdefault(x, x) != x:
            parent[x] = parent[parent[x]]
            x = parent[x]
        return x

    def union(a, b):
        parent[find(a)] = find(b)

    for i, (names, off) in enumerate(foreign):
        find(("F", i))
        for n in names:
            lk = model.name_loc(n)
            if lk is not None:
                union(("F", i), ("L", lk))
        if off is not None:
            lk = model.offset_loc(off)
            if lk is not None:
                union(("F", i), ("L", lk))
    groups = {}
    for x in list(parent):
        groups.setdefault(find(x), []).append(x)
    out = []
    ok = True
    for members in groups.values():
        locals_ = [m[1] for m in members if m[0] == "L"]
        fors = [m[1] for m in members if m[0] == "F"]
        if not fors:
            continue
        names = set()
        offsets = set()
        for lk in locals_:
            names |= model.locs[lk][1]
            if model.locs[lk][0] is not None:
                offsets.add(model.locs[lk][0])
        for i in fors:
            names |= foreign[i][0]
            if foreign[i][1] is not None:
                offsets.add(foreign[i][1])
        if len(locals_) > 1 or len(offsets) > 1:
            ok = False
        out.append((locals_[0] if locals_ else None, names, min(offsets) if offsets else None))
    return ok, out


# --------------------------------------------------------------------------- monitored class
def make_monitored():
    import icontract
    from miasm.core.locationdb import LocationDB
    from miasm.expression.expression import LocKey
    B = LocationDB
    stats = {"evals": 0}

    def inv_offsets(self):
        stats["evals"] += 1
        for off in B.offsets.fget(self):
            lk = B.get_offset_location(self, off)
            if not isinstance(lk, LocKey) or lk not in B.loc_keys.fget(self):
                return False
            if B.get_location_offset(self, lk) != off:
                return False
        return True

    def inv_loc_offsets(self):
        stats["evals"] += 1
        seen = set()
        for lk in B.loc_keys.fget(self):
            off = B.get_location_offset(self, lk)
            if off is None:
                continue
            if off in seen or B.get_offset_location(self, off) != lk:
                return False
            seen.add(off)
        return True

    def inv_names(self):
        stats["evals"] += 1
        for name in B.names.fget(self):
            lk = B.get_name_location(self, name)
            if not isinstance(lk, LocKey) or lk not in B.loc_keys.fget(self):
                return False
            if name not in B.get_location_names(self, lk):
                return False
        return True

    def inv_loc_names(self):
        stats["evals"] += 1
        seen = set()
        for lk in B.loc_keys.fget(self):
            for name in B.get_location_names(self, lk):
                if name in seen or B.get_name_location(self, name) != lk:
                    return False
                seen.add(name)
        return True

    def inv_selfcheck(self):
        stats["evals"] += 1
        try:
            B.consistency_check(self)
        except AssertionError:
            return False
        return True

    invs = [("each offset maps to a location that carries it", inv_offsets),
            ("each location's offset maps back to it, offsets unique", inv_loc_offsets),
            ("each name maps to a location that lists it", inv_names),
            ("each listed name maps back to its location, names unique", inv_loc_names),
            ("consistency_check passes", inv_selfcheck)]

    class MonitoredLocationDB(LocationDB):
        pass

    cls = MonitoredLocationDB
    for desc, fn in invs:
        cls = icontract.invariant(fn, description=desc)(cls)
    return cls, invs, stats, icontract.ViolationError


def observe(B, db):
    """observable state through the (unwrapped) public getters"""
    lks = set(B.loc_keys.fget(db))
    per = {lk: (B.get_location_offset(db, lk), B.get_location_names(db, lk)) for lk in lks}
    names = {}
    for n in set(NAMES) | set(B.names.fget(db)):
        lk = B.get_name_location(db, n)
        if lk is not None:
            names[n] = lk
    offs = {}
    for o in set(OFFSETS) | set(B.offsets.fget(db)):
        lk = B.get_offset_location(db, o)
        if lk is not None:
            offs[o] = lk
    return per, names, offs


def tables_consistent(view):
    per, names, offs = view
    for n, lk in names.items():
        if lk not in per or n not in per[lk][1]:
            return "name %r -> %r which does not list it" % (n, lk)
    for o, lk in offs.items():
        if lk not in per or per[lk][0] != o:
            return "offset %#x -> %r whose offset is %r" % (o, lk, per.get(lk, (None,))[0])
    seen_n, seen_o = {}, {}
    for lk, (o, ns) in per.items():
        if o is not None:
            if o in seen_o or offs.get(o) != lk:
                return "location %r has offset %#x mapped to %r" % (lk, o, offs.get(o))
            seen_o[o] = lk
        for n in ns:
            if n in seen_n or names.get(n) != lk:
                return "location %r lists %r mapped to %r" % (lk, n, names.get(n))
            seen_n[n] = lk
    return None


def fmt_view(view):
    per, names, offs = view
    return dict(locations={str(lk): [o, sorted(ns)] for lk, (o, ns) in per.items()},
                names={n: str(lk) for n, lk in names.items()},
                offsets={str(o): str(lk) for o, lk in offs.items()})


class Stop(Exception):
    pass


class History(object):
    def __init__(self, cls, B, LocKey, vio, rec, rng, tag):
        self.B, self.LocKey, self.vio, self.rec, self.rng = B, LocKey, vio, rec, rng
        self.db = cls()
        self.model = Model()
        self.pool = []            # LocKeys ever returned
        self.log = []
        self.tag = tag
        self.kinds = []
        self.rejected = 0
        self.merges = 0

    def witness(self):
        return dict(db=self.tag, calls=self.log, model=fmt_view(self.model.view()))

    def fail(self, key, what, stop=True):
        self.rec.fail(key, what, self.witness())
        if stop:
            raise Stop()

    def pick_lk(self):
        r = self.rng.random()
        if self.pool and r < 0.9:
            return self.rng.choice(self.pool)
        return self.LocKey(900 + self.rng.randrange(3))

    def compare(self, opname, rejected):
        got = observe(self.B, self.db)
        want = self.model.view()
        if got != want:
            bad = tables_consistent(got)
            if rejected:
                self.fail("rejected %s changed the database" % opname,
                          "observed %r, before the call %r" % (fmt_view(got), fmt_view(want)))
            if bad:
                self.fail("tables inconsistent after %s" % opname, bad + " -- " + repr(fmt_view(got)))
            self.fail("unexpected state after accepted %s" % opname,
                      "observed %r, expected %r" % (fmt_view(got), fmt_view(want)))

    def call(self, opname, fn, *args, **kwargs):
        """returns (accepted, result)"""
        self.log.append([opname] + [str(a) if isinstance(a, self.LocKey) else a for a in args] +
                        [[k, v] for k, v in sorted(kwargs.items())])
        self.rec.count("call:" + opname)
        self.rec.count("calls")
        try:
            res = fn(*args, **kwargs)
        except self.vio as exc:
            which = "?"
            for desc, inv in self.invs:
                try:
                    if not inv(self.db):
                        which = desc
                        break
                except Exception:
                    which = desc + " (raises)"
                    break
            self.fail("icontract invariant broken around %s: %s" % (opname, which), str(exc)[:600])
        except Exception as exc:
            self.rejected += 1
            self.rec.count("rejected")
            self.rec.count("rejected:" + opname)
            self.kinds.append(opname + "!")
            self.log[-1].append("raised %s" % type(exc).__name__)
            self.last_exc = type(exc).__name__
            return False, None
        self.kinds.append(opname)
        return True, res

    # ---- one random call
    def step(self):
        rng, db, model, LocKey = self.rng, self.db, self.model, self.LocKey
        r = rng.random()
        if r < 0.22:
            name = rng.choice(NAMES + [None, None])
            off = rng.choice(OFFSETS + [None, None])
            strict = rng.random() < 0.45
            name_known = name is not None and model.name_loc(name) is not None
            off_known = off is not None and model.offset_loc(off) is not None
            opname = "add_location(strict)" if strict else "add_location(non-strict)"
            kw = {}
            if name is not None:
                kw["name"] = name
            if off is not None:
                kw["offset"] = off
            ok, ret = self.call(opname, db.add_location, strict=strict, **kw)
            if ok:
                cond = "name %s, offset %s" % (
                    "absent" if name is None else ("known" if name_known else "new"),
                    "absent" if off is None else ("known" if off_known else "new"))
                if not isinstance(ret, LocKey):
                    self.fail("%s returns %s [%s]" % (opname, type(ret).__name__, cond),
                              "returned %r" % (ret,), stop=False)
                    # the state may still be right: go on with the location that should have been returned
                    ret = model.offset_loc(off) if off_known else (model.name_loc(name) if name_known else None)
                    if ret is None:
                        raise Stop()
                if strict and ret in model.locs:
                    self.fail("strict add_location returns an existing location [%s]" % cond, repr(ret))
                if ret not in model.locs:
                    model.locs[ret] = [None, set()]
                    self.pool.append(ret)
                if name is not None:
                    model.bind_name(ret, name)
                if off is not None:
                    model.bind_offset(ret, off)
                self.rec.count("add_location:" + cond)
            self.compare(opname, not ok)
            if ok:
                # the returned location must carry what was asked for
                if name is not None and name not in self.B.get_location_names(db, ret):
                    self.fail("%s result does not carry the name" % opname, "%r %r" % (ret, name))
                if off is not None and self.B.get_location_offset(db, ret) != off:
                    self.fail("%s result does not carry the offset" % opname, "%r %#x" % (ret, off))
        elif r < 0.30:
            if rng.random() < 0.5:
                name = rng.choice(NAMES)
                ok, ret = self.call("get_or_create_name_location", db.get_or_create_name_location, name)
                if ok:
                    old = model.name_loc(name)
                    if not isinstance(ret, LocKey) or (old is not None and ret != old):
                        self.fail("get_or_create_name_location returns wrong location", "%r, had %r" % (ret, old))
                    if old is None:
                        if ret in model.locs:
                            self.fail("get_or_create_name_location reuses a location", repr(ret))
                        model.locs[ret] = [None, set([name])]
                        self.pool.append(ret)
                self.compare("get_or_create_name_location", not ok)
            else:
                off = rng.choice(OFFSETS)
                ok, ret = self.call("get_or_create_offset_location", db.get_or_create_offset_location, off)
                if ok:
                    old = model.offset_loc(off)
                    if not isinstance(ret, LocKey) or (old is not None and ret != old):
                        self.fail("get_or_create_offset_location returns wrong location", "%r, had %r" % (ret, old))
                    if old is None:
                        if ret in model.locs:
                            self.fail("get_or_create_offset_location reuses a location", repr(ret))
                        model.locs[ret] = [off, set()]
                        self.pool.append(ret)
                self.compare("get_or_create_offset_location", not ok)
        elif r < 0.42:
            lk, name = self.pick_lk(), rng.choice(NAMES)
            ok, _ = self.call("add_location_name", db.add_location_name, lk, name)
            if ok:
                if lk not in model.locs:
                    self.fail("add_location_name accepted for a loc_key not in the database", repr(lk))
                model.bind_name(lk, name)
            self.compare("add_location_name", not ok)
        elif r < 0.52:
            lk, name = self.pick_lk(), rng.choice(NAMES)
            if rng.random() < 0.5 and lk in model.locs and model.locs[lk][1]:
                name = sorted(model.locs[lk][1])[0]
            ok, _ = self.call("remove_location_name", db.remove_location_name, lk, name)
            if ok and lk in model.locs:
                model.locs[lk][1].discard(name)
            self.compare("remove_location_name", not ok)
        elif r < 0.68:
            lk, off, force = self.pick_lk(), rng.choice(OFFSETS), rng.random() < 0.5
            opname = "set_location_offset(force)" if force else "set_location_offset"
            ok, _ = self.call(opname, db.set_location_offset, lk, off, force=force)
            if ok:
                if lk not in model.locs:
                    self.fail("set_location_offset accepted for a loc_key not in the database", repr(lk))
                model.bind_offset(lk, off)
            self.compare(opname, not ok)
        elif r < 0.76:
            lk = self.pick_lk()
            ok, _ = self.call("unset_location_offset", db.unset_location_offset, lk)
            if ok and lk in model.locs:
                model.locs[lk][0] = None
            self.compare("unset_location_offset", not ok)
        elif r < 0.86:
            lk = self.pick_lk()
            ok, _ = self.call("remove_location", db.remove_location, lk)
            if ok:
                model.locs.pop(lk, None)
            self.compare("remove_location", not ok)
        elif r < 0.93:
            ok, _ = self.call("consistency_check", db.consistency_check)
            if not ok:
                self.fail("consistency_check raises %s" % self.last_exc, "")
            self.compare("consistency_check", False)
        else:
            return "merge"
        return None

    def merge(self, other):
        """other: a finished History (its db is consistent with its model)"""
        model, db = self.model, self.db
        foreign = [(set(v[1]), v[0]) for v in other.model.locs.values()]
        compatible, groups = merge_plan(model, foreign)
        self.merges += 1
        self.rec.count("merge:" + ("compatible" if compatible else "conflicting"))
        n_assoc = sum(len(f[0]) + (f[1] is not None) for f in foreign)
        self.rec.count("merge_associations", n_assoc)
        # condition classes used in keys
        #  a: a foreign location brings a name unknown here to an offset known here
        #  b: a foreign location has names known here and names unknown here
        cond_a = any(off is not None and model.offset_loc(off) is not None and
                     any(model.name_loc(n) is None for n in names) for names, off in foreign)
        cond_b = any(any(model.name_loc(n) is None for n in names) and
                     any(model.name_loc(n) is not None for n in names) for names, off in foreign)
        self.log.append(["other database", fmt_view(other.model.view())["locations"]])
        ok, _ = self.call("merge", db.merge, other.db)
        if not ok:
            if compatible:
                if self.last_exc == "AssertionError" and cond_a:
                    cond = "a foreign location brings a new name to a known offset"
                elif self.last_exc == "KeyError" and cond_b:
                    cond = "a foreign location has a known name and a new name"
                else:
                    cond = "other"
                self.fail("merge of compatible databases raises %s [%s]" % (self.last_exc, cond), "")
            got = observe(self.B, db)
            if got != model.view():
                self.fail("rejected merge leaves part of the other database imported",
                          "%s; observed %r, before the call %r" % (self.last_exc, fmt_view(got),
                                                                  fmt_view(model.view())))
            return
        # accepted: every association must be there
        got = observe(self.B, db)
        per, names, offs = got
        for fnames, foff in foreign:
            targets = set(names.get(n) for n in fnames)
            if foff is not None:
                targets.add(offs.get(foff))
            if None in targets or len(targets) > 1:
                self.fail("merge does not import every association [%s]" % (
                    "compatible" if compatible else "conflicting"),
                    "foreign location names=%r offset=%r ends up as %r" % (sorted(fnames), foff, targets))
        if not compatible:
            self.fail("merge accepted conflicting databases", "but every association was found")
        # build the expected model, naming the new locations after the real ones
        for lk, gnames, goff in groups:
            if lk is None:
                lk = names.get(sorted(gnames)[0]) if gnames else offs.get(goff)
                if lk is None:
                    continue        # a foreign location without name nor offset
                if lk in model.locs:
                    self.fail("merge bound a new group to an existing location", repr(lk))
                model.locs[lk] = [None, set()]
                self.pool.append(lk)
            for n in gnames:
                model.bind_name(lk, n)
            if goff is not None:
                model.bind_offset(lk, goff)
        for lk, (o, ns) in per.items():
            if lk not in model.locs and o is None and not ns:
                model.locs[lk] = [None, set()]       # anonymous foreign locations
                self.pool.append(lk)
        self.compare("merge", False)


def run_shard(params, rec):
    common.quiet()
    from miasm.core.locationdb import LocationDB
    from miasm.expression.expression import LocKey
    rng = common.rng_for(params)
    cls, invs, stats, vio = make_monitored()

    def build(tag, nops, allow_merge):
        h = History(cls, LocationDB, LocKey, vio, rec, rng, tag)
        h.invs = invs
        for _ in range(nops):
            if h.step() == "merge" and allow_merge:
                other = build("other", rng.randint(2, 9), False)
                if other is None:
                    continue
                h.merge(other)
        return h

    for _ in range(params["n"]):
        rec.ev()
        h = None
        try:
            h = build("main", rng.randint(10, 60), True)
        except Stop:
            rec.count("histories_stopped")
            continue
        rec.distinct(",".join(h.kinds))
        if h.merges:
            rec.count("histories_with_merge")
        if h.merges and h.rejected:
            rec.count("histories_nontrivial")
        if len(rec.samples) < 2 and h.merges:
            rec.sample(h.witness())
    rec.count("icontract_invariant_evaluations", stats["evals"])


def floors(tier, counters, evaluations):
    miss = []
    calls = counters.get("calls", 0)
    if counters.get("rejected", 0) * 4 < calls:
        miss.append("fewer than 25%% of the calls were rejected (%d/%d)" % (counters.get("rejected", 0), calls))
    if counters.get("histories_with_merge", 0) * 10 < evaluations:
        miss.append("fewer than 10% of the histories contain a merge")
    for k in ("merge:compatible", "merge:conflicting", "call:add_location(strict)",
              "call:add_location(non-strict)", "call:set_location_offset(force)", "call:remove_location",
              "rejected:merge", "add_location:name new, offset known", "add_location:name known, offset new"):
        if counters.get(k, 0) < 20:
            miss.append("%s seen %d times" % (k, counters.get(k, 0)))
    if counters.get("icontract_invariant_evaluations", 0) < calls:
        miss.append("icontract invariants evaluated fewer times than there were calls")
    return miss
