"""C40 constant propagation preserves behaviour.

API under test (example/expression/constant_propagation.py):
    propagate_cst_expr(lifter_model_call, ircfg, head, lifter.arch.regs.regs_init)
rewrites the graph in place; the rewritten expressions read the `R_init`
symbols, so the concrete start state gives every `R_init` the value of R.

Oracle: vf.irinterp runs the original and the rewritten graph from the same
state; register values at the exit, the sequence of memory writes / calls, the
path of blocks and the exit must agree.  On a mismatch the original is re-run in
lock step: every rewritten assignment is evaluated in the original's pre-state
of that assignblock; the first one whose value differs names the mechanism."""
from vf import common

CHECK = dict(
    id="C40", level="translation_validation",
    rule=("(a) random structured function-like IR (vf.models.irfunc_gen, profile 'cst': constants flowing "
          "through registers and memory, load / store to the same, an overlapping or another address / use "
          "of the loaded register, joins where constants agree or disagree, bounded loops that overwrite, "
          "calls); (b) x86_32/x86_64 template functions assembled, disassembled and lifted with "
          "lifter_model_call. propagate_cst_expr rewrites a copy, both graphs run from >= 8 states "
          "(2 with aliasing pointer registers); distinct = region structure x machine"),
    assumptions=["vf.irinterp / vf.refsem define concrete IR semantics",
                 "every register R starts with the value of its R_init symbol (regs_init)",
                 "an exception raised by propagate_cst_expr is counted (rejected), not a violation"],
    timeout={"quick": 900, "thorough": 5400},
    exhaustive={"quick": False, "thorough": False},
    technique="runtime monitoring: translation validation of each rewritten graph by differential concrete "
              "execution, lock-step evaluation of the rewritten assignments for attribution",
    level_text="every rewritten graph produced in the run is validated on sampled initial states",
)

N_STATES = 8
MAX_STEPS = 3000


def shards(tier, seed, scale):
    per = 60 if tier == "quick" else 1500
    per_asm = 4 if tier == "quick" else 90
    return common.mk_shards(16, seed, tier, per, scale, n_asm=max(1, int(per_asm * scale)))


def init_ids(ctx, ids, seed):
    """ids + the value of every R_init symbol (= value of R in the start state)"""
    from vf import refsem
    env = refsem.Env(ids=dict(ids), seed=seed)
    out = dict(ids)
    for reg, reg_init in ctx.lmc.arch.regs.regs_init.items():
        out[reg] = env.ident(reg)
        out[reg_init] = out[reg]
    return out


def has_new_mem(new, old):
    mo = set(x for x in old.get_r(mem_read=True) if x.is_mem())
    return any(x.is_mem() and x not in mo for x in new.get_r(mem_read=True))


def lockstep(ctx, ircfg, new_blocks, head, ids, seed):
    """-> (key detail, text) for the first rewritten assignment that evaluates differently in the
    original run's pre-state, or None"""
    from vf import refsem, irinterp
    from vf.models import irfunc_gen as G
    found = []
    dummy_events = []
    hook = irinterp.call_hook_factory(dummy_events)

    def track(loc, idx, assignblk, env):
        if found:
            return
        nblk = new_blocks.get(loc)
        if nblk is None or idx >= len(nblk):
            found.append(("structure", "block %s changed shape" % ctx.loc_db.pretty_str(loc)))
            return
        nab = nblk[idx]
        if len(nab) != len(assignblk):
            found.append(("structure", "assignblock %s/%d has %d assignments, original %d" % (
                ctx.loc_db.pretty_str(loc), idx, len(nab), len(assignblk))))
            return
        for (dst, src), (ndst, nsrc) in zip(assignblk.items(), nab.items()):
            pairs = [("source", src, nsrc)]
            if dst.is_mem() and ndst.is_mem():
                pairs.append(("store pointer", dst.ptr, ndst.ptr))
            elif dst != ndst:
                found.append(("structure", "destination %s became %s" % (dst, ndst)))
                return
            for what, old, new in pairs:
                if old == new:
                    continue
                try:
                    a = refsem.evaluate(old, env, hook)
                    b = refsem.evaluate(new, env, hook)
                except (refsem.Undef, refsem.Unsupported):
                    continue
                if a != b:
                    mech = "rewritten to an expression of another value"
                    found.append(("%s %s" % (what, mech),
                                  "%s/%d: %s of '%s = %s' rewritten to '%s' : 0x%x instead of 0x%x" % (
                                      ctx.loc_db.pretty_str(loc), idx, what, dst, common.short(src, 150),
                                      common.short(new, 200), b, a)))
                    return
    env = G.mkenv(ctx, ids, seed)
    irinterp.run(ircfg, ctx.loc_db, head, env, max_steps=MAX_STEPS, irdst=ctx.IRDst, track=track)
    return found[0] if found else None


def differs(ctx, rec, graph, head, ids, seed, ref, ref_events):
    """-> None | "skip" | (class, text)"""
    from vf.models import irfunc_gen as G
    from vf.checks.c36_irsimp import fmt_event, fmt_exit
    got, got_events = G.observe(graph, ctx, head, G.mkenv(ctx, ids, seed), MAX_STEPS + 100, drop_silent=False)
    got_events = [e for e in got_events if e[0] == "w"]
    if got.status != "exit":
        if got.status == "budget":
            return ("nonterminating", "rewritten graph still running after %d steps (original %d)" % (
                got.steps, ref.steps))
        if rec is not None:
            rec.count("skip_rewritten_" + got.status)
        return "skip"
    if got.path != ref.path:
        n = 0
        while n < len(ref.path) and n < len(got.path) and ref.path[n] == got.path[n]:
            n += 1
        return ("destination", "after %d blocks the original goes to %s, the rewritten graph to %s" % (
            n, fmt_exit(ctx, ref.path[n]) if n < len(ref.path) else "exit",
            fmt_exit(ctx, got.path[n]) if n < len(got.path) else "exit"))
    if got_events != ref_events:
        n = 0
        while n < len(ref_events) and n < len(got_events) and ref_events[n] == got_events[n]:
            n += 1
        return ("memory writes", "event #%d: original %s, rewritten %s" % (
            n, fmt_event(ref_events[n]) if n < len(ref_events) else "<end>",
            fmt_event(got_events[n]) if n < len(got_events) else "<end>"))
    if got.exit != ref.exit:
        return ("destination", "exit %s vs %s" % (fmt_exit(ctx, ref.exit), fmt_exit(ctx, got.exit)))
    regs = set(ctx.all_regs()) | set(r for r in ref.last_def if r.is_id() and r != ctx.IRDst)
    for r in sorted(regs, key=str):
        if rec is not None:
            rec.count("registers_compared")
        if ref.env.ident(r) != got.env.ident(r):
            return ("register value", "%s at exit: original 0x%x, rewritten 0x%x" % (
                r, ref.env.ident(r), got.env.ident(r)))
    return None


class patched_propagation(object):
    """Context manager: SymbExecStateFix.is_expr_cst (the class attribute the module offers 'to test
    if an Expression is considered as a constant') refuses every expression that reads memory
    (@no_mem_cst) and/or the engines keep no knowledge about memory across a store (@forget_stores)."""

    def __init__(self, no_mem_cst, forget_stores):
        self.no_mem_cst = no_mem_cst
        self.forget_stores = forget_stores

    def __enter__(self):
        from miasm.analysis import cst_propag
        self.mod = cst_propag
        self.orig = cst_propag.SymbExecStateFix.__dict__["is_expr_cst"]

        def nomem(self_, lifter, expr):
            if any(e.is_mem() for e in expr.get_r(mem_read=True)):
                return False
            return cst_propag.is_expr_cst(lifter, expr)

        def no_write(self_, dst, src):
            # the store is not remembered, and every register whose symbolic value is read
            # from memory loses that value (it may describe the memory before this store)
            ids = self_.symbols.symbols_id
            for reg, val in list(ids.items()):
                if any(e.is_mem() for e in val.get_r(mem_read=True)):
                    del ids[reg]
            return None
        if self.no_mem_cst:
            cst_propag.SymbExecStateFix.is_expr_cst = nomem
        if self.forget_stores:
            cst_propag.SymbExecStateFix.mem_write = no_write
            cst_propag.SymbExecState.mem_write = no_write

    def __exit__(self, *a):
        cst_propag = self.mod
        cst_propag.SymbExecStateFix.is_expr_cst = self.orig
        if self.forget_stores:
            del cst_propag.SymbExecStateFix.mem_write
            del cst_propag.SymbExecState.mem_write
        return False


def propagate(ctx, ircfg, head):
    """a rewritten copy of @ircfg, driven like example/expression/constant_propagation.py"""
    from miasm.analysis.cst_propag import propagate_cst_expr
    from vf.models import irfunc_gen as G
    work = G.copy_graph(ircfg)
    lifter = ctx.machine.lifter_model_call(ctx.loc_db)
    propagate_cst_expr(lifter, work, head, lifter.arch.regs.regs_init)
    return work


def whatif(ctx, ircfg, head, ids, seed, ref, ref_events, forget_stores):
    """True when, with memory reads not constant (and, @forget_stores, no symbolic memory), the
    rewritten graph behaves like the original on this state"""
    try:
        with patched_propagation(True, forget_stores):
            work = propagate(ctx, ircfg, head)
    except Exception:
        return False
    return differs(ctx, None, work, head, ids, seed, ref, ref_events) is None


KEY_MEM_CST = ("is_expr_cst takes an expression that reads memory for a constant: "
               "propagated past a store to that memory")
KEY_STALE_MEM = ("a store through another symbolic base does not invalidate what the engine knows about the "
                 "memory it overlaps (non-aliasing assumption): stale stored value or stale load reused")

# configuration "no-mem-cst": the same API with the documented customisation point is_expr_cst
# refusing memory reads.  It is checked as well because the first known finding (memory reads are
# constants) fires on a quarter of the graphs and would otherwise hide every other defect there.
CONFIGS = ("default", "no-mem-cst")


def check_graph(rec, rng, ctx, ircfg, head, info, case_id):
    from vf.models import irfunc_gen as G
    from vf.models import cpulimit
    from vf.checks.c36_irsimp import dump_graph
    kind = info["kind"]
    works = {}
    for cfg in CONFIGS:
        rec.count("propag_runs:" + cfg)
        try:
            with cpulimit.cpu_limit(20):
                with patched_propagation(cfg == "no-mem-cst", False):
                    works[cfg] = propagate(ctx, ircfg, head)
        except cpulimit.CpuTimeout:
            rec.count("rejected_timeout:" + cfg)
            continue
        except Exception as exc:
            rec.count("rejected_raises:%s:%s" % (cfg, type(exc).__name__))
            rec.sample(dict(rejected=repr(exc)[:200], config=cfg, shape=info["shape"]), limit=12)
            continue
        rec.count("propag_ok:" + cfg)
        n_rewritten = 0
        n_mem_intro = 0
        for loc, blk in ircfg.blocks.items():
            nblk = works[cfg].blocks.get(loc)
            if nblk is None:
                continue
            for ab, nab in zip(blk, nblk):
                if ab != nab:
                    n_rewritten += 1
                    for (d, s), (nd, ns) in zip(ab.items(), nab.items()):
                        if has_new_mem(ns, s):
                            n_mem_intro += 1
        if n_rewritten:
            rec.count("graphs_rewritten:" + cfg)
            rec.count("assignblocks_rewritten:" + cfg, n_rewritten)
        if n_mem_intro:
            rec.count("graphs_with_memory_read_propagated:" + cfg)
    if not works:
        return
    n_ok = 0
    failed = set()
    for k in range(N_STATES):
        ids0 = G.initial_ids(rng, ctx, alias=(k >= N_STATES - 2))
        seed = case_id * 16 + k
        ids = init_ids(ctx, ids0, seed)
        ref, ref_events = G.observe(ircfg, ctx, head, G.mkenv(ctx, ids, seed), MAX_STEPS, drop_silent=False)
        if ref.status != "exit":
            rec.count("skip_original_" + ref.status)
            continue
        # the statement names register values, memory writes and destinations: evaluating a
        # call_func_* placeholder once more (the propagation duplicates such expressions) is
        # not an event here
        ref_events = [e for e in ref_events if e[0] == "w"]
        n_ok += 1
        rec.count("states_run")
        if any(e[0] == "w" for e in ref_events):
            rec.count("states_with_store")
        if len(ref.path) != len(set(ref.path)):
            rec.count("states_with_loop_iteration")
        for cfg, work in works.items():
            if cfg in failed:
                continue
            diff = differs(ctx, rec, work, head, ids, seed, ref, ref_events)
            rec.count("compared:" + cfg)
            if diff is None or diff == "skip":
                continue
            failed.add(cfg)
            cause = lockstep(ctx, ircfg, work.blocks, head, ids, seed)
            why = cause[1] if cause else ""
            if cfg == "default" and whatif(ctx, ircfg, head, ids, seed, ref, ref_events, False):
                key = KEY_MEM_CST
            elif whatif(ctx, ircfg, head, ids, seed, ref, ref_events, True):
                key = KEY_STALE_MEM
            elif cause is None:
                key = "%s differs, no rewritten assignment deviates in lock step" % diff[0]
            else:
                key = cause[0]
            if cfg != "default":
                key = "[is_expr_cst refusing memory] " + key
            wit = dict(info)
            wit.update(config=cfg, first_deviation=why, observed=diff[1],
                       regs={str(r): hex(v) for r, v in ids0.items()}, mem_seed=seed,
                       head=ctx.loc_db.pretty_str(head), original=dump_graph(ctx, ircfg.blocks),
                       rewritten=dump_graph(ctx, work.blocks))
            rec.fail(key, "%s (%s): %s; %s" % (kind, cfg, diff[1], why), wit)
    if n_ok:
        rec.count("graphs_compared:" + kind)


def run_shard(params, rec):
    common.quiet()
    common.limit_memory(4)
    from vf.models import cpulimit
    cpulimit.install()
    import pyparsing
    pyparsing.ParserElement.enable_packrat()
    from vf.models import irfunc_gen as G
    rng = common.rng_for(params)
    case_id = params["shard"] * 1000000
    for i in range(params["n"]):
        machine = ("x86_32", "x86_64")[i % 2]
        profile = "cst" if i % 4 else "simp"
        ctx, ircfg, head, info = G.gen_function(rng, machine, profile=profile, allow_incomplete_leaf=True)
        rec.ev()
        rec.count("graphs:random-ir")
        rec.distinct(machine + "|" + info["shape"])
        for f in info["features"]:
            rec.count("feature:" + f)
        if i % 20 == 0:
            rec.sample(dict(kind="random-ir", machine=machine, shape=info["shape"], nblocks=info["nblocks"]))
        check_graph(rec, rng, ctx, ircfg, head, info, case_id + i)
    for i in range(params.get("n_asm", 0)):
        machine = ("x86_32", "x86_64")[i % 2]
        try:
            ctx, ircfg, head, info = G.gen_asm_function(rng, machine)
        except Exception as exc:
            rec.count("asm_rejected:" + type(exc).__name__)
            continue
        rec.ev()
        rec.count("graphs:asm")
        rec.distinct(machine + "|asm|" + info["shape"])
        if i % 3 == 0:
            rec.sample(dict(kind="asm", machine=machine, asm=info["asm"][:600]), limit=8)
        check_graph(rec, rng, ctx, ircfg, head, info, case_id + 500000 + i)


def floors(tier, counters, evaluations):
    miss = []
    for cfg in CONFIGS:
        runs = counters.get("propag_runs:" + cfg, 0)
        ok = counters.get("propag_ok:" + cfg, 0)
        if ok < 0.6 * max(1, runs):
            miss.append("%s: propagate_cst_expr returned for only %d of %d graphs" % (cfg, ok, runs))
        rw = counters.get("graphs_rewritten:" + cfg, 0)
        if rw < 0.4 * max(1, ok):
            miss.append("%s: only %d of %d graphs were actually rewritten (< 40%%)" % (cfg, rw, ok))
        if counters.get("compared:" + cfg, 0) < 3 * max(1, ok):
            miss.append("%s: fewer than 3 states compared per graph" % cfg)
    if counters.get("graphs_with_memory_read_propagated:default", 0) < 0.2 * max(1, counters.get("propag_ok:default", 0)):
        miss.append("a loaded value was propagated in fewer than 20% of the graphs")
    n_asm = counters.get("graphs:asm", 0) + sum(v for k, v in counters.items() if k.startswith("asm_rejected:"))
    if counters.get("graphs_compared:asm", 0) < max(8, 0.7 * n_asm):
        miss.append("only %d of %d lifted x86 functions compared" % (counters.get("graphs_compared:asm", 0), n_asm))
    sr = max(1, counters.get("states_run", 0))
    for c, frac in (("states_with_store", 0.5), ("states_with_loop_iteration", 0.15)):
        if counters.get(c, 0) < frac * sr:
            miss.append("%s in only %d of %d executed states" % (c, counters.get(c, 0), sr))
    return miss
