"""C01 simplification preserves meaning and never crashes.

Oracle: refsem on original vs simplified under several valuations; per-rule
monitor names the guilty rewrite."""
import sys

from vf import common

CHECK = dict(
    id="C01", level="exploration",
    rule=("random size-directed expression trees (depth<=5) and rule-directed templates, widths "
          "1..128, simplified by private instances of the three shipped configurations whose rules "
          "are wrapped by a recorder; compared with refsem under 8 valuations; distinct = distinct "
          "alpha-renamed shapes of non-leaf expressions"),
    assumptions=["refsem.py defines the meaning of expressions (tied to constant folding by C03)",
                 "valuations are sampled (boundary + random), not exhaustive",
                 "valuations on which the original divides by zero are skipped"],
    timeout={"quick": 900, "thorough": 5400},
    technique="runtime monitoring: reference-semantics oracle + per-rewrite recorder on the real simplifier",
)


def shards(tier, seed, scale):
    per = 12000 if tier == "quick" else 190000
    return common.mk_shards(16, seed, tier, per, scale)


def run_shard(params, rec):
    common.quiet()
    common.limit_memory(6)
    common.install_case_timer()
    from vf import simp_lib, exprgen
    rng = common.rng_for(params)
    thorough = params["tier"] == "thorough"
    gen = exprgen.Gen(rng)
    recorder = simp_lib.Recorded()
    simps = {c: simp_lib.make_simplifier(c, recorder) for c in simp_lib.CONFIGS}
    cfg_names = sorted(simps)
    n = params["n"]
    for i in range(n):
        if rng.random() < 0.6:
            e, tname = gen.directed(depth=rng.choice([0, 1, 1, 2]))
        else:
            e, tname = gen.expr(gen.width(), rng.choice([2, 3, 4, 5])), "random"
        rec.ev()
        rec.count("template:" + tname)
        if exprgen.nontrivial(e):
            rec.distinct(exprgen.shape(e))
        envs = None
        for cfg in cfg_names:
            simp = simps[cfg]
            recorder.log = []
            try:
                with common.time_limit(20):
                    out = simp(e)
            except common.CaseTimeout:
                rec.count("timeout")
                rec.fail("never finishes (20s) rule=%s" % "?", "simplification of %s did not finish in 20s"
                         % common.short(e), dict(expr=repr(e), config=cfg))
                simps[cfg] = simp_lib.make_simplifier(cfg, recorder)
                continue
            except RecursionError:
                rec.count("recursion_error")
                rec.fail("raises RecursionError", "RecursionError on %s" % common.short(e),
                         dict(expr=repr(e), config=cfg))
                simps[cfg] = simp_lib.make_simplifier(cfg, recorder)
                continue
            except Exception as exc:
                rule = simp_lib.raising_rule(sys.exc_info()[2])
                rec.fail("raises %s rule=%s" % (type(exc).__name__, rule),
                         "%s(%s) raised %r" % (cfg, common.short(e), exc),
                         dict(expr=repr(e), config=cfg, exc=repr(exc)))
                simps[cfg] = simp_lib.make_simplifier(cfg, recorder)
                continue
            rec.count("simplified:" + cfg)
            if out.size != e.size:
                rec.fail("size changes", "%s: %s (size %d) -> %s (size %d)" % (
                    cfg, e, e.size, out, out.size), dict(expr=repr(e), config=cfg, out=repr(out)))
                continue
            if out is not e:
                rec.count("changed:" + cfg)
            if envs is None:
                envs = simp_lib.valuations(e, rng, 8, i * 16)
            st, info = simp_lib.compare(e, out, envs)
            rec.count("cmp_" + st)
            log = recorder.log
            if st in ("mismatch", "result_undef"):
                g = simp_lib.guilty_rule(log, lambda b: simp_lib.valuations(b, rng, 24, 7) + envs)
                rule = "%s on %s" % (g[0], simp_lib.pattern(g[1])) if g else "?"
                wit = dict(expr=repr(e), config=cfg, out=repr(out), info=info)
                if g:
                    wit["rewrite"] = dict(rule=g[0], before=repr(g[1]), after=repr(g[2]), info=g[3])
                rec.fail("%s rule=%s" % ("wrong value" if st == "mismatch" else "undefined result", rule),
                         "%s: %s -> %s differs: %s" % (cfg, common.short(e), common.short(out), info), wit)
            elif thorough and st == "ok" and log:
                # errors that cancel out: every recorded rewrite is checked on its own
                for name, before, after in log[:40]:
                    rec.count("rewrites_checked")
                    if before.size != after.size:
                        rec.fail("size changes rule=%s" % name, "%s -> %s" % (before, after),
                                 dict(before=repr(before), after=repr(after)))
                        continue
                    st2, info2 = simp_lib.compare(before, after, simp_lib.valuations(before, rng, 6, i))
                    if st2 in ("mismatch", "result_undef"):
                        rec.fail("wrong value rule=%s on %s" % (name, simp_lib.pattern(before)),
                                 "rewrite %s -> %s differs: %s" % (common.short(before), common.short(after), info2),
                                 dict(rule=name, before=repr(before), after=repr(after), info=info2,
                                      inside=repr(e), config=cfg))
            if len(rec.samples) < 6 and out is not e and i % 50 == 0:
                rec.sample(dict(config=cfg, expr=str(e), simplified=str(out),
                                rules=[x[0] for x in log][:8]))
    for name, cnt in recorder.fired.items():
        rec.count("fired:" + name, cnt)
    rec.extra["rules_in_tree"] = simp_lib.rule_names()


def floors(tier, counters, evaluations):
    from vf import simp_lib
    common.quiet()
    miss = []
    low = [r for r in simp_lib.rule_names() if counters.get("fired:" + r, 0) < 20]
    # rules without a directed template lower no floor but must be visible
    known_templates = set(RULES_WITH_TEMPLATES)
    for r in low:
        if r in known_templates:
            miss.append("rule %s fired %d times (<20)" % (r, counters.get("fired:" + r, 0)))
    if counters.get("cmp_ok", 0) < 0.5 * evaluations:
        miss.append("fewer than half of the cases reached the semantic comparison")
    return miss


RULES_WITH_TEMPLATES = """simp_cst_propagation simp_cond_op_int simp_cond_factor simp_add_multiple
simp_cc_conds simp_subwc_cf simp_subwc_of simp_sign_subwc_cf simp_double_zeroext simp_double_signext
simp_zeroext_eq_cst simp_ext_eq_ext simp_ext_cond_int simp_sub_cf_zero simp_cmp_int
simp_cmp_bijective_op simp_sign_inf_zeroext simp_cmp_int_int simp_ext_cst
simp_zeroext_and_cst_eq_cst simp_test_signext_inf simp_test_zeroext_inf
simp_cond_inf_eq_unsigned_zero simp_compose_and_mask simp_bcdadd_cf simp_bcdadd simp_smod_sext
simp_flag_cst simp_slice simp_slice_of_ext simp_slice_of_sext simp_slice_of_op_ext simp_compose
simp_cond simp_cond_zeroext simp_cond_add simp_cond_flag simp_cmp_int_arg simp_cond_eq_zero
simp_x_and_cst_eq_cst simp_cond_logic_ext simp_cond_sign_bit simp_cond_eq_1_0 simp_cond_cc_flag
simp_cond_sub_cf simp_mem simp_flags simp_ext""".split()
