"""C02 simplification reaches a stable fixed point (idempotence + bounded progress)."""
import sys

from vf import common

CHECK = dict(
    id="C02", level="exploration",
    rule=("same generator as C01; each expression is simplified by each shipped configuration, "
          "the result is simplified again by a FRESH instance (empty cache) and by the same "
          "instance: both must return the identical object; termination restated as bounded "
          "progress: a <=64-node expression must finish within 20 s where the median is <1 ms; every 40 "
          "expressions a staged history runs (instance with PASS_COMMONS used on them, then "
          "PASS_HIGH_TO_EXPLICIT enabled on the same instance, then idempotence on the same expressions); "
          "distinct = distinct alpha-renamed shapes"),
    assumptions=["termination is undecidable by finite runs: only bounded progress is observed",
                 "a single overrun is re-run alone before it counts"],
    timeout={"quick": 900, "thorough": 5400},
    technique="runtime monitoring: idempotence oracle on fresh and warm simplifier instances, CPU-time watchdog",
)


def shards(tier, seed, scale):
    per = 8000 if tier == "quick" else 150000
    return common.mk_shards(16, seed, tier, per, scale, salt="c02")


def run_shard(params, rec):
    common.quiet()
    common.limit_memory(6)
    common.install_case_timer()
    from vf import simp_lib, exprgen
    from miasm.expression.simplifications import ExpressionSimplifier
    rng = common.rng_for(params)
    gen = exprgen.Gen(rng)
    recorder = simp_lib.Recorded()

    def fresh(cfg):
        s = ExpressionSimplifier()
        for pname in simp_lib.CONFIGS[cfg]:
            s.enable_passes(getattr(ExpressionSimplifier, pname))
        return s
    simps = {c: fresh(c) for c in simp_lib.CONFIGS}
    n = params["n"]
    recent = []
    for i in range(n):
        if len(recent) >= 40:
            staged_history(rec, recent, fresh, simp_lib)
            recent = []
        if rng.random() < 0.55:
            e, tname = gen.directed(depth=rng.choice([0, 1, 1, 2]))
        else:
            e, tname = gen.expr(gen.width(), rng.choice([2, 3, 4, 5])), "random"
        rec.ev()
        recent.append(e)
        if exprgen.nontrivial(e):
            rec.distinct(exprgen.shape(e))
        for cfg in sorted(simps):
            try:
                with common.time_limit(20):
                    out = simps[cfg](e)
            except common.CaseTimeout:
                if rec.counters.get("overruns_reproduced_alone", 0) >= 3:
                    # non-termination already confirmed three times in this shard: the verdict is decided,
                    # stop here instead of running into the worker watchdog (which would lose the witnesses)
                    rec.fail("no bounded progress", "simplification of %s exceeds 20 s (not re-run alone: "
                             "three earlier overruns of this shard were reproduced alone)" % common.short(e),
                             dict(expr=repr(e), config=cfg))
                    rec.count("stopped_after_confirmed_nontermination")
                    return
                # re-run alone on a fresh instance before it counts
                try:
                    with common.time_limit(40):
                        fresh(cfg)(e)
                    rec.count("overrun_not_reproduced")
                except common.CaseTimeout:
                    rec.count("overruns_reproduced_alone")
                    rec.fail("no bounded progress", "simplification of %s exceeds 40 s alone"
                             % common.short(e), dict(expr=repr(e), config=cfg))
                except Exception:
                    rec.count("raised")
                simps[cfg] = fresh(cfg)
                continue
            except RecursionError:
                # unbounded recursion is how non-termination surfaces in this engine
                rule = simp_lib.raising_rule(sys.exc_info()[2])
                rec.fail("unbounded recursion rule=%s on %s" % (rule, simp_lib.pattern(e)),
                         "%s: simplification of %s recurses without bound" % (cfg, common.short(e)),
                         dict(expr=repr(e), config=cfg))
                simps[cfg] = fresh(cfg)
                continue
            except Exception:
                rec.count("raised")   # C01's business
                simps[cfg] = fresh(cfg)
                continue
            rec.count("simplified")
            try:
                with common.time_limit(20):
                    again_same = simps[cfg](out)
                    again_fresh = fresh(cfg)(out)
            except common.CaseTimeout:
                rec.fail("no bounded progress (re-simplification)", "re-simplification of %s"
                         % common.short(out), dict(expr=repr(e), out=repr(out), config=cfg))
                simps[cfg] = fresh(cfg)
                continue
            except Exception as exc:
                rule = simp_lib.raising_rule(sys.exc_info()[2])
                rec.fail("re-simplification raises %s rule=%s" % (type(exc).__name__, rule),
                         "%s raised on its own output %s" % (cfg, common.short(out)),
                         dict(expr=repr(e), out=repr(out), config=cfg, exc=repr(exc)))
                simps[cfg] = fresh(cfg)
                continue
            rec.count("idempotence_compared")
            if again_same is not out:
                rec.fail("not idempotent (same instance) on %s" % simp_lib.pattern(out),
                         "%s: simp(%s) = %s but simp of that = %s" % (
                             cfg, common.short(e), common.short(out), common.short(again_same)),
                         dict(expr=repr(e), out=repr(out), again=repr(again_same), config=cfg))
            elif again_fresh is not out:
                # which rule moves it?
                recorder.log = []
                simp_lib.make_simplifier(cfg, recorder)(out)
                rule = recorder.log[0][0] if recorder.log else "?"
                where = simp_lib.pattern(recorder.log[0][1]) if recorder.log else "?"
                rec.fail("not idempotent rule=%s on %s" % (rule, where),
                         "%s: simp(%s) = %s but a fresh simplifier turns that into %s" % (
                             cfg, common.short(e), common.short(out), common.short(again_fresh)),
                         dict(expr=repr(e), out=repr(out), again=repr(again_fresh), config=cfg))
            if out is not e and i % 200 == 0:
                rec.sample(dict(config=cfg, expr=str(e), simplified=str(out), stable=again_fresh is out))


def staged_history(rec, exprs, fresh, simp_lib):
    """the shipped configuration expr_simp_explicit is built by two enable_passes calls; here the instance is
    USED between them (a user adding passes to a simplifier that already worked): afterwards it must still
    be idempotent on its own outputs"""
    from miasm.expression.simplifications import ExpressionSimplifier
    s = ExpressionSimplifier()
    s.enable_passes(ExpressionSimplifier.PASS_COMMONS)
    try:
        with common.time_limit(60):
            for e in exprs:
                try:
                    s(e)
                except RecursionError:
                    pass
                except Exception:
                    pass
            s.enable_passes(ExpressionSimplifier.PASS_HIGH_TO_EXPLICIT)
            for e in exprs:
                try:
                    out = s(e)
                    again = s(out)
                except (RecursionError, Exception):
                    rec.count("staged_raised")
                    continue
                rec.count("staged_compared")
                if again is not out:
                    rec.fail("not idempotent after enable_passes on an instance already used, on %s"
                             % simp_lib.pattern(out),
                             "PASS_COMMONS, use, then PASS_HIGH_TO_EXPLICIT: simp(%s) = %s but simp of that = %s" % (
                                 common.short(e), common.short(out), common.short(again)),
                             dict(expr=repr(e), out=repr(out), again=repr(again)))
    except common.CaseTimeout:
        rec.count("staged_timeout")


def floors(tier, counters, evaluations):
    miss = []
    if counters.get("idempotence_compared", 0) < 0.95 * 3 * evaluations:
        miss.append("fewer than 95% of cases reached the idempotence comparison (%d of %d)" % (
            counters.get("idempotence_compared", 0), 3 * evaluations))
    if counters.get("staged_compared", 0) < 0.8 * evaluations:
        miss.append("staged enable_passes histories compared on fewer than 80%% of the expressions (%d)" %
                    counters.get("staged_compared", 0))
    return miss
