"""C29 the bounded cache dictionary keeps its size and callback contract.

Oracle: a shadow dict + use counters + the deletion-callback log, compared with
the BoundedDict after EVERY operation of a history (public API only: item
access, `data`, `len`, `in`, `keys`).  Histories: exhaustive short ones (all
operation sequences up to a length over 3-5 interchangeable keys, up to key
renaming) for every (max_size, min_size) with 1 <= min_size <= max_size <= 5
and the default min_size, plus long random ones with the remaining mapping API.

Deliberate weakenings (DESIGN C29):
 * "at the limit": an eviction is accepted when the length before the insert is
   max_size-1 or max_size (the code evicts at max_size-1);
 * "most used": the uses of a key are its stores and item reads; the ranking is
   accepted if it is right either with counters restarted at each eviction (what
   the code documents) or with counters kept since insertion;
 * how many keys survive an eviction is not judged (the statement is silent);
 * min_size > max_size is not a configuration (a minimum above the maximum).
"""
from vf import common

CHECK = dict(
    id="C29", level="exploration",
    rule=("exhaustive: every sequence of <=L operations (store k, read k, delete k; k among max(3, max_size (+1 if min_size==max_size)) keys, "
          "sequences identified up to renaming of keys; reads/deletes of one absent key included) for "
          "each (max_size, min_size) in 1<=min<=max<=5 and min_size=default, L=7 quick / 8 thorough, "
          "each sequence replayed from an empty dictionary and ended by destroying the dictionary; "
          "plus random histories of 200 operations over 6 keys (get/pop/popitem/clear/setdefault/update/in/len/keys, "
          "initial data, no callback). distinct = distinct (configuration, operation sequence); "
          "non-trivial = sequences containing an eviction or a deletion"),
    exhaustive={"quick": True, "thorough": True},
    assumptions=["CPython reference counting runs __del__ when the last reference is dropped "
                 "(gc.collect() is used as a fallback)",
                 "the `data` property is a faithful, non-counting view of the held items",
                 "1 <= min_size <= max_size or min_size omitted"],
    timeout={"quick": 900, "thorough": 3600},
    technique="runtime monitoring: history-vs-shadow-model with callback log, exhaustive short histories",
)

NKEYS = 6


def nkeys(cfg):
    """keys used by the exhaustive histories of a configuration: enough to reach the point
    where keys are dropped (length max_size-1 before a new key; max_size when min_size == max_size)"""
    return max(3, cfg[0] + 1 if cfg[1] == cfg[0] else cfg[0])


CONFIGS = [(mx, mn) for mx in range(1, 6) for mn in [None] + list(range(1, mx + 1))]


def _children(seen, K):
    b = min(seen + 1, K)
    out = []
    for k in range(b):
        out.append((("set", k), max(seen, k + 1)))
    for k in range(b):
        out.append((("get", k), seen))
    for k in range(b):
        out.append((("del", k), seen))
    return out


def _subtree_size(seen, depth, L, K, memo={}):
    key = (seen, depth, L, K)
    if key in memo:
        return memo[key]
    n = depth
    if depth < L:
        for _, s2 in _children(seen, K):
            n += _subtree_size(s2, depth + 1, L, K)
    memo[key] = n
    return n


def shards(tier, seed, scale):
    L = 7 if tier == "quick" else 8
    if scale < 0.5:
        L -= 1
    items = []
    for ci, cfg in enumerate(CONFIGS):
        K = nkeys(cfg)
        for op1, s1 in _children(0, K):
            items.append((_subtree_size(s1, 1, 1, K), ci, [list(op1)], s1, 1))       # the depth-1 node alone
            for op2, s2 in _children(s1, K):
                items.append((_subtree_size(s2, 2, L, K), ci, [list(op1), list(op2)], s2, L))
    items.sort(key=lambda it: -it[0])
    n = 16
    nrand = int((150 if tier == "quick" else 6000) * scale)
    out = []
    for i in range(n):
        hs = 0 if i % 2 == 0 else 1 + (seed * 7919 + i) % 4000000
        out.append(dict(seed=seed, shard=i, tier=tier, hashseed=hs, salt="c29",
                        items=[it[1:] for it in items[i::n]], nrand=max(1, nrand)))
    return out


def _opclass(opname):
    op = opname.split(" ")[0]
    if op in ("setitem", "update", "setdefault"):
        return "store" + (" (evicting)" if "evicting" in opname else "")
    return op


_GC_BUDGET = [200]      # gc.collect() fallbacks per worker (each costs milliseconds)


class Violation(Exception):
    def __init__(self, key, what):
        Exception.__init__(self, key)
        self.key = key
        self.what = what


class Monitor(object):
    """One BoundedDict + its shadow model.  Every method performs the operation
    on the real object, then compares.  Raises Violation at the first mismatch."""

    def __init__(self, BoundedDict, max_size, min_size, rec, with_cb=True, initial=None):
        self.max = max_size
        self.min_given = min_size
        self.log = []
        self.rec = rec
        self.with_cb = with_cb
        self.cls = "min_size=default, max_size<=2" if (min_size is None and max_size // 3 == 0) else \
            ("min_size=default" if min_size is None else "min_size given")
        kwargs = {}
        if min_size is not None:
            kwargs["min_size"] = min_size
        if with_cb:
            kwargs["delete_cb"] = self.log.append
        if initial is not None:
            kwargs["initialdata"] = initial
        self.d = BoundedDict(max_size, **kwargs)
        self.model = dict(initial or {})
        self.uses_a = {k: 1 for k in self.model}     # restarted at each eviction
        self.uses_b = {k: 1 for k in self.model}     # since insertion
        self.evictions = 0
        self.deletions = 0
        self.probe = 0
        self.soft = []
        self.check_state("init")

    # -- observation helpers
    def fail(self, key, what):
        raise Violation("%s [%s]" % (key, self.cls), what)

    def check_state(self, opname, k=None):
        d = self.d
        model = self.model
        try:
            held = d.data
            n = len(d)
            ks = d.keys()
        except Exception as exc:
            self.fail("observer raises %s" % type(exc).__name__, "%r after %s" % (exc, opname))
        if n > self.max:
            self.fail("len>max_size after %s" % _opclass(opname),
                      "len=%d max_size=%d" % (n, self.max))
        if n != len(held) or len(ks) != n or set(ks) != set(held):
            self.fail("len/keys/data disagree", "len=%d keys=%r data=%r" % (n, ks, held))
        if held != model:
            self.fail("held items differ from last stored values after %s" % _opclass(opname),
                      "held=%r model=%r" % (dict(held), model))
        for x in (k, self.probe):
            if x is not None and (x in d) != (x in model):
                self.fail("__contains__ wrong", "key %r" % x)
        self.probe = (self.probe + 1) % (NKEYS + 3)

    def expect_log(self, before, expected, opname):
        new = self.log[before:]
        if not self.with_cb:
            return
        if sorted(new) != sorted(expected):
            extra = [k for k in new if k not in expected or new.count(k) > expected.count(k)]
            missing = [k for k in expected if new.count(k) < expected.count(k)]
            if extra and all(k in self.model for k in extra):
                cls = "for a kept key"
            elif extra:
                cls = "spurious or repeated"
            elif missing:
                cls = "missing"
            else:
                cls = "mismatch"
            self.fail("delete_cb %s during %s" % (cls, _opclass(opname)),
                      "callbacks %r, dropped keys %r" % (new, expected))

    # -- operations
    def set(self, k, v, how="setitem"):
        d, model = self.d, self.model
        is_new = k not in model
        pre_len = len(model)
        before = len(self.log)
        try:
            if how == "setitem":
                d[k] = v
            elif how == "update":
                d.update({k: v})
            elif how == "setdefault":
                got = d.setdefault(k, v)
        except Exception as exc:
            self.fail("%s raises %s" % (how, type(exc).__name__), repr(exc))
        if how == "setdefault":
            if not is_new:
                # a read of a held key
                if got != model[k]:
                    self.fail("setdefault returns wrong value", "%r != %r" % (got, model[k]))
                self.uses_a[k] += 1
                self.uses_b[k] += 1
                self.expect_log(before, [], how)
                self.check_state(how, k)
                return
            if got != v:
                self.fail("setdefault returns wrong value", "%r != %r" % (got, v))
        try:
            held = dict(d.data)
        except Exception as exc:
            self.fail("observer raises %s" % type(exc).__name__, repr(exc))
        evicted = sorted(x for x in model if x not in held and x != k)
        if evicted:
            self.evictions += 1
            self.rec.count("evictions")
            if not is_new:
                self.fail("eviction on update of a held key", "dropped %r" % evicted)
            if pre_len not in (self.max - 1, self.max):
                self.fail("eviction below the limit",
                          "dropped %r at length %d, max_size %d" % (evicted, pre_len, self.max))
            kept = [x for x in model if x in held]
            if kept:
                self.rec.count("evictions_keeping_some")
                ok_a = min(self.uses_a[x] for x in kept) >= max(self.uses_a[x] for x in evicted)
                ok_b = min(self.uses_b[x] for x in kept) >= max(self.uses_b[x] for x in evicted)
                if not (ok_a or ok_b):
                    self.fail("eviction keeps a less used key",
                              "kept %r dropped %r uses %r" % (kept, evicted, self.uses_a))
            for x in evicted:
                del model[x]
                del self.uses_b[x]
        if is_new and pre_len >= self.max - 1:
            # the resize point: counters restart, whether or not a key was dropped
            self.uses_a = {x: 1 for x in model}
        self.expect_log(before, evicted, how + (" (evicting)" if evicted else ""))
        model[k] = v
        if is_new:
            self.uses_a[k] = 1
            self.uses_b[k] = 1
        else:
            self.uses_a[k] += 1
            self.uses_b[k] += 1
        self.check_state(how, k)

    def get(self, k, how="getitem"):
        d, model = self.d, self.model
        before = len(self.log)
        try:
            if how == "getitem":
                got = d[k]
            else:
                got = d.get(k, "absent")
            raised = None
        except Exception as exc:
            # keep no reference to the exception: its traceback would keep the dictionary alive
            raised = (type(exc).__name__, repr(exc))
        if k in model:
            if raised is not None:
                self.fail("%s of a held key raises %s" % (how, raised[0]), raised[1])
            if got != model[k]:
                self.fail("%s returns a value that is not the last stored" % how,
                          "%r != %r" % (got, model[k]))
            self.uses_a[k] += 1
            self.uses_b[k] += 1
        else:
            if how == "getitem" and raised is None:
                self.fail("getitem of an absent key returns", repr(got))
            if how == "get" and (raised is not None or got != "absent"):
                self.fail("get(default) of an absent key", "%r %r" % (raised, None if raised else got))
        self.expect_log(before, [], how)
        self.check_state(how, k)

    def delete(self, k, how="delitem"):
        d, model = self.d, self.model
        before = len(self.log)
        try:
            if how == "delitem":
                del d[k]
            else:
                got = d.pop(k)
            raised = None
        except Exception as exc:
            raised = (type(exc).__name__, repr(exc))
        if k in model:
            if raised is not None:
                self.fail("%s of a held key raises %s" % (how, raised[0]), raised[1])
            if how == "pop" and got != model[k]:
                self.fail("pop returns a value that is not the last stored", "%r != %r" % (got, model[k]))
            del model[k]
            del self.uses_a[k]
            del self.uses_b[k]
            self.deletions += 1
            self.expect_log(before, [k], how)
        else:
            if raised is None:
                self.fail("%s of an absent key does not raise" % how, "")
            new = self.log[before:]
            if self.with_cb and new:
                # the state is unchanged and the model still in step: record and go on
                if new == [k]:
                    self.soft.append(("delete_cb invoked by %s of an absent key" % how,
                                      "callbacks %r although nothing was dropped" % new))
                else:
                    self.fail("delete_cb spurious during %s of an absent key" % how, repr(new))
        self.check_state(how, k)

    def clear(self, how="clear"):
        """the inherited MutableMapping operations that drop keys without naming them"""
        d, model = self.d, self.model
        before = len(self.log)
        if how == "clear":
            dropped = list(model)
            try:
                d.clear()
            except Exception as exc:
                self.fail("clear raises %s" % type(exc).__name__, repr(exc))
        else:
            try:
                k, v = d.popitem()
                raised = None
            except Exception as exc:
                raised = (type(exc).__name__, repr(exc))
            if not model:
                if raised is None:
                    self.fail("popitem of an empty dictionary does not raise", "")
                dropped = []
            else:
                if raised is not None:
                    self.fail("popitem raises %s" % raised[0], raised[1])
                if k not in model or model[k] != v:
                    self.fail("popitem returns an item that is not held", "%r: %r" % (k, v))
                dropped = [k]
        for k in dropped:
            del model[k]
            del self.uses_a[k]
            del self.uses_b[k]
            self.deletions += 1
        self.expect_log(before, dropped, how)
        self.check_state(how)

    def destroy(self):
        import gc
        before = len(self.log)
        expected = sorted(self.model)
        self.d = None
        if self.with_cb and sorted(self.log[before:]) != expected and _GC_BUDGET[0] > 0:
            _GC_BUDGET[0] -= 1
            gc.collect()
        self.model = {}
        self.expect_log(before, expected, "destruction")


def replay(BoundedDict, cfg, ops, rec, holder):
    mon = Monitor(BoundedDict, cfg[0], cfg[1], rec)
    holder.append(mon)
    step = 0
    for step, (kind, k) in enumerate(ops):
        if kind == "set":
            mon.set(k, step)
        elif kind == "get":
            mon.get(k)
        else:
            mon.delete(k)
    mon.destroy()
    return mon


def run_shard(params, rec):
    common.quiet()
    from miasm.core.utils import BoundedDict
    rng = common.rng_for(params)

    def run_one(cfg, ops, kind):
        rec.ev()
        rec.count("histories_" + kind)
        rec.count("ops", len(ops))
        holder = []
        try:
            mon = replay(BoundedDict, cfg, ops, rec, holder)
        except Violation as v:
            rec.fail(v.key, v.what, dict(max_size=cfg[0], min_size=cfg[1], ops=[list(o) for o in ops]))
            return
        finally:
            for m in holder:
                for key, what in m.soft[:1]:
                    rec.fail(key, what, dict(max_size=cfg[0], min_size=cfg[1], ops=[list(o) for o in ops]))
        if mon.evictions or mon.deletions:
            rec.distinct("%r/%r" % (cfg, ops))
            if mon.evictions:
                rec.count("histories_with_eviction")
                rec.count("cfg_evict:%d/%s" % cfg)
            if len(rec.samples) < 2 and mon.evictions and mon.deletions:
                rec.sample(dict(max_size=cfg[0], min_size=cfg[1], ops=[list(o) for o in ops],
                                callbacks=mon.log))

    # ---- exhaustive part
    def walk(cfg, prefix, seen, L):
        run_one(cfg, prefix, "exhaustive")
        if len(prefix) >= L:
            return
        for op, s2 in _children(seen, nkeys(cfg)):
            prefix.append(op)
            walk(cfg, prefix, s2, L)
            prefix.pop()

    for ci, prefix, seen, L in params["items"]:
        cfg = CONFIGS[ci]
        rec.count("cfg:%d/%s" % cfg)
        walk(cfg, [tuple(o) for o in prefix], seen, L)

    # ---- random long histories with the rest of the mapping API
    for _ in range(params["nrand"]):
        mx = rng.randint(1, 8)
        mn = rng.choice([None] + list(range(1, mx + 1)))
        with_cb = rng.random() < 0.8
        initial = None
        if rng.random() < 0.2:
            initial = {k: "i%d" % k for k in rng.sample(range(6), rng.randint(0, min(6, mx)))}
        ops = []
        rec.ev()
        rec.count("histories_random")
        mon = None
        try:
            mon = Monitor(BoundedDict, mx, mn, rec, with_cb=with_cb, initial=initial)
            for step in range(200):
                k = rng.randrange(6)
                r = rng.random()
                if r < 0.40:
                    how = rng.choice(["setitem", "setitem", "setitem", "update", "setdefault"])
                    ops.append((how, k))
                    mon.set(k, step, how)
                elif r < 0.75:
                    how = rng.choice(["getitem", "getitem", "get"])
                    ops.append((how, k))
                    mon.get(k, how)
                elif r < 0.97:
                    how = rng.choice(["delitem", "delitem", "pop"])
                    ops.append((how, k))
                    mon.delete(k, how)
                else:
                    how = rng.choice(["clear", "popitem"])
                    ops.append((how, None))
                    mon.clear(how)
                rec.count("rop:" + how)
            rec.count("ops", len(ops))
            ops.append(("destroy", None))
            mon.destroy()
            if mon.evictions:
                rec.count("histories_with_eviction")
        except Violation as v:
            rec.fail(v.key, v.what, dict(max_size=mx, min_size=mn, with_cb=with_cb, initial=initial,
                                         ops=[list(o) for o in ops]))
        if mon is not None:
            for key, what in mon.soft[:1]:
                rec.fail(key, what, dict(max_size=mx, min_size=mn, with_cb=with_cb, initial=initial,
                                         ops=[list(o) for o in ops]))


def floors(tier, counters, evaluations):
    miss = []
    for cfg in CONFIGS:
        if counters.get("cfg:%d/%s" % cfg, 0) == 0:
            miss.append("configuration %r never run" % (cfg,))
        if cfg[0] >= 2 and counters.get("cfg_evict:%d/%s" % cfg, 0) == 0 and \
                not (cfg[1] is None and cfg[0] // 3 == 0):
            miss.append("configuration %r never evicted" % (cfg,))
    if counters.get("histories_exhaustive", 0) < 100000:
        miss.append("fewer than 100000 exhaustive histories")
    if counters.get("evictions_keeping_some", 0) < 1000:
        miss.append("fewer than 1000 evictions that kept a key (ranking never judged)")
    if counters.get("histories_random", 0) < 100:
        miss.append("fewer than 100 random histories")
    return miss
