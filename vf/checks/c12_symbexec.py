"""C12 symbolic execution is a sound abstraction of concrete execution.

Oracle: irinterp (independent concrete interpreter) on the same IR from the
same concrete state; the symbolic final state is instantiated with refsem."""
from vf import common

CHECK = dict(
    id="C12", level="exploration",
    rule=("(a) random IR graphs (1-5 blocks, parallel assignments incl. swaps, overlapping "
          "memory reads/writes at small offsets of pointer registers) over the x86_32/x86_64 register "
          "files; (b) IR lifted from random decodable instructions of 12 architecture modes; each is run "
          "concretely by irinterp and block by block by SymbolicExecutionEngine from a fully symbolic "
          "state along the concrete path; distinct = distinct IR shapes / (arch, mnemonic) pairs"),
    assumptions=["refsem/irinterp define concrete IR semantics (little-endian byte memory)",
                 "cases where two different symbolic bases touch the same concrete byte are discarded "
                 "(documented non-aliasing assumption)",
                 "operators without value semantics (calls, fp, segment, cpuid) are skipped and counted"],
    timeout={"quick": 900, "thorough": 5400},
    technique="runtime monitoring: differential against an independent concrete IR interpreter",
)

ARCHS = [("x86_16", None), ("x86_32", None), ("x86_64", None), ("arml", None), ("armb", None),
         ("armtl", None), ("aarch64l", None), ("aarch64b", None), ("mips32l", None),
         ("mips32b", None), ("ppc32b", None), ("msp430", None), ("mepl", None), ("mepb", None)]


def shards(tier, seed, scale):
    n = 16
    per_a = 220 if tier == "quick" else 9000
    per_b = 60 if tier == "quick" else 2500   # per arch per shard
    return common.mk_shards(n, seed, tier, per_a, scale, n_b=max(1, int(per_b * scale)))


def base_of(ptr):
    """(base expr, offset) split, own implementation"""
    if ptr.is_int():
        return None, int(ptr)
    if ptr.is_op('+') and ptr.args[-1].is_int():
        rest = ptr.args[:-1]
        base = rest[0] if len(rest) == 1 else tuple(rest)
        return base, int(ptr.args[-1])
    return ptr, 0


def collect_mems(e, out):
    def cb(x):
        if x.is_mem():
            out.add(x)
        return x
    e.visit(cb)


def check_case(rec, tag, ircfg, loc_db, lifter, start, env0, mkenv, key_prefix, witness, max_steps=120):
    """-> 'ok' | 'skip:<why>' ; failures recorded"""
    from miasm.ir.symbexec import SymbolicExecutionEngine
    from miasm.expression.expression import ExprMem, LocKey
    from vf import irinterp, refsem

    env_run = mkenv()
    res = irinterp.run(ircfg, loc_db, start, env_run, max_steps=max_steps)
    if res.status != "exit":
        rec.count("skip_concrete_" + res.status)
        return "skip"
    accessed = set()

    class LoggingEngine(SymbolicExecutionEngine):
        # documented extension points: every effective memory access of the engine
        def mem_read(self, expr):
            accessed.add(expr)
            return super(LoggingEngine, self).mem_read(expr)

        def mem_write(self, dst, src):
            accessed.add(dst)
            return super(LoggingEngine, self).mem_write(dst, src)
    sb = LoggingEngine(lifter)
    hook_events = []
    hook = irinterp.call_hook_factory(hook_events)
    path = res.path
    nexts = path[1:] + [res.exit]
    pending = None
    try:
        for loc, nxt in zip(path, nexts):
            dst = sb.eval_updt_irblock(ircfg.blocks[loc])
            env_i = mkenv()
            got = irinterp.resolve_dst(dst, env_i, hook, loc_db)
            g_off = loc_db.get_location_offset(got) if isinstance(got, LocKey) else got
            n_off = loc_db.get_location_offset(nxt) if isinstance(nxt, LocKey) else nxt
            same = (got == nxt) or (g_off is not None and g_off == n_off)
            if not same:
                pending = (key_prefix + " next destination", "%s: symbolic destination %s instantiates to %s, "
                           "concrete execution goes to %s" % (tag, dst, got, nxt), witness)
                break
    except refsem.Undef:
        rec.count("skip_undef")
        return "skip"
    except refsem.Unsupported:
        rec.count("skip_unsupported")
        return "skip"
    except Exception as exc:
        rec.fail(key_prefix + " engine raises %s" % type(exc).__name__,
                 "%s: symbolic engine raised %r" % (tag, exc), witness)
        return "fail"

    # ---- aliasing discipline (post-hoc): different bases on one concrete byte => discard
    mems = set(accessed)
    sym_mem = list(sb.symbols.memory())
    sym_ids = dict(sb.symbols.ids())
    for m, v in sym_mem:
        mems.add(m)
        collect_mems(v, mems)
        collect_mems(m.ptr, mems)
    for v in sym_ids.values():
        collect_mems(v, mems)
    try:
        owner = {}
        for m in mems:
            env_i = mkenv()
            a = refsem.evaluate(m.ptr, env_i, hook)
            b = base_of(m.ptr)[0]
            for i in range(m.size // 8):
                byte = (a + i) & ((1 << m.ptr.size) - 1)
                if byte in owner and owner[byte] != b:
                    rec.count("skip_aliasing")
                    return "skip"
                owner[byte] = b
        if pending is not None:
            rec.fail(*pending)
            return "fail"
        # ---- registers
        for reg in set(sym_ids) | set(res.last_def):
            if reg == ircfg.IRDst:
                continue
            sym = sym_ids.get(reg, reg)
            got = refsem.evaluate(sym, mkenv(), hook)
            want = env_run.ident(reg)
            rec.count("regs_compared")
            if got != want:
                rec.fail(key_prefix + " register value", "%s: %s symbolic %s -> 0x%x, concrete 0x%x" % (
                    tag, reg, common.short(sym, 200), got, want), witness)
                return "fail"
        # ---- memory
        symmap = {}
        for m, v in sym_mem:
            a = refsem.evaluate(m.ptr, mkenv(), hook)
            val = refsem.evaluate(v, mkenv(), hook)
            for i in range(m.size // 8):
                byte = (a + i) & ((1 << m.ptr.size) - 1)
                if byte in symmap:
                    rec.count("skip_aliasing")
                    return "skip"
                symmap[byte] = (val >> (8 * i)) & 0xff
        init = mkenv()
        for byte in set(symmap) | set(env_run.mem):
            want = env_run.byte(byte)
            got = symmap.get(byte)
            if got is None:
                got = init.byte(byte)
            rec.count("mem_bytes_compared")
            if got != want:
                rec.fail(key_prefix + " memory content", "%s: byte 0x%x symbolic 0x%x concrete 0x%x" % (
                    tag, byte, got, want), witness)
                return "fail"
    except refsem.Undef:
        rec.count("skip_undef")
        return "skip"
    except refsem.Unsupported:
        rec.count("skip_unsupported")
        return "skip"
    return "ok"


def run_shard(params, rec):
    common.quiet()
    from vf import irgen, refsem, exprgen
    rng = common.rng_for(params)
    part_a(params, rec, rng)
    part_b(params, rec, rng)


def part_a(params, rec, rng):
    from vf import irgen, refsem
    from miasm.expression.expression import ExprMem
    ctxs = [irgen.Ctx("x86_32"), irgen.Ctx("x86_64")]
    for i in range(params["n"]):
        ctx = ctxs[i % 2]
        gen = irgen.IRGen(rng, ctx, div=(rng.random() < 0.2))
        nblocks = rng.choice([1, 1, 2, 3, 4, 5])
        locs = [ctx.loc_db.add_location() for _ in range(nblocks)]
        exits = [ctx.loc_db.add_location() for _ in range(2)]
        ircfg = gen.new_ircfg()
        shape = []
        for bi, loc in enumerate(locs):
            later = locs[bi + 1:] + exits
            succs = rng.sample(later, 2) if (len(later) >= 2 and rng.random() < 0.6) else [later[0]]
            blk = gen.block(loc, succs, depth=rng.choice([1, 2, 3]))
            ircfg.add_irblock(blk)
            shape.append(";".join(sorted("%s<-%s" % (type(d).__name__[4], exprshape(s))
                                         for ab in blk for d, s in ab.items())))
        env0 = irgen.initial_state(rng, ctx, seed=i)
        base_ids = dict(env0.ids)
        locmap = irgen.LocMap(ctx.loc_db)

        def mkenv(base_ids=base_ids, seed=env0.seed, locmap=locmap):
            return refsem.Env(ids=dict(base_ids), seed=seed, locs=locmap)
        rec.ev()
        rec.count("partA_cases")
        rec.distinct("A|" + "|".join(shape))
        wit = dict(kind="random-ir", machine=ctx.machine.name,
                   blocks=[str(ircfg.blocks[l]) for l in locs],
                   regs={str(k): hex(v) for k, v in base_ids.items()}, mem_seed=env0.seed)
        st = check_case(rec, "random IR", ircfg, ctx.loc_db, ctx.lifter, locs[0], env0, mkenv,
                        "random-ir:", wit)
        rec.count("partA_" + st)
        if st == "ok":
            has_mem_w = any(d.is_mem() for l in locs for ab in ircfg.blocks[l] for d in ab)
            if has_mem_w:
                rec.count("partA_with_store")
            if i % 40 == 0:
                rec.sample(dict(kind="random-ir", blocks=wit["blocks"][:2]))


def exprshape(e):
    from vf import exprgen
    return exprgen.shape(e)


def part_b(params, rec, rng):
    from miasm.analysis.machine import Machine
    from miasm.core.locationdb import LocationDB
    from vf import refsem, irgen
    from miasm.core.bin_stream import bin_stream_str
    for mname, _ in ARCHS:
        try:
            machine = Machine(mname)
        except Exception as exc:
            rec.count("machine_unavailable:" + mname)
            continue
        mn = machine.mn
        done = 0
        tries = 0
        while done < params["n_b"] and tries < params["n_b"] * 40:
            tries += 1
            loc_db = LocationDB()
            lifter = machine.lifter(loc_db)
            raw = bytes(rng.getrandbits(8) for _ in range(16))
            addr = rng.choice([0x1000, 0x401000, 0x8000])
            if lifter.pc.size <= 16:
                addr &= 0xf000
            try:
                instr = mn.dis(bin_stream_str(raw, base_address=addr), lifter.attrib, addr)
            except Exception:
                continue
            if instr is None:
                continue
            done += 1
            rec.ev()
            ircfg = lifter.new_ircfg()
            try:
                start = lifter.add_instr_to_ircfg(instr, ircfg)
            except Exception:
                rec.count("partB_lift_rejected")   # C14's business
                continue
            if not isinstance(start, type(loc_db.add_location())):
                start = loc_db.get_or_create_offset_location(addr)
            seed = rng.getrandbits(30)
            locmap = irgen.LocMap(loc_db)
            base_ids = {}
            # pre-draw values for architecture registers (boundary-biased)
            for reg in lifter.arch.regs.all_regs_ids:
                if rng.random() < 0.3:
                    from vf.exprgen import boundary_values
                    base_ids[reg] = rng.choice(boundary_values(reg.size))

            def mkenv(base_ids=base_ids, seed=seed, locmap=locmap):
                return refsem.Env(ids=dict(base_ids), seed=seed, locs=locmap)
            env0 = mkenv()
            wit = dict(kind="lifted", machine=mname, bytes=raw[:instr.l].hex(), instr=str(instr),
                       addr=addr, regs={str(k): hex(v) for k, v in base_ids.items()}, mem_seed=seed)
            rec.count("partB_cases:" + mname)
            rec.distinct("B|%s|%s" % (mname, instr.name))
            st = check_case(rec, "%s %s" % (mname, instr), ircfg, loc_db, lifter, start, env0, mkenv,
                            "lifted %s %s:" % (mname.rstrip("lb") if False else mname, instr.name), wit,
                            max_steps=60)
            rec.count("partB_%s:%s" % (st, mname))
            if st == "ok" and done % 25 == 0:
                rec.sample(dict(kind="lifted", machine=mname, instr=str(instr)), limit=10)


def floors(tier, counters, evaluations):
    miss = []
    a_ok = counters.get("partA_ok", 0)
    if a_ok < 0.4 * counters.get("partA_cases", 1):
        miss.append("fewer than 40%% of random-IR cases reached the comparison (%d)" % a_ok)
    if counters.get("partA_with_store", 0) < 0.25 * max(1, a_ok):
        miss.append("fewer than 25% of compared random-IR cases contain a store")
    for mname, _ in ARCHS:
        if counters.get("partB_ok:" + mname, 0) < (40 if tier == "quick" else 200):
            miss.append("architecture %s: only %d lifted instructions compared" % (
                mname, counters.get("partB_ok:" + mname, 0)))
    return miss
