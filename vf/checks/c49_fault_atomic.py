"""C49 a faulting instruction has no effect and leaves PC on it; clearing the
fault and mapping the memory lets execution complete as if it had not faulted."""
from vf import common

CHECK = dict(
    id="C49", level="fault_enumeration",
    rule=("loop-free programs of random decodable integer instructions per architecture mode whose "
          "registers point at unmapped bytes, a read-only page, a page boundary or a 2-byte read-only page / "
          "1-byte hole / 2-byte write-only page lying between writable bytes, run on the Python and GCC "
          "back ends with jit_maxline in {1,2,4,50} (faulting instruction at the start, middle or end of its "
          "block); at the first access violation: PC must be an instruction start, the fault flag set, and "
          "registers and every memory byte equal to the pre-instruction snapshot taken by a single-step "
          "reference run stopped on that instruction; then the fault is cleared, the hole mapped and the "
          "read-only page made writable, and the continued run must end in the state of a run that had "
          "the full map from the start; distinct = (arch, backend, faulting mnemonic, access kind, position)"),
    assumptions=["LLVM back end unavailable", "the pre-instruction snapshot comes from the same back end in "
                 "single-step configuration (C21 ties configurations together)"],
    overlay={"quick": "plain", "thorough": "asan"},
    crash_is_violation=True,
    timeout={"quick": 1500, "thorough": 6000},
    technique="runtime monitoring: fault injection by memory map (holes, read-only pages, straddling), snapshot comparison and resume-vs-no-fault differential",
)

ARCHS = ["x86_32", "x86_64", "x86_16", "arml", "armb", "armtl", "aarch64l", "aarch64b", "mips32l",
         "mips32b", "ppc32b", "msp430", "mepl", "mepb"]


def shards(tier, seed, scale):
    per = 24 if tier == "quick" else 500
    out = []
    n = 28
    for i in range(n):
        out.append(dict(seed=seed, shard=i, tier=tier, hashseed=0 if i % 2 == 0 else 1 + seed + i,
                        arch=ARCHS[i % len(ARCHS)], backend="gcc" if (i // len(ARCHS)) % 2 == 0 else "python",
                        n=max(1, int(per * scale))))
    return out


def full_map(jitlib, prog):
    """same program with the hole mapped and the read-only page writable"""
    from miasm.jitter.csts import PAGE_READ, PAGE_WRITE
    L = prog.spec.L
    q = jitlib.Prog(prog.spec)
    q.code, q.instrs, q.end, q.regs, q.loop = prog.code, prog.instrs, prog.end, dict(prog.regs), prog.loop
    q.pages = []
    for addr, perm, data, name in prog.pages:
        q.pages.append((addr, PAGE_READ | PAGE_WRITE, data, name))
    for h, (a, sz) in enumerate(prog.holes):
        q.pages.append((a, PAGE_READ | PAGE_WRITE, bytes((i * 7 + 3) & 0xff for i in range(sz)), "hole%d" % h))
    q.holes = []
    return q


def run_shard(params, rec):
    common.quiet()
    from miasm.jitter.csts import PAGE_READ, PAGE_WRITE, EXCEPT_ACCESS_VIOL
    from vf import jitlib
    rng = common.rng_for(params)
    spec = jitlib.ArchSpec(params["arch"])
    backend = params["backend"]
    pool = jitlib.instr_pool(spec, rng, 80)
    if len(pool) < 20:
        rec.count("pool_too_small:" + spec.mname)
        return
    L = spec.L
    for i in range(params["n"]):
        # delay-slot architectures: a counted loop puts a (possibly faulting) instruction in a delay slot
        with_loop = spec.family == "mips32" and rng.random() < 0.5
        mode = rng.choice([None, "straddle", "straddle", "split", "split", "tiny", "tiny"])
        prog = jitlib.make_prog(spec, rng, pool, rng.randrange(2, 9), with_loop=with_loop, mode=mode,
                                fault_bias=rng.choice([0.3, 0.5, 0.8]))
        rec.count("mode:%s" % mode)
        maxline = rng.choice([1, 2, 4, 50])
        opts = dict(jit_maxline=maxline, max_exec_per_call=rng.choice([0, 1, 3]))
        if with_loop:
            # a loop whose counter the body overwrites never leaves one translated block of the C back end
            # when calls are unlimited: a finite per-call limit brings it back to the step budget (as in C20)
            opts["max_exec_per_call"] = max(1, opts["max_exec_per_call"])
        rec.ev()
        try:
            out = jitlib.run(spec, backend, prog, options=opts, max_steps=200)
        except Exception as exc:
            rec.count("harness_run_error")
            rec.extra.setdefault("harness_run_error", repr(exc)[:300])
            continue
        if out.raised == "CalledProcessError":
            rec.count("unsupported_by_backend")
            continue
        av = EXCEPT_ACCESS_VIOL
        if out.raised == "RuntimeError":
            import re as _re
            m_ = _re.match(r"^A simplification is missing: ([A-Za-z_][A-Za-z_0-9]*)$", getattr(out, "raised_msg", "") or "")
            if m_ and not hasattr(out.jitter.cpu, m_.group(1)):
                # the Python back end met a register its CPU object does not model (x86 CR7/DR6...): the
                # instruction is unsupported by that back end, like a C compiler rejection on the other
                rec.count("unsupported_by_backend")
                continue
        if out.raised is not None:
            rec.fail("%s: exception escapes run instead of a reported fault (%s)" % (backend, out.raised),
                     "%s %s: %s" % (spec.mname, backend, getattr(out, "raised_msg", "")),
                     dict(prog=prog.describe(), opts=opts))
            continue
        if (out.exc_vm & av) != av:
            rec.count("no_fault")
            continue
        rec.count("faults:%s:%s" % (spec.mname, backend))
        P = out.pc
        starts = {o: (idx, nm) for idx, (o, ln, t, nm) in enumerate(prog.instrs)}
        wit = dict(prog=prog.describe(), opts=opts, backend=backend, fault_pc=hex(P) if P is not None else None)
        if P == prog.end or (P not in starts and not (L.CODE <= (P or 0) < prog.end)):
            # fetch fault outside the program (jump away): not an instruction with a memory operand
            rec.count("fault_outside_program")
            continue
        if P not in starts:
            rec.fail("%s: PC after a fault is not an instruction start" % backend,
                     "%s %s: pc=0x%x" % (spec.mname, backend, P), wit)
            continue
        idx, mnemonic = starts[P]
        pos = "start" if idx % maxline == 0 else ("end" if (idx + 1) % maxline == 0 or idx == len(prog.instrs) - 1
                                                  else "middle")
        if maxline == 1:
            pos = "single"
        wit["faulting"] = "%x: %s" % (P, prog.instrs[idx][2])
        in_slot = P in prog.delay_slots
        if in_slot:
            rec.count("fault_in_delay_slot")
        elif prog.loop is not None:
            # looping program (only generated to put an instruction in a delay slot): the fault may
            # happen in a later iteration, where "stopped on first reach of P" is not the pre-state;
            # only the resume half is judged
            in_slot = "loop"
        # ---- pre-instruction snapshot: single-step reference of the same back end stopped on P
        # (not for a delay slot: a breakpoint there would split the branch from its slot)
        pre = jitlib.Outcome()
        refj = jitlib.new_jitter(spec, backend, prog, dict(jit_maxline=1, max_exec_per_call=1))
        state = dict(hit=bool(in_slot), early=False)

        def stop_at_p(j):
            state["hit"] = True
            return False

        def early_exc(j):
            state["early"] = True
            return False
        refj.add_breakpoint(P, stop_at_p)
        refj.add_breakpoint(prog.end, early_exc)
        for bit in list(range(1, 5)) + [10, 25]:
            refj.add_exception_handler(1 << bit, early_exc)
        try:
            if not in_slot:
                refj.run(L.CODE)
        except Exception:
            state["early"] = True
        if not state["hit"] or state["early"]:
            rec.count("reference_did_not_reach_fault_pc")
            continue
        if not in_slot:
            jitlib.snapshot(refj, spec, pre)
        d = None if in_slot else jitlib.diff_outcomes(pre, out, spec, skip=("exception flags", "raised"))
        rec.count("snapshots_compared")
        rec.distinct("%s|%s|%s|%s" % (spec.mname, backend, mnemonic, pos))
        rec.count("position:" + pos)
        if d is not None:
            kind = d[0]
            nstores = jitlib.count_stores(spec, prog, idx)
            kind += ", multi-store instruction" if nstores > 1 else (", single store" if nstores == 1 else ", no store")
            key = "%s: faulting instruction has a %s effect (%s)" % (backend, kind, spec.family)
            if nstores > 1 and d[0] == "memory":
                # one mechanism on every architecture: the stores of one instruction are applied one
                # after the other and the fault is only checked afterwards
                key = "%s: faulting multi-store instruction leaves partial memory effects" % backend
            rec.fail(key,
                     "%s %s: after the fault at %s: %s %s" % (spec.mname, backend, wit["faulting"], d[0], d[1]),
                     dict(wit, diff=d))
            continue
        # ---- resume: clear the fault, map everything, continue; compare with the no-fault run
        j = out.jitter
        try:
            j.vm.set_exception(0)
            j.cpu.set_exception(0)
            for h, (a_, sz) in enumerate(prog.holes):
                j.vm.add_memory_page(a_, PAGE_READ | PAGE_WRITE, bytes((k * 7 + 3) & 0xff for k in range(sz)),
                                     "hole%d" % h)
            for a_, perm, data, name in prog.pages:
                if perm != PAGE_READ | PAGE_WRITE:
                    j.vm.set_mem_access(a_, PAGE_READ | PAGE_WRITE)
            res = jitlib.Outcome()
            res.jitter = j
            try:
                j.init_run(P)
                j.continue_run()
            except Exception as exc:
                res.raised = type(exc).__name__
            jitlib.snapshot(j, spec, res)
        except Exception as exc:
            rec.count("harness_resume_error")
            rec.extra.setdefault("harness_resume_error", repr(exc)[:300])
            continue
        q = full_map(jitlib, prog)
        try:
            nofault = jitlib.run(spec, backend, q, options=opts, max_steps=200)
        except Exception as exc:
            rec.count("harness_run_error")
            continue
        if "CalledProcessError" in (nofault.raised, res.raised):
            rec.count("unsupported_by_backend")
            continue
        if nofault.budget or out.budget:
            # a looping program whose counter an instruction overwrites: both runs end on the step budget
            # (the resumed one shares the step counter of the faulting run), wherever that happens to be
            rec.count("discarded_budget")
            continue
        d2 = jitlib.diff_outcomes(nofault, res, spec)
        rec.count("resumes_compared")
        if d2 is not None:
            key = "%s: resumed run differs from the run without fault (%s, %s)" % (backend, d2[0], spec.family)
            if in_slot is True:
                key = "%s: a fault in a branch delay slot loses the pending branch on resume" % backend
            rec.fail(key,
                     "%s %s: after resuming at %s: %s %s" % (spec.mname, backend, wit["faulting"], d2[0], d2[1]),
                     dict(wit, diff=d2, nofault=nofault.summary(spec), resumed=res.summary(spec)))
            continue
        rec.count("ok")
        if i % 8 == 0:
            rec.sample(dict(machine=spec.mname, backend=backend, faulting=wit["faulting"], position=pos,
                            maxline=maxline), limit=8)


def floors(tier, counters, evaluations):
    miss = []
    if counters.get("snapshots_compared", 0) < 0.25 * evaluations:
        miss.append("only %d of %d programs reached the snapshot comparison" % (
            counters.get("snapshots_compared", 0), evaluations))
    if counters.get("resumes_compared", 0) < 0.15 * evaluations:
        miss.append("only %d resumes compared" % counters.get("resumes_compared", 0))
    for pos in ("start", "middle", "end", "single"):
        if counters.get("position:" + pos, 0) == 0:
            miss.append("no fault observed at block position '%s'" % pos)
    return miss
