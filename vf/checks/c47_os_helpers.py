"""C47 emulated OS helper functions return the documented results.

Monitored: the stubs of miasm/os_dep/win_api_x86_32.py (ntdll Rtl* numeric/memory helpers,
kernel32 lstr*, msvcrt mem*/str*/wcs*, shlwapi StrCmpNIA) and miasm/os_dep/linux_stdlib.py
(xxx_strlen/strcpy/memcpy/memset/strcmp/strncmp/isprint), each called on a real x86-32 jitter with
its stdcall / cdecl arguments pushed on the emulated stack exactly as the repository's own tests do.
Oracle: an independent Python reference per stub (64-bit modular arithmetic, common-prefix length,
C string semantics on bytes / UTF-16 code units, a bitwise CRC-32), compared with EAX/EDX, the
return address and the whole arena of emulated memory after the call.
"""
from vf import common

CHECK = dict(
    id="C47", level="exploration",
    rule=("random argument tuples per stub from boundary pools: 32-bit halves from {0,1,0x7fffffff,"
          "0x80000000,0xffffffff} U random (carries across 2^32), lengths {0,1,2,3,5,8,16,31,64}, strings "
          "with equal / prefix / case-variant / differing partners, buffers flush against unmapped memory, "
          "overlapping RtlMoveMemory; arena pre-filled with 0xCC so that over-reads and stray writes "
          "show; distinct = distinct (stub, input class, shape of the arguments); non-trivial = all"),
    assumptions=["the documented result of each function as given in its MSDN / man page prototype, "
                 "restated in the reference functions of this module",
                 "comparison functions are only required to return the documented sign",
                 "a negative Python int written to a register by a stub is taken modulo 2^32 by the "
                 "harness (register proxy), as the C extension does on Python < 3.12",
                 "inputs outside 7-bit ASCII / the BMP are keyed by input class and decoding helper, "
                 "not by stub"],
    timeout={"quick": 600, "thorough": 3000},
    exhaustive={"quick": False, "thorough": False},
    overlay="plain",
    crash_is_violation=True,
    technique="runtime monitoring: differential against per-function reference implementations",
)

M32 = 0xffffffff
M64 = (1 << 64) - 1
ARENA = 0x10000000
ARENA_SIZE = 0x3000
FILL = 0xCC
RET_AD = 0x13371000
U32_POOL = [0, 1, 2, 0x7fffffff, 0x80000000, 0x80000001, 0xfffffffe, 0xffffffff, 0xffff, 0x10000]
LENS = [0, 0, 1, 1, 2, 3, 5, 8, 16, 31, 64]


import os
NSHARDS = int(os.environ.get("VERIF_DEV_SHARDS", "16"))   # development aid (mutation trials on a loaded machine)


def shards(tier, seed, scale):
    per = 220 if tier == "quick" else 20000
    return common.mk_shards(NSHARDS, seed, tier, per * 16 // NSHARDS, scale, salt="c47")


# ------------------------------------------------------------------ references
def crc32_ref(data, init=0):
    crc = init ^ M32
    for b in data:
        crc ^= b
        for _ in range(8):
            crc = (crc >> 1) ^ (0xEDB88320 if crc & 1 else 0)
    return crc ^ M32


def sign(x):
    return (x > 0) - (x < 0)


def s32(x):
    return x - (1 << 32) if x & 0x80000000 else x


def cmp_seq(a, b):
    """C comparison of two sequences of unsigned units (bytes / UTF-16 code units)"""
    a, b = list(a), list(b)
    return (a > b) - (a < b)


def lower_ascii(units):
    return [u + 32 if 0x41 <= u <= 0x5a else u for u in units]


def u16units(data):
    return [data[i] | (data[i + 1] << 8) for i in range(0, len(data), 2)]


# ------------------------------------------------------------------ input pools
ASCII = [c for c in range(0x20, 0x7f)]
LATIN = list(range(0xa0, 0x100))
C1 = [0x80, 0x82, 0x83, 0x85, 0x8a, 0x8c, 0x91, 0x99, 0x9c, 0x9f]
UNDEF = [0x81, 0x8d, 0x8f, 0x90, 0x9d]


def u32(rng):
    return rng.choice(U32_POOL) if rng.random() < 0.5 else rng.getrandbits(32)


def ansi(rng, cls=None, n=None):
    """-> (bytes without NUL, class)"""
    if cls is None:
        r = rng.random()
        cls = "ascii" if r < 0.8 else ("latin1" if r < 0.88 else ("cp1252 0x80-0x9f" if r < 0.95 else "undefined in cp1252"))
    if n is None:
        n = rng.choice(LENS)
    letters = [c for c in ASCII if chr(c).isalpha()]
    out = [rng.choice(letters if rng.random() < 0.6 else ASCII) for _ in range(n)]
    extra = dict(ascii=None, latin1=LATIN).get(cls, None)
    if cls == "cp1252 0x80-0x9f":
        extra = C1
    elif cls == "undefined in cp1252":
        extra = UNDEF
    if extra and n:
        for _ in range(max(1, n // 4)):
            out[rng.randrange(n)] = rng.choice(extra)
    elif extra:
        cls = "ascii"
    return bytes(out), cls


def wide(rng, cls=None, n=None):
    """-> (UTF-16LE bytes without terminator, class); n counts code units"""
    if cls is None:
        r = rng.random()
        cls = "ascii" if r < 0.8 else ("bmp" if r < 0.9 else ("surrogate pair" if r < 0.96 else "lone surrogate"))
    if n is None:
        n = rng.choice(LENS)
    letters = [c for c in ASCII if chr(c).isalpha()]
    units = [rng.choice(letters if rng.random() < 0.6 else ASCII) for _ in range(n)]
    if cls == "bmp" and n:
        for _ in range(max(1, n // 4)):
            units[rng.randrange(n)] = rng.choice([0xe9, 0xc9, 0x100, 0x3b1, 0x416, 0x20ac, 0x4e2d, 0xff21, 0xfffd])
    elif cls == "surrogate pair" and n >= 2:
        i = rng.randrange(n - 1)
        units[i], units[i + 1] = 0xd83d, 0xde00
    elif cls == "lone surrogate" and n:
        units[rng.randrange(n)] = rng.choice([0xd800, 0xdc00])
    else:
        cls = "ascii"
    return b"".join(bytes((u & 0xff, u >> 8)) for u in units), cls


def partner(rng, s, unit=1):
    """a string related to s: equal, prefix, extension, case variant, one unit changed; None = unrelated"""
    r = rng.random()
    n = len(s) // unit
    if r < 0.25:
        return s
    if r < 0.4 and n:
        return s[:rng.randrange(n) * unit]
    if r < 0.5:
        return s + (b"a" if unit == 1 else b"a\0")
    if r < 0.7:
        out = bytearray(s)
        for i in range(0, len(s), unit):
            c = s[i]
            if (unit == 1 or s[i + 1] == 0) and (0x41 <= c <= 0x5a or 0x61 <= c <= 0x7a) and rng.random() < 0.5:
                out[i] = c ^ 0x20
        return bytes(out)
    if r < 0.85 and n:
        i = rng.randrange(n) * unit
        nc = s[i] + rng.choice([-1, 1])
        if not (0x21 <= nc <= 0x7e):
            nc = 0x41
        return s[:i] + bytes([nc]) + s[i + 1:]
    return None


def worst(*classes):
    order = ["ascii", "latin1", "bmp", "cp1252 0x80-0x9f", "surrogate pair", "undefined in cp1252", "lone surrogate"]
    return max(classes, key=order.index)


# ------------------------------------------------------------------ environment
class CpuProxy(object):
    """forwards to the native JitCpu; negative ints are reduced modulo 2^32 (see assumptions)"""

    def __init__(self, cpu, rec):
        object.__setattr__(self, "_cpu", cpu)
        object.__setattr__(self, "_rec", rec)

    def __getattr__(self, name):
        return getattr(self._cpu, name)

    def __setattr__(self, name, value):
        if isinstance(value, int) and value < 0:
            self._rec.count("negative_int_written_to_register")
            value &= M32
        setattr(self._cpu, name, value)


class Env(object):
    def __init__(self, rec):
        from miasm.analysis.machine import Machine
        from miasm.core.locationdb import LocationDB
        from miasm.jitter.csts import PAGE_READ, PAGE_WRITE
        self.jit = Machine("x86_32").jitter(LocationDB())
        self.jit.init_stack()
        self.jit.cpu = CpuProxy(self.jit.cpu, rec)
        self.vm = self.jit.vm
        self.vm.add_memory_page(ARENA, PAGE_READ | PAGE_WRITE, bytes([FILL]) * ARENA_SIZE, "arena")
        self.sp0 = self.jit.cpu.ESP - 0x400
        self.reset()

    def reset(self):
        self.model = bytearray([FILL]) * ARENA_SIZE
        self.vm.set_mem(ARENA, bytes(self.model))
        self.lo = 0x10
        self.hi = ARENA_SIZE
        self.jit.cpu.ESP = self.sp0
        self.vm.set_exception(0)
        self.jit.cpu.set_exception(0)

    def alloc(self, n, at_end=False):
        if at_end:
            self.hi -= n
            off = self.hi
            self.hi -= 8
        else:
            off = self.lo
            self.lo += n + 8
        assert self.lo <= self.hi
        return ARENA + off

    def put(self, data, cap=None, at_end=False):
        addr = self.alloc(max(len(data), cap or 0), at_end)
        self.write(addr, data)
        return addr

    def write(self, addr, data):
        self.vm.set_mem(addr, bytes(data))
        self.model[addr - ARENA:addr - ARENA + len(data)] = data

    def expect(self, addr, data):
        self.model[addr - ARENA:addr - ARENA + len(data)] = data


class Case(object):
    def __init__(self, stub, conv, args, cls="", eax=None, edx=None, sgn=None, writes=(), family=None,
                 shape="", collapse=None):
        self.stub, self.conv, self.args = stub, conv, args
        self.cls, self.eax, self.edx, self.sgn = cls, eax, edx, sgn
        self.writes, self.family, self.shape, self.collapse = writes, family, shape, collapse


RARE = ("surrogate pair", "lone surrogate", "undefined in cp1252", "cp1252 0x80-0x9f")
ANSI_FAMILY = "ansi-string stubs (get_win_str_a)"
WIDE_FAMILY = "wide-string stubs (get_win_str_w)"


def acls(c):
    return "" if c == "ascii" else c


# ------------------------------------------------------------------ case generators
def g_large_add(env, rng):
    a, b = (u32(rng) << 32) | u32(rng), (u32(rng) << 32) | u32(rng)
    sub = rng.random() < 0.5
    r = (a - b if sub else a + b) & M64
    return Case("ntdll_RtlLargeIntegerSubtract" if sub else "ntdll_RtlLargeIntegerAdd", "stdcall",
                [a & M32, a >> 32, b & M32, b >> 32], eax=r & M32, edx=r >> 32,
                shape="carry" if ((a & M32) + (b & M32) > M32 or (a & M32) < (b & M32)) else "nocarry")


def g_large_shift(env, rng):
    a = (u32(rng) << 32) | u32(rng)
    c = rng.choice([0, 1, 31, 32, 33, 63, rng.randrange(64)])
    r = a >> c
    return Case("ntdll_RtlLargeIntegerShiftRight", "stdcall", [a & M32, a >> 32, c], eax=r & M32, edx=r >> 32,
                shape="c%d" % (c // 32))


def g_enlarged_mul(env, rng):
    a, b = u32(rng), u32(rng)
    r = a * b
    return Case("ntdll_RtlEnlargedUnsignedMultiply", "stdcall", [a, b], eax=r & M32, edx=r >> 32)


def g_extended_mul(env, rng):
    a = (u32(rng) << 32) | u32(rng)
    m = u32(rng)
    r = (a * s32(m)) & M64        # LARGE_INTEGER x LONG (signed multiplier)
    return Case("ntdll_RtlExtendedIntegerMultiply", "stdcall", [a & M32, a >> 32, m], eax=r & M32, edx=r >> 32,
                cls="negative multiplier" if m & 0x80000000 else "")


def g_compare_memory(env, rng):
    n = rng.choice(LENS)
    d1 = bytes(rng.randrange(256) for _ in range(n))
    d2 = bytearray(d1)
    if n and rng.random() < 0.7:
        k = rng.randrange(n)
        d2[k] ^= 1 + rng.randrange(255)
        for j in range(k + 1, n):
            if rng.random() < 0.5:
                d2[j] = rng.randrange(256)
    p1 = env.put(d1, at_end=rng.random() < 0.3)
    p2 = env.put(d2)
    k = 0
    while k < n and d1[k] == d2[k]:
        k += 1
    return Case("ntdll_RtlCompareMemory", "stdcall", [p1, p2, n], eax=k, cls="length 0" if n == 0 else "",
                shape="full" if k == n else "partial")


def g_crc(env, rng):
    n = rng.choice(LENS + [200])
    d = bytes(rng.randrange(256) for _ in range(n))
    init = rng.choice([0, 0, M32, rng.getrandbits(32)])
    p = env.put(d, at_end=rng.random() < 0.3)
    return Case("ntdll_RtlComputeCrc32", "stdcall", [init, p, n], eax=crc32_ref(d, init),
                shape="init0" if init == 0 else "init")


def g_move_memory(env, rng):
    n = rng.choice(LENS)
    buf = bytes(rng.randrange(256) for _ in range(n + 16))
    base = env.put(buf)
    if rng.random() < 0.6:            # overlapping
        src = base + rng.randrange(8)
        dst = base + rng.randrange(8)
    else:
        src = base
        dst = env.alloc(n, at_end=rng.random() < 0.4)
    data = bytes(env.model[src - ARENA:src - ARENA + n])
    stub = rng.choice(["ntdll_RtlMoveMemory", "kernel32_RtlMoveMemory"])
    return Case(stub, "stdcall", [dst, src, n], writes=[(dst, data)],
                shape="overlap" if abs(src - dst) < n else "disjoint")


def g_init_string(env, rng):
    stub = rng.choice(["ntdll_RtlInitAnsiString", "ntdll_RtlInitString"])
    s, c = ansi(rng, cls=None if stub == "ntdll_RtlInitAnsiString" else "ascii")
    p = env.put(s + b"\0", at_end=rng.random() < 0.3)
    ctx = env.alloc(8)
    n = len(s)
    import struct
    want = struct.pack("<HHI", n, n + 1, p)     # Length, MaximumLength, Buffer
    return Case(stub, "stdcall", [ctx, p], writes=[(ctx, want)], cls=acls(c), family=ANSI_FAMILY)


def g_strlen(env, rng):
    if rng.random() < 0.5:
        s, c = ansi(rng)
        p = env.put(s + b"\0", at_end=rng.random() < 0.4)
        stub, conv = rng.choice([("kernel32_lstrlenA", "stdcall"), ("kernel32_lstrlen", "stdcall"),
                                 ("msvcrt_strlen", "cdecl")])
        return Case(stub, conv, [p], eax=len(s), cls=acls(c), family=ANSI_FAMILY, shape="len%d" % min(len(s), 3))
    s, c = wide(rng)
    p = env.put(s + b"\0\0", at_end=rng.random() < 0.4)
    stub, conv = rng.choice([("kernel32_lstrlenW", "stdcall"), ("msvcrt_wcslen", "cdecl")])
    return Case(stub, conv, [p], eax=len(s) // 2, cls=acls(c), family=WIDE_FAMILY, shape="len%d" % min(len(s), 3))


def g_strcpy(env, rng):
    end = rng.random() < 0.4
    if rng.random() < 0.5:
        s, c = ansi(rng)
        src = env.put(s + b"\0")
        dst = env.alloc(len(s) + 1, at_end=end)
        stub, conv = rng.choice([("kernel32_lstrcpyA", "stdcall"), ("kernel32_lstrcpy", "stdcall")])
        return Case(stub, conv, [dst, src], eax=dst, writes=[(dst, s + b"\0")], cls=acls(c), family=ANSI_FAMILY)
    s, c = wide(rng)
    src = env.put(s + b"\0\0")
    dst = env.alloc(len(s) + 2, at_end=end)
    stub, conv = rng.choice([("kernel32_lstrcpyW", "stdcall"), ("msvcrt_wcscpy", "cdecl")])
    return Case(stub, conv, [dst, src], eax=dst, writes=[(dst, s + b"\0\0")], cls=acls(c), family=WIDE_FAMILY)


def g_mbscpy(env, rng):
    # unsigned char *_mbscpy(unsigned char *dst, const unsigned char *src): a byte-string copy
    s, c = ansi(rng, cls="ascii")
    src = env.put(s + b"\0")
    dst = env.alloc(len(s) + 1, at_end=rng.random() < 0.4)
    return Case("msvcrt__mbscpy", "cdecl", [dst, src], eax=dst, writes=[(dst, s + b"\0")],
                shape="even" if len(s) % 2 == 0 else "odd", collapse="byte string handled as UTF-16")


def g_strcpyn(env, rng):
    s, c = ansi(rng)
    n = rng.choice([0, 1, 1, 2, 3, len(s), len(s) + 1, len(s) + 2, 40])
    if n == 0:
        s, c = ansi(rng, cls="ascii")
    src = env.put(s + b"\0")
    k = max(0, min(len(s), n - 1))
    dst = env.alloc(max(n, 1), at_end=rng.random() < 0.4)
    writes = [(dst, s[:k] + b"\0")] if n > 0 else []
    return Case("kernel32_lstrcpyn", "stdcall", [dst, src, n], eax=dst, writes=writes,
                cls=acls(c) if n else "iMaxLength 0", family=ANSI_FAMILY if n else None,
                shape="trunc" if n - 1 < len(s) else "fit")


def g_strcat(env, rng):
    end = rng.random() < 0.4
    r = rng.random()
    if r < 0.45:
        a, ca = ansi(rng)
        b, cb = ansi(rng)
        src = env.put(b + b"\0")
        dst = env.put(a + b"\0", cap=len(a) + len(b) + 1, at_end=end)
        return Case("kernel32_lstrcatA", "stdcall", [dst, src], eax=dst, writes=[(dst, a + b + b"\0")],
                    cls=acls(worst(ca, cb)), family=ANSI_FAMILY)
    a, ca = wide(rng)
    b, cb = wide(rng)
    src = env.put(b + b"\0\0")
    dst = env.put(a + b"\0\0", cap=len(a) + len(b) + 2, at_end=end)
    stub, conv = ("kernel32_lstrcatW", "stdcall") if r < 0.75 else ("msvcrt_wcscat", "cdecl")
    return Case(stub, conv, [dst, src], eax=dst, writes=[(dst, a + b + b"\0\0")],
                cls=acls(worst(ca, cb)), family=WIDE_FAMILY)


def g_strcmp(env, rng):
    # case-insensitive variants are only exercised on 7-bit ASCII: beyond it "C semantics" and the
    # locale-aware Windows functions legitimately differ
    r = rng.random()
    if r < 0.5:
        stub = rng.choice(["kernel32_lstrcmpA", "kernel32_lstrcmpA", "kernel32_lstrcmpiA", "kernel32_lstrcmpi",
                           "shlwapi_StrCmpNIA"])
        only = None if stub == "kernel32_lstrcmpA" else "ascii"
        a, ca = ansi(rng, cls=only)
        b = partner(rng, a)
        cb = ca
        if b is None:
            b, cb = ansi(rng, cls=only)
        if only is None and rng.random() < 0.04:
            # same prefix, then a byte of 0x80-0x9f against a byte of 0xa0-0xff
            pre, _ = ansi(rng, cls="ascii")
            a, b = pre + bytes([rng.choice(C1)]), pre + bytes([rng.choice(LATIN)])
            if rng.random() < 0.5:
                a, b = b, a
            ca = cb = "cp1252 0x80-0x9f"
        p1 = env.put(a + b"\0", at_end=rng.random() < 0.3)
        p2 = env.put(b + b"\0")
        args = [p1, p2]
        ua, ub = list(a), list(b)
        if stub == "shlwapi_StrCmpNIA":
            n = rng.choice([0, 1, 2, len(a), len(a) + 1, 100])
            args.append(n)
            ua, ub = ua[:n], ub[:n]
        if stub != "kernel32_lstrcmpA":
            ua, ub = lower_ascii(ua), lower_ascii(ub)
        return Case(stub, "stdcall", args, sgn=cmp_seq(ua, ub), cls=acls(worst(ca, cb)), family=ANSI_FAMILY,
                    shape="s%d" % cmp_seq(ua, ub))
    stub, conv = rng.choice([("kernel32_lstrcmpW", "stdcall"), ("kernel32_lstrcmpiW", "stdcall"),
                             ("msvcrt_wcscmp", "cdecl"), ("msvcrt__wcsicmp", "cdecl"),
                             ("msvcrt__wcsnicmp", "cdecl")])
    only = None if stub in ("kernel32_lstrcmpW", "msvcrt_wcscmp") else "ascii"
    a, ca = wide(rng, cls=only)
    b = partner(rng, a, 2)
    cb = ca
    if b is None:
        b, cb = wide(rng, cls=only)
    p1 = env.put(a + b"\0\0", at_end=rng.random() < 0.3)
    p2 = env.put(b + b"\0\0")
    ua, ub = u16units(a), u16units(b)
    args = [p1, p2]
    if stub == "msvcrt__wcsnicmp":
        n = rng.choice([0, 1, 2, len(ua), len(ua) + 1, 100])
        args.append(n)
        ua, ub = ua[:n], ub[:n]
    if only:
        ua, ub = lower_ascii(ua), lower_ascii(ub)
    return Case(stub, conv, args, sgn=cmp_seq(ua, ub), cls=acls(worst(ca, cb)), family=WIDE_FAMILY,
                shape="s%d" % cmp_seq(ua, ub))


def g_wcsncpy(env, rng):
    s, c = wide(rng)
    n = rng.choice([0, 1, 2, len(s) // 2, len(s) // 2 + 1, len(s) // 2 + 3])
    src = env.put(s + b"\0\0")
    dst = env.alloc(2 * n, at_end=rng.random() < 0.4)
    want = (s[:2 * n] + b"\0" * (2 * n))[:2 * n]
    return Case("msvcrt_wcsncpy", "cdecl", [dst, src, n], eax=dst, writes=[(dst, want)], cls=acls(c),
                family=WIDE_FAMILY, shape="pad" if n > len(s) // 2 else "trunc")


def g_mem(env, rng):
    n = rng.choice(LENS)
    r = rng.random()
    if r < 0.35:
        d = bytes(rng.randrange(256) for _ in range(n))
        src = env.put(d)
        dst = env.alloc(n, at_end=rng.random() < 0.4)
        return Case("msvcrt_memcpy", "cdecl", [dst, src, n], eax=dst, writes=[(dst, d)], shape="n%d" % min(n, 2))
    if r < 0.65:
        c = rng.randrange(256) if rng.random() < 0.9 else 0x100 + rng.randrange(0x300)
        dst = env.alloc(n, at_end=rng.random() < 0.4)
        stub = rng.choice(["msvcrt_memset", "ntdll_memset"])
        return Case(stub, "cdecl", [dst, c, n], eax=dst, writes=[(dst, bytes([c & 0xff]) * n)],
                    cls="c > 255" if c > 255 else "", shape="n%d" % min(n, 2))
    d1 = bytes(rng.randrange(256) for _ in range(n))
    d2 = bytearray(d1)
    if n and rng.random() < 0.7:
        d2[rng.randrange(n)] = rng.randrange(256)
    p1 = env.put(d1, at_end=rng.random() < 0.3)
    p2 = env.put(d2)
    return Case("msvcrt_memcmp", "cdecl", [p1, p2, n], sgn=cmp_seq(d1, d2), shape="s%d" % cmp_seq(d1, d2))


def g_strrchr(env, rng):
    if rng.random() < 0.5:
        s, c = ansi(rng, cls="ascii")
        ch = rng.choice(list(s) + [0x7e, 0]) if s else rng.choice([0x41, 0])
        p = env.put(s + b"\0", at_end=rng.random() < 0.3)
        i = len(s) if ch == 0 else s.rfind(bytes([ch]))
        return Case("msvcrt_strrchr", "cdecl", [p, ch], eax=(p + i) if i >= 0 else 0,
                    cls="character not in string" if i < 0 else ("search for NUL" if ch == 0 else ""),
                    shape="found" if i >= 0 else "absent")
    s, c = wide(rng, cls="ascii")
    units = u16units(s)
    ch = rng.choice(units + [0x7e, 0]) if units else rng.choice([0x41, 0])
    p = env.put(s + b"\0\0", at_end=rng.random() < 0.3)
    if ch == 0:
        i = len(units)
    else:
        i = max([k for k, u in enumerate(units) if u == ch] or [-1])
    return Case("msvcrt_wcsrchr", "cdecl", [p, ch], eax=(p + 2 * i) if i >= 0 else 0,
                cls="character not in string" if i < 0 else ("search for NUL" if ch == 0 else ""),
                shape="found" if i >= 0 else "absent")


LINUX_FAMILY = "linux string stubs (get_c_str)"


def g_linux(env, rng):
    r = rng.random()
    if r < 0.2:
        s, c = ansi(rng)
        p = env.put(s + b"\0", at_end=rng.random() < 0.4)
        return Case("xxx_strlen", "linux", [p], eax=len(s), cls=acls(c), family=LINUX_FAMILY)
    if r < 0.4:
        s, c = ansi(rng)
        src = env.put(s + b"\0")
        dst = env.alloc(len(s) + 1, at_end=rng.random() < 0.4)
        return Case("xxx_strcpy", "linux", [dst, src], eax=dst, writes=[(dst, s + b"\0")], cls=acls(c),
                    family=LINUX_FAMILY)
    if r < 0.65:
        a, ca = ansi(rng)
        b = partner(rng, a)
        cb = ca
        if b is None:
            b, cb = ansi(rng)
        p1 = env.put(a + b"\0", at_end=rng.random() < 0.3)
        p2 = env.put(b + b"\0")
        if rng.random() < 0.5:
            return Case("xxx_strcmp", "linux", [p1, p2], sgn=cmp_seq(a, b), cls=acls(worst(ca, cb)),
                        family=LINUX_FAMILY, shape="s%d" % cmp_seq(a, b))
        n = rng.choice([0, 1, 2, len(a), len(a) + 1, 100])
        return Case("xxx_strncmp", "linux", [p1, p2, n], sgn=cmp_seq(a[:n], b[:n]), cls=acls(worst(ca, cb)),
                    family=LINUX_FAMILY, shape="s%d" % cmp_seq(a[:n], b[:n]))
    if r < 0.8:
        n = rng.choice(LENS)
        d = bytes(rng.randrange(256) for _ in range(n))
        src = env.put(d)
        dst = env.alloc(n, at_end=rng.random() < 0.4)
        return Case("xxx_memcpy", "linux", [dst, src, n], eax=dst, writes=[(dst, d)])
    if r < 0.92:
        n = rng.choice(LENS)
        c = rng.randrange(256) if rng.random() < 0.8 else rng.getrandbits(32)
        dst = env.alloc(n, at_end=rng.random() < 0.4)
        return Case("xxx_memset", "linux", [dst, c, n], eax=dst, writes=[(dst, bytes([c & 0xff]) * n)])
    c = rng.choice([0, 0x1f, 0x20, 0x7e, 0x7f, 0x80, 0xff, rng.getrandbits(8)])
    return Case("xxx_isprint", "linux", [c], sgn=1 if 0x20 <= c <= 0x7e else 0, shape=str(0x20 <= c <= 0x7e))


GENS = [(g_large_add, 10), (g_large_shift, 5), (g_enlarged_mul, 4), (g_extended_mul, 5), (g_compare_memory, 8),
        (g_crc, 5), (g_move_memory, 6), (g_init_string, 5), (g_strlen, 8), (g_strcpy, 8), (g_mbscpy, 2),
        (g_strcpyn, 5), (g_strcat, 8), (g_strcmp, 14), (g_wcsncpy, 4), (g_mem, 10), (g_strrchr, 5), (g_linux, 14)]


def run_shard(params, rec):
    common.quiet()
    rng = common.rng_for(params)
    env = Env(rec)
    import miasm.os_dep.win_api_x86_32 as winapi
    import miasm.os_dep.linux_stdlib as linapi
    jit = env.jit
    gens = [g for g, _ in GENS]
    weights = [w for _, w in GENS]
    for i in range(params["n"]):
        env.reset()
        gen = rng.choices(gens, weights)[0]
        case = gen(env, rng)
        mod = linapi if case.conv == "linux" else winapi
        func = getattr(mod, case.stub)
        rec.ev()
        rec.count("stub:" + case.stub)
        if case.cls:
            rec.count("class:" + case.cls)
        rec.distinct("%s/%s/%s/%d" % (case.stub, case.cls, case.shape, len(case.args)))
        name = "%s [%s]" % (case.stub, case.cls) if case.cls else case.stub
        if case.cls in RARE and case.family:
            # input classes at the edge of the decoding helpers: one key per (helper, class)
            case.collapse = "input class mishandled"
            case.collapse_name = "%s [%s]" % (case.family, case.cls)
        elif case.collapse:
            name = case.collapse_name = case.stub
        witness = dict(stub=case.stub, convention=case.conv, args=[hex(a) for a in case.args],
                       input_class=case.cls,
                       memory_before={hex(ARENA + o): bytes(env.model[o:o + 96]).hex()
                                      for o in sorted(set((a - ARENA) & ~0xf for a in case.args
                                                          if ARENA <= a < ARENA + ARENA_SIZE))})
        if i < 3 and params["shard"] == 0:
            rec.sample(dict(stub=case.stub, args=witness["args"]))
        for a in reversed(case.args):
            jit.push_uint32_t(a)
        jit.push_uint32_t(RET_AD)
        sp_before = jit.cpu.ESP
        try:
            func(jit)
        except Exception as exc:
            env.vm.set_exception(0)
            key = "%s: raises %s" % (name, type(exc).__name__)
            if isinstance(exc, UnicodeError) and case.family and case.cls:
                # the decoding helper shared by the whole family rejects the input class
                key = "%s [%s]: raises %s" % (case.family, case.cls, type(exc).__name__)
            if case.collapse:
                key = "%s: %s" % (case.collapse_name, case.collapse)
            rec.fail(key, "%s%r raised %r" % (case.stub, tuple(witness["args"]), exc), witness)
            continue
        eax, edx = jit.cpu.EAX, jit.cpu.EDX
        witness.update(eax=hex(eax), edx=hex(edx))
        fail = rec.fail
        if case.collapse:
            def fail(key, what, wit, _k="%s: %s" % (case.collapse_name, case.collapse)):
                rec.fail(_k, "%s (%s)" % (what, key), wit)
        if jit.pc != RET_AD or jit.cpu.EIP != RET_AD:
            fail("%s: does not return to the caller" % name, "pc=0x%x" % jit.pc, witness)
        want_sp = sp_before + 4 + (4 * len(case.args) if case.conv == "stdcall" else 0)
        if jit.cpu.ESP != want_sp:
            fail("%s: stack pointer after return breaks the %s convention" % (name, case.conv),
                     "ESP=0x%x expected 0x%x" % (jit.cpu.ESP, want_sp), witness)
        if env.vm.get_exception() or jit.cpu.get_exception():
            fail("%s: leaves an exception flag" % name, "vm 0x%x" % env.vm.get_exception(), witness)
        if case.eax is not None and eax != case.eax:
            fail("%s: wrong EAX" % name, "%s%r returned EAX=0x%x, documented 0x%x" % (
                case.stub, tuple(witness["args"]), eax, case.eax), witness)
        if case.edx is not None and edx != case.edx:
            fail("%s: wrong EDX" % name, "%s%r returned EDX=0x%x, documented 0x%x" % (
                case.stub, tuple(witness["args"]), edx, case.edx), witness)
        if case.sgn is not None and sign(s32(eax)) != sign(case.sgn):
            fail("%s: wrong sign of the result" % name, "%s%r returned %d, documented sign %d" % (
                case.stub, tuple(witness["args"]), s32(eax), case.sgn), witness)
        for addr, data in case.writes:
            env.expect(addr, data)
        got = env.vm.get_mem(ARENA, ARENA_SIZE)
        if got != bytes(env.model):
            k = next(j for j in range(ARENA_SIZE) if got[j] != env.model[j])
            witness.update(first_diff=hex(ARENA + k), got=got[k & ~0xf:(k & ~0xf) + 64].hex(),
                           want=bytes(env.model[k & ~0xf:(k & ~0xf) + 64]).hex())
            fail("%s: memory after the call differs" % name, "%s%r: first differing byte at 0x%x" % (
                case.stub, tuple(witness["args"]), ARENA + k), witness)
        else:
            rec.count("memory_compared")


ALL_STUBS = ["ntdll_RtlLargeIntegerAdd", "ntdll_RtlLargeIntegerSubtract", "ntdll_RtlLargeIntegerShiftRight",
             "ntdll_RtlEnlargedUnsignedMultiply", "ntdll_RtlExtendedIntegerMultiply", "ntdll_RtlCompareMemory",
             "ntdll_RtlComputeCrc32", "ntdll_RtlMoveMemory", "kernel32_RtlMoveMemory", "ntdll_RtlInitAnsiString",
             "ntdll_RtlInitString", "kernel32_lstrlenA", "kernel32_lstrlenW", "kernel32_lstrlen", "msvcrt_strlen",
             "msvcrt_wcslen", "kernel32_lstrcpyA", "kernel32_lstrcpyW", "kernel32_lstrcpy", "msvcrt_wcscpy",
             "msvcrt__mbscpy", "kernel32_lstrcpyn", "kernel32_lstrcatA", "kernel32_lstrcatW", "msvcrt_wcscat",
             "kernel32_lstrcmpA", "kernel32_lstrcmpiA", "kernel32_lstrcmpi", "kernel32_lstrcmpW",
             "kernel32_lstrcmpiW", "shlwapi_StrCmpNIA", "msvcrt_wcscmp", "msvcrt__wcsicmp", "msvcrt__wcsnicmp",
             "msvcrt_wcsncpy", "msvcrt_memcpy", "msvcrt_memset", "ntdll_memset", "msvcrt_memcmp",
             "msvcrt_strrchr", "msvcrt_wcsrchr", "xxx_strlen", "xxx_strcpy", "xxx_strcmp", "xxx_strncmp",
             "xxx_memcpy", "xxx_memset", "xxx_isprint"]


def floors(tier, c, evaluations):
    miss = []
    for s in ALL_STUBS:
        if c.get("stub:" + s, 0) < 3:
            miss.append("stub %s called fewer than 3 times" % s)
    if c.get("memory_compared", 0) < 0.3 * evaluations:
        miss.append("memory compared after fewer than 30% of the calls")
    return miss
