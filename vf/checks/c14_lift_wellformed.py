"""C14 lifted IR is well-formed for every decodable instruction (or reported unsupported).

Monitored: Lifter.add_instr_to_ircfg on instructions decoded by mn.dis at random addresses
(after instr.dstflow2label, as the disassembly engine does), for x86 16/32/64, ARM, Thumb,
AArch64, MIPS32 (both byte orders), PPC32, MSP430, MeP (both byte orders).

Oracle (structural, written from the statement):
  * every assignment: dst.size == src.size, dst is ExprId or ExprMem
  * every IRBlock assigns IRDst exactly once; IRDst has the width of PC
  * statically resolvable leaves of IRDst (through ExprCond) are ExprLoc / ExprInt and the IRCFG
    has the edge block -> leaf; other leaves (register, memory, arithmetic) need no edge
    [weakened on purpose, DESIGN C14]
  * every ExprId is a register of the architecture (regs.all_regs_ids) or IRDst
"Reported unsupported": NotImplementedError; KeyError(<mnemonic>) / ValueError raised by the
mnemonic dispatch frame (get_ir / get_mnemo_expr of the arch's sem.py); or any non-assertion
exception whose message says so ("not implemented", "need implementing", "not supported": PPC
raises RuntimeError for LSWI/STSWI...).  Any other exception is a crash of a semantic function.
Thumb IT is lifted together with synthesised benign followers (the lifter needs the IT block).
"""
import random
import re
import traceback

from vf import common
from vf.models import cpulimit
from vf.models import insn_corpus as ic

CHECK = dict(
    id="C14", level="exploration",
    rule=("16-byte candidates from the shared instruction corpus: a seed-independent walk over every class of "
          "each decoder table (fixed prefix classes x ModRM forms on x86, boundary values of every free field) plus a "
          "seed-dependent stream -- VERIF_SEED selects one of 21 (quick) / 4 (thorough) swept streams, seed mod N -- of random bytes, stratified opcode "
          "enumeration, decoder-table templates with random free fields, curated vectors of "
          "test/arch with bit flips) decoded by mn.dis at a random aligned address in every "
          "arch/mode, then lifted; distinct = distinct (arch/mode, mnemonic, operand kinds); "
          "non-trivial = decoded and lifted or classified"),
    assumptions=["the seed-dependent part is drawn from a closed set of streams (VERIF_SEED mod 21 quick, mod 4 thorough); other seeds repeat a stream",
                 "the structural reading of the statement in the module docstring",
                 "IRDst leaves that are not locations/constants (indirect jumps) need no edge",
                 "'unsupported' = NotImplementedError, KeyError(mnemonic)/ValueError from the dispatch frame, "
                 "or an exception whose message says not implemented / not supported"],
    timeout={"quick": 900, "thorough": 3400},
    exhaustive={"quick": False, "thorough": False},
    technique="runtime monitoring: structural monitor on the IRCFG produced for each decoded instruction",
)

# seed-dependent candidates per arch/mode (on top of the seed-independent table walk)
PER_ARCH = {"quick": 1000, "thorough": 3000}
WALK_ROUNDS = {"quick": 1, "thorough": 2}
NSHARDS = 16


def shards(tier, seed, scale):
    seed = ic.stream_index("C14", tier, seed)
    per = max(10, int(PER_ARCH[tier] * scale / NSHARDS))
    # development aid: --scale < 1 also thins the walk (stride)
    stride = 1 if scale >= 1 else max(1, int(round(1 / scale)))
    return common.mk_shards(NSHARDS, seed, tier, per_shard=per, scale=1.0,
                            walk_rounds=ic.walk_rounds(WALK_ROUNDS[tier]), walk_stride=stride)


DISPATCH_FUNCS = ("get_ir", "get_mnemo_expr")


UNSUPPORTED_MSG = re.compile(r"not (yet )?impl|needs? implementing|not supported|unsupported", re.I)


def classify_exception(instr, exc, tb):
    """'unsupported' or ('crash', where)"""
    if isinstance(exc, NotImplementedError):
        return "unsupported", None
    if not isinstance(exc, AssertionError) and UNSUPPORTED_MSG.search(str(exc)):
        # e.g. PPC RuntimeError("LSWI, and LSWX need implementing"): an explicit report
        return "unsupported", None
    frames = traceback.extract_tb(tb)
    inner = frames[-1] if frames else None
    where = "?"
    if inner is not None:
        where = "%s:%s" % (inner.filename.split("/miasm/")[-1], inner.name)
        in_dispatch = inner.filename.endswith("sem.py") and inner.name in DISPATCH_FUNCS
        if in_dispatch:
            if isinstance(exc, KeyError) and exc.args and \
                    str(exc.args[0]).lower() == instr.name.lower():
                return "unsupported", None
            if isinstance(exc, ValueError):
                return "unsupported", None
    # the semantic function that crashes = innermost frame of an arch's sem.py that is not the dispatcher
    semfunc = None
    for fr in reversed(frames):
        if fr.filename.endswith("sem.py") and "/arch/" in fr.filename and \
                fr.name not in DISPATCH_FUNCS + ("<module>", "instr2ir"):
            semfunc = fr.name
            break
    return "crash", (where, semfunc)


def irdst_leaves(expr):
    todo, out = [expr], []
    while todo:
        e = todo.pop()
        if e.is_cond():
            todo.append(e.src1)
            todo.append(e.src2)
        else:
            out.append(e)
    return out


def ids_of(expr, acc):
    def visit(e):
        if e.is_id():
            acc.add(e)
        return e
    expr.visit(visit)


def monitor(spec, lifter, ircfg, instr, regset, fail):
    """structural checks on every block of the graph; fail(kind, what)"""
    from miasm.expression.expression import ExprId, ExprMem
    irdst = lifter.IRDst
    if irdst.size != lifter.pc.size:
        fail("irdst_width", "IRDst is %d bits, PC %d" % (irdst.size, lifter.pc.size))
    nblocks = 0
    for loc_key, blk in list(ircfg.blocks.items()):
        nblocks += 1
        ndst = 0
        dst_src = None
        for ab in blk:
            for dst, src in ab.items():
                if dst.size != src.size:
                    fail("width_mismatch", "%s (%d) = %s (%d)" % (dst, dst.size, src, src.size))
                if not isinstance(dst, (ExprId, ExprMem)):
                    fail("bad_destination", "destination %s is a %s" % (dst, type(dst).__name__))
                if dst == irdst:
                    ndst += 1
                    dst_src = src
                ids = set()
                ids_of(dst, ids)
                ids_of(src, ids)
                for i in ids:
                    if i not in regset:
                        fail("foreign_identifier:" + re.sub(r"\d+", "#", i.name),
                             "%s/%d is not a register of the architecture (in %s = %s)" % (i, i.size, dst, src))
        if ndst != 1:
            fail("irdst_count", "block %s assigns IRDst %d times" % (loc_key, ndst))
            continue
        succ = set(ircfg.successors(loc_key))
        for leaf in irdst_leaves(dst_src):
            if leaf.is_loc():
                if leaf.loc_key not in succ:
                    fail("missing_edge", "no edge %s -> %s (IRDst = %s)" % (loc_key, leaf, dst_src))
            elif leaf.is_int():
                lk = ircfg.loc_db.get_offset_location(int(leaf))
                if lk is None or lk not in succ:
                    fail("missing_edge", "no edge %s -> constant %s (IRDst = %s)" % (loc_key, leaf, dst_src))
            elif isinstance(leaf, (ExprId, ExprMem)) or leaf.is_op() or leaf.is_slice() or leaf.is_compose():
                pass    # dynamic destination: accepted, no edge required [weakened on purpose]
            else:
                fail("irdst_leaf", "IRDst leaf %r is a %s" % (leaf, type(leaf).__name__))
    if nblocks == 0:
        fail("no_block", "no IR block produced")
    return nblocks


BENIGN_T16 = (0x46C0, 0x4408, 0x4611)    # MOV R8,R8 / ADD R0,R1 / MOV R1,R2: no flags, no branch


def follow_it(spec, data, addr, instr, rng):
    """Thumb IT: the lifter needs the instructions of the IT block.  They are synthesised from
    benign 16-bit instructions so that a failure is the IT block logic's, not a follower's."""
    n = len(instr.name) - 1
    lines = [instr]
    off = instr.l
    from miasm.core.bin_stream import bin_stream_str
    body = b"".join(ic.to_mem(spec, rng.choice(BENIGN_T16).to_bytes(2, "big")) for _ in range(7))
    data = data[:2] + body
    bs = bin_stream_str(data, base_address=addr)
    for _ in range(n):
        try:
            nxt = spec.mn.dis(bs, spec.mode, addr + off)
        except Exception:
            return None
        if nxt is None or not nxt.l:
            return None
        lines.append(nxt)
        off += nxt.l
        if off > len(data) - 4:
            break
    if len(lines) != n + 1:
        return None
    return lines


def lift_one(spec, data, addr, instr, rec, regset, rng):
    """returns list of (kind, what) failures; counts observations"""
    from miasm.core.locationdb import LocationDB
    from miasm.core.asmblock import AsmBlock
    fam = spec.family
    name = ic.base_mnemonic(spec, instr)
    fails = []
    loc_db = LocationDB()
    lines = [instr]
    if fam == "armt" and instr.name.startswith("IT") and len(instr.args) == 1:
        lines = follow_it(spec, data, addr, instr, random.Random(data))   # independent of the shard's PRNG
        if lines is None:
            rec.count("%s:it_block_undecodable" % spec.name)
            return None
    try:
        lifter = spec.lifter_cls(loc_db)
        for ins in lines:
            if ins.dstflow():
                ins.dstflow2label(loc_db)
        ircfg = lifter.new_ircfg()
        if len(lines) == 1:
            lifter.add_instr_to_ircfg(instr, ircfg)
        else:
            block = AsmBlock(loc_db, loc_db.get_or_create_offset_location(addr))
            block.lines = lines
            lifter.add_asmblock_to_ircfg(block, ircfg)
    except cpulimit.CpuTimeout:
        raise
    except Exception as exc:
        import sys
        kind, where = classify_exception(instr, exc, sys.exc_info()[2])
        if kind == "unsupported":
            rec.count("%s:unsupported" % spec.name)
            rec.count("unsupported:%s" % type(exc).__name__)
            return []
        rec.count("%s:crash" % spec.name)
        where, semfunc = where
        kind = "crash:%s" % type(exc).__name__
        if semfunc:
            kind = "sem:%s %s" % (semfunc, kind)
        return [(kind, "lifting raises %s(%s) in %s" % (type(exc).__name__, common.short(exc, 200), where))]
    rec.count("%s:lifted" % spec.name)

    def fail(kind, what):
        fails.append((kind, what))
    try:
        nb = monitor(spec, lifter, ircfg, instr, regset, fail)
    except cpulimit.CpuTimeout:
        raise
    except Exception as exc:
        fails.append(("monitor_crash:%s" % type(exc).__name__, "walking the IR raises %r" % (exc,)))
        nb = 0
    rec.count("blocks", nb)
    if nb > 1:
        rec.count("multi_block_instr")
    return fails


def random_addr(spec, rng):
    r = rng.random()
    bits = 16 if spec.family in ("msp430", "x86_16") else (32 if spec.family != "aarch64" and spec.name != "x86_64" else 48)
    if r < 0.15:
        a = 0
    elif r < 0.3:
        a = (1 << bits) - 0x40 - rng.randrange(0x100)     # near the top of the address space
    else:
        a = rng.getrandbits(rng.choice((12, 16, bits)))
    a &= (1 << bits) - 1
    align = 4 if spec.unit == 4 else (2 if spec.unit == 2 else 1)
    a -= a % align
    if a + 32 >= (1 << bits):
        a = (1 << bits) - 64
    return a


def run_shard(params, rec):
    common.quiet()
    ic.enable_pycache()
    cpulimit.install()
    rng = common.rng_for(params)
    n = params["n"]
    for spec in ic.SPECS:
        if not spec.semmod:
            continue
        regset = set(spec.mn.regs.all_regs_ids)
        regset.add(spec.lifter_cls(__import__("miasm.core.locationdb", fromlist=["LocationDB"]).LocationDB()).IRDst)
        walk = (params["shard"], params["nshards"], params.get("walk_rounds", 1), params.get("walk_stride", 1))
        for data, origin in ic.stream(spec, rng, params["seed"] * 64 + params["shard"], n, walk):
            # walk candidates get an address derived from their bytes (seed-independent)
            addr = random_addr(spec, random.Random(data) if origin.startswith("walk") else rng)
            if not ic.selected(spec):
                continue
            instr, err = ic.decode(spec, data, addr)
            if instr is None:
                rec.count("%s:undecodable" % spec.name)
                if err not in ("Disasm_Exception", "IOError", "no_instr"):
                    rec.count("dis_raises:%s:%s" % (spec.family, err))
                continue
            rec.ev()
            rec.count("%s:decoded" % spec.name)
            rec.count("origin:" + origin)
            name = ic.base_mnemonic(spec, instr)
            rec.count("mn:%s:%s" % (spec.family, name))
            rec.distinct("%s/%s/%s" % (spec.name, instr.name, ic.operand_kinds(instr)))
            text = None
            try:
                text = str(instr)
            except Exception:
                pass
            try:
                with cpulimit.cpu_limit(20):
                    fails = lift_one(spec, data, addr, instr, rec, regset, rng)
            except cpulimit.CpuTimeout:
                rec.count("case_timeout")
                continue
            if fails is None:
                continue
            if len(rec.samples) < 3 and not fails:
                rec.sample(dict(arch=spec.name, bytes=ic.hexs(instr.b), addr=addr, text=text))
            seen = set()
            for kind, what in fails:
                if kind.startswith(("foreign_identifier:", "sem:")):
                    # mechanism = the decoder hands out a register the architecture does not declare
                    # / the semantic function that crashes (shared by several mnemonics)
                    key = "%s %s" % (spec.family, kind)
                else:
                    key = "%s %s %s" % (spec.family, name, kind)
                if key in seen:
                    continue
                seen.add(key)
                rec.fail(key, "%s: %s" % (text, what),
                         dict(arch=spec.name, mode=str(spec.mode), bytes=ic.hexs(data), addr=addr,
                              instr=text, length=instr.l, origin=origin))


def floors(tier, counters, evaluations):
    miss = []
    names = {}
    for k, v in counters.items():
        if k.startswith("mn:"):
            fam = k.split(":")[1]
            names[fam] = names.get(fam, 0) + 1
    want = {"x86_16": 150, "x86_32": 150, "x86_64": 150, "aarch64": 150, "mips32": 150, "ppc32": 150,
            "arm": 60, "armt": 80, "msp430": 30, "mep": 100}
    for fam, w in sorted(want.items()):
        if names.get(fam, 0) < w:
            miss.append("%s: only %d distinct mnemonics lifted (< %d)" % (fam, names.get(fam, 0), w))
    for spec in ic.SPECS:
        if spec.semmod and counters.get("%s:lifted" % spec.name, 0) < 200:
            miss.append("%s: fewer than 200 instructions lifted" % spec.name)
    return miss
