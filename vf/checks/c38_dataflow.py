"""C38 data-flow analyses (reaching definitions, def-use, liveness) equal
their path-based definitions.

Oracle: vf/models/c38_dataflow.py -- the definitions themselves, evaluated by
enumerating block paths on graphs of at most 6 blocks x 3 assignblocks over
three variables (plus IRDst and the return-address identifier)."""
from vf import common

CHECK = dict(
    id="C38", level="exploration",
    rule=("random IR graphs with 1-6 blocks of 1-3 assignblocks over the variables a, b, c (register "
          "and memory destinations, reads through memory pointers, conditional IRDst, exits through a "
          "non-location IRDst (true leaf) or through a location without block), all successor shapes "
          "with <= 3 blocks (quick) / <= 4 blocks (thorough) swept exhaustively with random contents; "
          "ReachingDefinitions, DiGraphDefUse(deref_mem in {False, True}), DiGraphLiveness, "
          "DiGraphLivenessIRA and -- on the SSA form of the connected graphs -- DiGraphLivenessSSA are "
          "compared with the path-based model; blocks are registered in random order in half of the graphs, "
          "and 30% are re-run (reaching definitions / def-use) as hand-built graphs with empty "
          "pass-through blocks; distinct = distinct (shape, read/write pattern)"),
    assumptions=["identifiers only: memory cells named by ExprMem are not compared (syntactic treatment)",
                 "liveness conventions: nothing is read after an exit through a location without block; "
                 "DiGraphLivenessIRA/SSA read get_out_regs(block) after a block without successor; "
                 "a phi argument is read on the edge from the predecessor whose reaching definition it is; "
                 "the live-in set of a phi assignblock is compared without the phi arguments",
                 "SSADiGraph output is taken as the input of the SSA liveness variant (its validity is C37)"],
    timeout={"quick": 600, "thorough": 3000},
    exhaustive={"quick": False, "thorough": False},
    technique="runtime monitoring: differential against brute-force path enumeration",
)

NSHARDS = 16
CASE_CPU_SECONDS = 30      # CPU time (ITIMER_PROF), not wall-clock


def shards(tier, seed, scale):
    per = 200 if tier == "quick" else 5000
    return common.mk_shards(NSHARDS, seed, tier, per, scale, sweep=(3 if tier == "quick" else 4))


# --------------------------------------------------------------------------- IR side

class World(object):
    def __init__(self):
        from miasm.core.locationdb import LocationDB
        from miasm.expression.expression import ExprId
        self.loc_db = LocationDB()
        self.vars = [ExprId(n, 32) for n in "abc"]
        self.IRDst = ExprId("IRDst", 32)
        self.RET = ExprId("RET", 32)
        self.locs = [self.loc_db.add_location("blk%d" % i) for i in range(6)]
        self.outs = [self.loc_db.add_location("out%d" % i) for i in range(2)]


def ids_of(expr, through_mem=True, out=None):
    """own walker: identifiers of @expr (optionally not below an ExprMem)"""
    from miasm.expression.expression import (ExprInt, ExprId, ExprLoc, ExprMem, ExprOp, ExprSlice,
                                             ExprCompose, ExprCond)
    if out is None:
        out = set()
    cls = expr.__class__
    if cls is ExprId:
        out.add(expr)
    elif cls is ExprMem:
        if through_mem:
            ids_of(expr.ptr, through_mem, out)
    elif cls is ExprOp or cls is ExprCompose:
        for a in expr.args:
            ids_of(a, through_mem, out)
    elif cls is ExprSlice:
        ids_of(expr.arg, through_mem, out)
    elif cls is ExprCond:
        ids_of(expr.cond, through_mem, out)
        ids_of(expr.src1, through_mem, out)
        ids_of(expr.src2, through_mem, out)
    elif cls is ExprInt or cls is ExprLoc:
        pass
    else:
        raise ValueError("unexpected node %r" % cls)
    return out


def locs_of(expr, out=None):
    from miasm.expression.expression import ExprLoc, ExprCond
    if out is None:
        out = []
    if expr.__class__ is ExprLoc:
        if expr.loc_key not in out:
            out.append(expr.loc_key)
    elif expr.__class__ is ExprCond:
        locs_of(expr.src1, out)
        locs_of(expr.src2, out)
    return out


def abstract(blocks, order, irdst, phi_reads_on_edges=False):
    """blocks: dict loc_key -> IRBlock; order: list of loc_keys (block k = order[k]).
    -> prog for the model (leaf_out left to the caller: 'exits' lists how each block leaves)"""
    index = {lk: k for k, lk in enumerate(order)}
    ablocks, succ, exits, phis = [], [], [], {}
    for k, lk in enumerate(order):
        blk = blocks[lk]
        abl = []
        dst_expr = None
        for i, ab in enumerate(blk):
            reads, writes, assigns = set(), set(), []
            for dst, src in ab.items():
                is_phi = src.is_op("Phi")
                if is_phi and phi_reads_on_edges:
                    phis.setdefault(k, []).append((dst, list(src.args)))
                    r_all, r_nomem = set(), set()
                else:
                    r_all = ids_of(src, True)
                    r_nomem = ids_of(src, False)
                if dst.is_mem():
                    r_all = r_all | ids_of(dst.ptr, True)
                else:
                    writes.add(dst)
                if dst == irdst:
                    dst_expr = src
                reads |= r_all
                assigns.append((dst, r_all, r_nomem))
            abl.append(dict(reads=reads, writes=writes, assigns=assigns))
        ablocks.append(abl)
        sk, leaves_graph = [], False
        if dst_expr is not None:
            targets = locs_of(dst_expr)
            for t in targets:
                if t in index:
                    sk.append(index[t])
                else:
                    leaves_graph = True
            kind = "loc" if leaves_graph else None
            if not targets:
                kind = "leaf"
        else:
            kind = "leaf"
        succ.append(sk)
        exits.append(kind)
    return dict(blocks=ablocks, succ=succ, exits=exits, phis=phis)


class Builder(object):
    """random contents for a given shape"""

    def __init__(self, rng, world):
        self.rng = rng
        self.w = world

    def src(self):
        from miasm.expression.expression import ExprInt, ExprMem, ExprCond, ExprSlice
        r = self.rng
        n = r.choice([0, 1, 1, 1, 2, 2])
        items = []
        for _ in range(n):
            v = r.choice(self.w.vars)
            k = r.random()
            if k < 0.2:
                items.append(ExprMem(v + ExprInt(r.choice([0, 4, 8]), 32), 32))
            elif k < 0.3:
                items.append(ExprSlice(v, 0, 16).zeroExtend(32))
            else:
                items.append(v)
        if not items:
            return ExprInt(r.randrange(0, 4), 32)
        e = items[0]
        for it in items[1:]:
            k = r.random()
            if k < 0.5:
                e = e + it
            elif k < 0.7:
                e = e ^ it
            elif k < 0.85:
                e = ExprCond(e, it, ExprInt(r.randrange(0, 3), 32))
            else:
                e = e - it
        if r.random() < 0.3:
            e = e + ExprInt(r.randrange(1, 5), 32)
        return e

    def assignblk(self, extra=None):
        from miasm.expression.expression import ExprMem, ExprInt
        from miasm.ir.ir import AssignBlock
        r = self.rng
        out = {}
        for _ in range(r.choice([1, 1, 2])):
            if r.random() < 0.15:
                dst = ExprMem(r.choice(self.w.vars) + ExprInt(r.choice([0, 4]), 32), 32)
            else:
                dst = r.choice(self.w.vars)
            if dst in out:
                continue
            out[dst] = self.src()
        if extra:
            out.update(extra)
        return AssignBlock(out)

    def irdst(self, targets, leaf):
        """targets: list of 0..2 loc_keys; leaf: 'leaf' -> identifier destination"""
        from miasm.expression.expression import ExprLoc, ExprCond, ExprInt
        r = self.rng
        if not targets:
            return self.w.RET if r.random() < 0.8 else self.w.RET + ExprInt(4, 32)
        if len(targets) == 1:
            return ExprLoc(targets[0], 32)
        c = r.choice(self.w.vars)
        if r.random() < 0.3:
            c = c & ExprInt(1, 32)
        return ExprCond(c, ExprLoc(targets[0], 32), ExprLoc(targets[1], 32))

    def graph(self, shape):
        """shape: list per block of target tokens (int block index | 'out0' | 'out1'); [] = true leaf"""
        from miasm.ir.ir import IRCFG, IRBlock, AssignBlock
        r = self.rng
        w = self.w
        ircfg = IRCFG(w.IRDst, w.loc_db)
        built = []
        for k, targets in enumerate(shape):
            tl = [w.locs[t] if isinstance(t, int) else w.outs[int(t[3:])] for t in targets]
            dst = self.irdst(tl, None)
            n_ab = r.choice([1, 2, 2, 3])
            abs_ = []
            merged = r.random() < 0.5
            for i in range(n_ab):
                last = (i == n_ab - 1)
                if last and merged:
                    abs_.append(self.assignblk({w.IRDst: dst}))
                elif last:
                    abs_.append(AssignBlock({w.IRDst: dst}))
                else:
                    abs_.append(self.assignblk())
            built.append(IRBlock(w.loc_db, w.locs[k], abs_))
        # registration order is not control-flow order in half of the graphs (the analyses iterate
        # over the block dictionary)
        if r.random() < 0.5:
            r.shuffle(built)
        for blk in built:
            ircfg.add_irblock(blk)
        return ircfg


def random_shape(rng):
    n = rng.choice([1, 2, 3, 3, 4, 4, 5, 5, 6, 6])
    shape = []
    style = rng.random()
    for k in range(n):
        if style < 0.5 and k + 1 < n:
            # mostly forward with some back edges
            pool = list(range(k + 1, n)) * 3 + list(range(0, k + 1)) + ["out0"]
        else:
            pool = list(range(n)) + ["out0", "out1"]
        d = rng.random()
        if d < 0.12:
            t = []
        elif d < 0.5:
            t = [rng.choice(pool)]
        else:
            t = []
            for _ in range(2):
                x = rng.choice(pool)
                if x not in t:
                    t.append(x)
        shape.append(t)
    return shape


def sweep_shapes(nmax):
    """every assignment of <= 2 successors among the n blocks (+ at most one outside exit)"""
    import itertools
    for n in range(1, nmax + 1):
        opts = [[]]
        toks = list(range(n)) + ["out0"]
        for t in toks:
            opts.append([t])
        for a, b in itertools.combinations(toks, 2):
            opts.append([a, b])
        for combo in itertools.product(opts, repeat=n):
            yield [list(c) for c in combo]


# --------------------------------------------------------------------------- comparisons

def fmt_prog(ircfg, order):
    return [str(ircfg.blocks[lk]) for lk in order if lk in ircfg.blocks]


def only_ids(d):
    return {k: v for k, v in d.items() if k.is_id()}


def check_reaching_defuse(rec, ircfg, order, prog, wit):
    from miasm.analysis.data_flow import ReachingDefinitions, DiGraphDefUse
    from vf.models import c38_dataflow as M
    try:
        rd = ReachingDefinitions(ircfg)
    except Exception as exc:
        rec.fail("ReachingDefinitions raises %s" % type(exc).__name__, repr(exc), wit)
        return
    paths = M.all_paths(prog["succ"])
    model = M.reaching_definitions(prog, paths)
    bad = None
    for (k, i), want in model.items():
        got_raw = rd.get((order[k], i), {})
        got = {}
        for var, defs in only_ids(got_raw).items():
            if defs:
                got[var] = set((order.index(lk), j) for lk, j in defs)
        rec.count("rd_points")
        rec.count("rd_facts", sum(len(v) for v in want.values()))
        if got != want:
            missing = any(d not in got.get(v, ()) for v, ds in want.items() for d in ds)
            extra = any(d not in want.get(v, ()) for v, ds in got.items() for d in ds)
            where = "block entry" if i == 0 else "inside block"
            kind = "missing" if missing and not extra else "extra" if extra and not missing else "missing+extra"
            bad = ("ReachingDefinitions: %s definition at %s" % (kind, where),
                   "point (blk%d, %d): computed %s, path-based %s" % (k, i, fmt_defs(got), fmt_defs(want)))
            break
    if bad:
        rec.fail(bad[0], bad[1], wit)
        return
    rec.count("rd_ok")
    for deref in (False, True):
        try:
            du = DiGraphDefUse(rd, deref_mem=deref)
        except Exception as exc:
            rec.fail("DiGraphDefUse(deref_mem=%s) raises %s" % (deref, type(exc).__name__), repr(exc), wit)
            continue
        want_edges = set(e for e in M.def_use(prog, model, deref) if e[1][2].is_id())
        want_nodes = set((k, i, lval) for k, blk in enumerate(prog["blocks"])
                         for i, ab in enumerate(blk) for lval, _, _ in ab["assigns"])
        got_nodes = set((order.index(n.label), n.index, n.var) for n in du.nodes())
        got_edges = set()
        for a, b in du.edges():
            if a.var.is_id() and b.var.is_id():
                got_edges.add(((order.index(a.label), a.index, a.var), (order.index(b.label), b.index, b.var)))
        # definitions of memory cells may appear as extra source nodes; compare identifier nodes
        gn = set(n for n in got_nodes if n[2].is_id())
        wn = set(n for n in want_nodes if n[2].is_id())
        rec.count("du_edges", len(want_edges))
        if gn != wn:
            rec.fail("DiGraphDefUse(deref_mem=%s): node set" % deref,
                     "nodes computed-only %s, model-only %s" % (sorted(map(str, gn - wn)), sorted(map(str, wn - gn))), wit)
            continue
        if got_edges != want_edges:
            kind = "missing" if want_edges - got_edges and not got_edges - want_edges else \
                "extra" if got_edges - want_edges and not want_edges - got_edges else "missing+extra"
            rec.fail("DiGraphDefUse(deref_mem=%s): %s edge" % (deref, kind),
                     "computed-only %s ; model-only %s" % (sorted(map(str, got_edges - want_edges))[:4],
                                                          sorted(map(str, want_edges - got_edges))[:4]), wit)
            continue
        rec.count("du_ok")


def fmt_defs(d):
    return "{%s}" % ", ".join("%s:%s" % (v, sorted(ds)) for v, ds in sorted(d.items(), key=lambda x: str(x[0])))


class OutRegs(object):
    """stands for the lifter in init_var_info: get_out_regs(block)"""

    def __init__(self, regs):
        self.regs = set(regs)

    def get_out_regs(self, _block):
        return set(self.regs)


def run_liveness(cls, ircfg, lifter, seed_all=False):
    """drive the analysis as miasm.analysis.simplifier does; @seed_all: same methods, but the
    worklist starts from every block (what-if run used only to classify a mismatch)"""
    lv = cls(ircfg)
    visited = set()
    orig = lv.back_propagate_compute

    def spy(block):
        visited.add(block.loc_key)
        return orig(block)
    lv.back_propagate_compute = spy
    if lifter is not None:
        lv.init_var_info(lifter)
    if not seed_all:
        lv.compute_liveness()
    else:
        todo = set(lv.blocks)
        while todo:
            node = todo.pop()
            cur = lv.blocks.get(node, None)
            if cur is None:
                continue
            if not lv.back_propagate_compute(cur):
                continue
            for pred in lv.predecessors(node):
                lv.back_propagate_to_parent(todo, node, pred)
    return lv, visited


def liveness_diff(lv, order, prog, live_in, live_out, phi_args):
    """-> None or (kind, text)"""
    for k, lk in enumerate(order):
        infos = lv.blocks[lk].infos
        for i, info in enumerate(infos):
            g_in = set(v for v in info.var_in if v.is_id())
            g_out = set(v for v in info.var_out if v.is_id())
            w_in, w_out = live_in[(k, i)], live_out[(k, i)]
            if i == 0 and k in phi_args:
                g_in -= phi_args[k]
                w_in = w_in - phi_args[k]
            for what, g, w in (("live-in", g_in, w_in), ("live-out", g_out, w_out)):
                if g != w:
                    kind = "missing" if w - g and not g - w else "extra" if g - w and not w - g else "missing+extra"
                    return kind, "%s of (blk%d, %d): computed {%s}, path-based {%s}" % (
                        what, k, i, ", ".join(sorted(map(str, g))), ", ".join(sorted(map(str, w))))
    return None


def check_liveness(rec, variant, cls, ircfg, order, prog, variables, lifter, wit, edge_reads=None,
                   phi_args=None):
    from vf.models import c38_dataflow as M
    try:
        lv, visited = run_liveness(cls, ircfg, lifter)
    except Exception as exc:
        rec.fail("%s raises %s" % (variant, type(exc).__name__), repr(exc), wit)
        return
    live_in, live_out = M.liveness(prog, variables, edge_reads)
    rec.count("live_points:" + variant, len(live_in))
    rec.count("live_facts:" + variant, sum(len(s) for s in live_in.values()))
    diff = liveness_diff(lv, order, prog, live_in, live_out, phi_args or {})
    if diff is None:
        rec.count("live_ok:" + variant)
        if len(visited) == len(order):
            rec.count("live_ok_all_blocks_visited:" + variant)
        return
    kind, text = diff
    never = [k for k, lk in enumerate(order) if lk not in visited]
    if never and kind == "missing":
        # what-if: identical methods, worklist seeded with every block
        try:
            lv2, _ = run_liveness(cls, ircfg, lifter, seed_all=True)
            diff2 = liveness_diff(lv2, order, prog, live_in, live_out, phi_args or {})
        except Exception:
            diff2 = ("error", "")
        if diff2 is None:
            rec.fail("DiGraphLiveness.compute_liveness: blocks never visited (worklist seeded with leaves only, "
                     "propagation stops at a block whose live-in stays empty)",
                     "%s: %s; blocks never passed to back_propagate_compute: %s; seeding the worklist with every "
                     "block gives the path-based result" % (variant, text, never), wit)
            return
    rec.fail("%s: %s live variable" % (variant, kind), text, wit)


def ssa_edge_reads(rec, prog, order):
    """phi argument -> read on the edge from the predecessor at whose end it is the reaching version of
    its variable.  -> (edge_reads, phi_args) or None if some predecessor has no unique version"""
    from vf.models import c38_dataflow as M

    def orig_name(v):
        name = v.name
        if "." in name and name.rsplit(".", 1)[1].isdigit():
            return name.rsplit(".", 1)[0]
        return name
    # program with writes folded to the original names
    fblocks = []
    defsite = {}
    for k, blk in enumerate(prog["blocks"]):
        fb = []
        for i, ab in enumerate(blk):
            ws = set()
            for v in ab["writes"]:
                ws.add(orig_name(v))
                defsite[(k, i, orig_name(v))] = v
            fb.append(dict(reads=set(), writes=ws, assigns=[]))
        fblocks.append(fb)
    folded = dict(blocks=fblocks, succ=prog["succ"])
    reach = M.reaching_definitions(folded)
    preds = {k: [p for p in range(len(prog["succ"])) if k in prog["succ"][p]] for k in range(len(order))}
    edge_reads, phi_args = {}, {}
    for k, plist in prog["phis"].items():
        for dst, args in plist:
            phi_args.setdefault(k, set()).update(args)
            name = orig_name(dst)
            for p in preds[k]:
                sites = reach[(p, len(prog["blocks"][p]))].get(name, set())
                cur = set(defsite[(b, j, name)] for b, j in sites)
                cur &= set(args)
                if len(cur) != 1:
                    return None
                edge_reads.setdefault((p, k), set()).update(cur)
    return edge_reads, phi_args


class Tagged(object):
    """recorder proxy that marks the failure keys of a variant"""
    def __init__(self, rec, tag):
        self._rec, self._tag = rec, tag

    def __getattr__(self, name):
        return getattr(self._rec, name)

    def fail(self, key, what, wit=None):
        self._rec.fail(key + self._tag, what, wit)


def empty_block_variant(rec, rng, world, ircfg, order, prog, wit):
    """reaching definitions / def-use on the same blocks laid out as a hand-built graph (block dictionary
    and edges written directly, blocks registered in random order) with one or two blocks WITHOUT any
    AssignBlock inserted on internal edges: pure pass-through nodes"""
    from miasm.ir.ir import IRCFG, IRBlock
    edges = [(a, b) for a, ss in enumerate(prog["succ"]) for b in ss]
    if not edges:
        return
    order2 = list(order)
    blocks2 = list(prog["blocks"])
    succ2 = [list(ss) for ss in prog["succ"]]
    for a, b in rng.sample(edges, min(len(edges), rng.choice([1, 1, 2]))):
        if b not in succ2[a]:
            continue
        e_idx = len(order2)
        order2.append(world.loc_db.add_location())
        blocks2.append([])
        succ2[a] = [e_idx if t == b else t for t in succ2[a]]
        succ2.append([b])
    g = IRCFG(world.IRDst, world.loc_db)
    reg = list(range(len(order2)))
    rng.shuffle(reg)
    for k in reg:
        lk = order2[k]
        g.blocks[lk] = ircfg.blocks[lk] if lk in ircfg.blocks else IRBlock(world.loc_db, lk, [])
        g.add_node(lk)
    for a, ss in enumerate(succ2):
        for t in ss:
            g.add_uniq_edge(order2[a], order2[t])
    prog2 = dict(blocks=blocks2, succ=succ2, exits=list(prog["exits"]) + [None] * (len(order2) - len(order)), phis={})
    rec.count("graphs_with_empty_pass_through_block")
    wit2 = dict(wit, empty_blocks=[str(lk) for lk in order2[len(order):]],
                edges=[(a, t) for a, ss in enumerate(succ2) for t in ss],
                registration=[str(order2[k]) for k in reg])
    check_reaching_defuse(Tagged(rec, " [hand-built graph with an empty pass-through block]"), g, order2, prog2, wit2)


def one_graph(rec, rng, world, shape, tag):
    from miasm.analysis.data_flow import DiGraphLiveness, DiGraphLivenessIRA, DiGraphLivenessSSA
    from miasm.ir.ir import IRCFG
    b = Builder(rng, world)
    ircfg = b.graph(shape)
    order = world.locs[:len(shape)]
    prog = abstract(ircfg.blocks, order, world.IRDst)
    rec.ev()
    rec.count("graphs:" + tag)
    rec.count("blocks", len(shape))
    sig = []
    for k, blk in enumerate(prog["blocks"]):
        sig.append("%s>%s" % ("/".join("%s<%s" % ("".join(sorted(str(x) for x in ab["writes"])),
                                                      "".join(sorted(str(x) for x in ab["reads"]))) for ab in blk),
                              shape[k]))
    rec.distinct("|".join(sig))
    wit = dict(shape=shape, blocks=fmt_prog(ircfg, order))
    if tag == "random":
        rec.sample(wit, limit=1)
    has_cycle = any(k in reach_from(prog["succ"], k) for k in range(len(shape)))
    if has_cycle:
        rec.count("graphs_with_cycle")
    if "leaf" in prog["exits"]:
        rec.count("graphs_with_true_leaf")
    if "loc" in prog["exits"]:
        rec.count("graphs_with_outside_exit")

    check_reaching_defuse(rec, ircfg, order, prog, wit)
    if rng.random() < 0.3:
        empty_block_variant(rec, rng, world, ircfg, order, prog, wit)

    variables = list(world.vars) + [world.RET, world.IRDst]
    # base class: nothing is read after the graph
    prog["leaf_out"] = [set() if e is not None else None for e in prog["exits"]]
    check_liveness(rec, "DiGraphLiveness", DiGraphLiveness, ircfg, order, prog, variables, None, wit)
    # IRA: out regs after true leaves
    outregs = set(rng.sample(world.vars, rng.choice([0, 1, 2])))
    lifter = OutRegs(outregs)
    prog["leaf_out"] = [set(outregs) if e == "leaf" else set() if e == "loc" else None for e in prog["exits"]]
    wit2 = dict(wit, out_regs=sorted(map(str, outregs)))
    check_liveness(rec, "DiGraphLivenessIRA", DiGraphLivenessIRA, ircfg, order, prog, variables, lifter, wit2)

    # SSA variant on the SSA form (needs every block reachable from block 0)
    if set(reach_from(prog["succ"], 0)) | set([0]) != set(range(len(shape))):
        rec.count("ssa_skipped_not_connected")
        return
    from miasm.analysis.ssa import SSADiGraph
    g2 = IRCFG(world.IRDst, world.loc_db)
    for lk in order:
        g2.add_irblock(ircfg.blocks[lk])
    try:
        ssa = SSADiGraph(g2)
        ssa.transform(order[0])
    except Exception as exc:
        rec.count("ssa_transform_raises_%s" % type(exc).__name__)   # C37's business
        return
    order2 = list(order) + [lk for lk in g2.blocks if lk not in order]
    order2 = [lk for lk in order2 if lk in g2.blocks]
    prog2 = abstract(g2.blocks, order2, world.IRDst, phi_reads_on_edges=True)
    er = ssa_edge_reads(rec, prog2, order2)
    if er is None:
        rec.count("ssa_skipped_no_unique_phi_source")
        return
    edge_reads, phi_args = er
    if phi_args:
        rec.count("ssa_graphs_with_phi")
    vars2 = set()
    for blk in prog2["blocks"]:
        for ab in blk:
            vars2 |= ab["reads"] | ab["writes"]
    for s in edge_reads.values():
        vars2 |= s
    vars2 |= outregs
    prog2["leaf_out"] = [set(outregs) if e == "leaf" else set() if e == "loc" else None for e in prog2["exits"]]
    wit3 = dict(shape=shape, blocks=fmt_prog(g2, order2), out_regs=sorted(map(str, outregs)),
                original=wit["blocks"])
    check_liveness(rec, "DiGraphLivenessSSA", DiGraphLivenessSSA, g2, order2, prog2, sorted(vars2, key=str),
                   lifter, wit3, edge_reads=edge_reads, phi_args=phi_args)


def reach_from(succ, k):
    """blocks reachable from k by at least one edge"""
    seen, todo = set(), list(succ[k])
    while todo:
        x = todo.pop()
        if x in seen:
            continue
        seen.add(x)
        todo.extend(succ[x])
    return seen


def run_shard(params, rec):
    common.quiet()
    rng = common.rng_for(params)
    from vf.models import cpulimit
    cpulimit.install()
    world = World()

    def guarded(shape, tag):
        try:
            with cpulimit.cpu_limit(CASE_CPU_SECONDS):
                one_graph(rec, rng, world, shape, tag)
        except cpulimit.CpuTimeout:
            rec.count("case_cpu_timeout")       # never a verdict; see floors
    for i in range(params["n"]):
        guarded(random_shape(rng), "random")
    # exhaustive sweep over small shapes, shared between the shards
    nsh = params.get("nshards", 1)
    for idx, shape in enumerate(sweep_shapes(params.get("sweep", 3))):
        if idx % nsh != params.get("shard", 0):
            continue
        guarded(shape, "sweep")
    if params.get("shard", 0) == 0:
        rec.sample(dict(note="sweep shapes enumerated up to %d blocks" % params.get("sweep", 3)))


def floors(tier, counters, evaluations):
    miss = []
    g = counters.get("graphs:random", 0) + counters.get("graphs:sweep", 0)
    if counters.get("case_cpu_timeout", 0) > 0.01 * max(1, g):
        miss.append("more than 1%% of the cases ran out of CPU time (%d)" % counters.get("case_cpu_timeout", 0))
    if counters.get("rd_facts", 0) < 5 * g:
        miss.append("fewer than 5 reaching-definition facts per graph")
    if counters.get("du_edges", 0) < g:
        miss.append("fewer than one def-use edge per graph")
    if counters.get("graphs_with_cycle", 0) < 0.2 * g:
        miss.append("fewer than 20% of graphs contain a cycle")
    for v in ("DiGraphLiveness", "DiGraphLivenessIRA", "DiGraphLivenessSSA"):
        if counters.get("live_facts:" + v, 0) < g:
            miss.append("%s: fewer than one live-variable fact per graph" % v)
    if counters.get("ssa_graphs_with_phi", 0) < 0.05 * g:
        miss.append("fewer than 5% of graphs reach the SSA liveness variant with a phi")
    return miss
