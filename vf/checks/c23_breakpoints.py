"""C23 breakpoints fire exactly when execution reaches their address."""
from vf import common

CHECK = dict(
    id="C23", level="exploration",
    rule=("programs with a counted loop per architecture mode; a single-step reference run (jit_maxline=1, "
          "max_exec_per_call=1, no breakpoint) gives the sequence of executed instruction addresses; the same "
          "program then runs under a random configuration with scripted breakpoints: added before the first "
          "run (block heads, mid-block instructions, never-reached addresses), added from a stop point after "
          "the code was translated, removed by address at a stop point, removing themselves from inside the "
          "callback, returning True or False; the callback log (address, jitter.pc, stop position) must equal "
          "the log predicted by replaying the scripts over the reference sequence; distinct = (arch, backend, "
          "script shape)"),
    assumptions=["LLVM back end unavailable", "set_breakpoint (documented as not de-jitting) is not used",
                 "REP-prefixed self-looping instructions are not generated"],
    overlay={"quick": "plain", "thorough": "asan"},
    crash_is_violation=True,
    timeout={"quick": 1500, "thorough": 6000},
    technique="runtime monitoring: callback log vs trace specification replayed over a single-step reference trace",
)

ARCHS = ["x86_32", "x86_64", "arml", "aarch64l", "mips32l", "ppc32b", "msp430", "x86_16", "armb",
         "mips32b", "armtl", "aarch64b"]


def shards(tier, seed, scale):
    per = 8 if tier == "quick" else 350
    out = []
    for i in range(24):
        out.append(dict(seed=seed, shard=i, tier=tier, hashseed=0 if i % 2 == 0 else 1 + seed + i,
                        arch=ARCHS[i % len(ARCHS)], backend="gcc" if (i // len(ARCHS)) % 2 == 0 else "python",
                        n=max(1, int(per * scale))))
    return out


def predict_observer(trace, scripts, initial, obs_addrs, remove_obs):
    """log of the shared observer callback registered on @obs_addrs: it is removed (by callback) at
    the first stop that happens on an address outside @obs_addrs, when @remove_obs"""
    active = set(initial)
    hits = {}
    obs_on = True
    obs_live = set(obs_addrs)      # remove_breakpoints_by_address drops every callback of the address
    log = []
    for pos, addr in enumerate(trace):
        # callbacks run in registration order: the scripted one first; what it does at a stop
        # (removal by address) happens before the observer's turn for this hit
        if addr not in active:
            if obs_on and addr in obs_live:
                log.append(addr)
            continue
        n = hits.get(addr, 0)
        hits[addr] = n + 1
        acts = scripts[addr]
        act = acts[min(n, len(acts) - 1)]
        if act[0] == "selfremove":
            active.discard(addr)
        elif act[0] == "stop":
            if remove_obs and obs_on and addr not in obs_addrs:
                obs_on = False
            for a in act[1]:
                active.add(a)
            for a in act[2]:
                if a in active:
                    obs_live.discard(a)
                active.discard(a)
        if obs_on and addr in obs_live:
            log.append(addr)
    return log


def predict(trace, scripts, initial):
    """replay the scripts over the reference address sequence.
    scripts: addr -> list of actions (one per hit, last one repeats)
    action: ("cont",) | ("stop", adds, removes) | ("selfremove",)
    -> expected log [(addr, position)] and the stop positions"""
    active = set(initial)
    hits = {}
    log = []
    for pos, addr in enumerate(trace):
        if addr not in active:
            continue
        n = hits.get(addr, 0)
        hits[addr] = n + 1
        acts = scripts[addr]
        act = acts[min(n, len(acts) - 1)]
        log.append((addr, pos))
        if act[0] == "selfremove":
            active.discard(addr)
        elif act[0] == "stop":
            for a in act[1]:
                active.add(a)
            for a in act[2]:
                active.discard(a)
    return log


def run_shard(params, rec):
    common.quiet()
    from vf import jitlib
    rng = common.rng_for(params)
    spec = jitlib.ArchSpec(params["arch"])
    backend = params["backend"]
    pool = [p for p in jitlib.instr_pool(spec, rng, 70)]
    if len(pool) < 20:
        rec.count("pool_too_small:" + spec.mname)
        return
    L = spec.L
    for i in range(params["n"]):
        prog = jitlib.make_prog(spec, rng, pool, rng.randrange(4, 11), with_loop=True, fault_bias=0.0)
        rec.ev()
        ref = jitlib.run(spec, backend, prog, options=dict(jit_maxline=1, max_exec_per_call=1),
                         max_steps=400, trace=True)
        if ref.budget or ref.raised:
            rec.count("discarded_reference")
            continue
        trace = list(ref.trace)
        if trace and trace[-1] == prog.end and ref.stop == "end":
            trace.pop()
        if len(trace) < 3:
            rec.count("discarded_short")
            continue
        # collapse immediate repeats (a faulting instruction is not re-entered in the reference)
        starts = [o for o, ln, t, nm in prog.instrs if nm != "LOOPTAIL"]
        executed = sorted(set(trace))
        # an instruction in a branch delay slot never starts a block (a split there would separate it
        # from its branch): breakpoints on delay slots are outside what the jitter supports
        never = [a for a in starts if a not in executed and a not in prog.delay_slots] + \
            [prog.end + 0x40, L.CODE + 0x800]
        executed = [a for a in executed if a not in prog.delay_slots]
        # ---- scripts
        cands = executed[:]
        rng.shuffle(cands)
        initial = cands[:rng.choice([1, 2, 3])]
        later = [a for a in cands[3:6]]
        # block boundaries: the instruction that ends a translated block (the one before the loop tail
        # / before the end marker) is preferred for breakpoints added after translation
        if rng.random() < 0.5:
            ends = []
            for k_, (o_, ln_, t_, nm_) in enumerate(prog.instrs):
                nxt_ = prog.instrs[k_ + 1][3] if k_ + 1 < len(prog.instrs) else "END"
                if nxt_ in ("LOOPTAIL", "END") and nm_ != "LOOPTAIL" and o_ in executed and o_ not in initial:
                    ends.append(o_)
            if ends:
                later = ends + [a for a in later if a not in ends][:2]
                rec.count("later_breakpoint_on_block_end")
        scripts = {}
        shape = []
        for a in set(initial + later):
            acts = []
            for _ in range(rng.choice([1, 2, 3])):
                k = rng.random()
                if k < 0.45:
                    acts.append(("cont",))
                elif k < 0.85:
                    adds = [rng.choice(later)] if later and rng.random() < 0.6 else []
                    removes = [rng.choice(initial + later)] if rng.random() < 0.5 else []
                    acts.append(("stop", adds, removes))
                else:
                    acts.append(("selfremove",))
            scripts[a] = acts
            shape.append(tuple(x[0] for x in acts))
        for a in never[:2]:
            scripts[a] = [("cont",)]
            initial.append(a)
        expected = predict(trace, scripts, initial)
        # a second, shared callback on some of the same addresses (two callbacks on one address);
        # removing it by callback must leave the scripted callbacks of those addresses in place
        obs_addrs = set(a for a in initial if a in executed and rng.random() < 0.6)
        remove_obs = rng.random() < 0.7
        expected_obs = predict_observer(trace, scripts, initial, obs_addrs, remove_obs)
        # ---- real run
        opts = dict(jit_maxline=rng.choice([1, 2, 3, 5, 50]), max_exec_per_call=rng.choice([0, 0, 1, 2, 7]))
        jitter = jitlib.new_jitter(spec, backend, prog, opts)
        log = []
        state = dict(hits={}, stopped=None, bad_pc=None, end=False, exc=False, steps=0, pos=0)
        callbacks = {}

        def make_cb(addr):
            def cb(j):
                n = state["hits"].get(addr, 0)
                state["hits"][addr] = n + 1
                if j.pc != addr:
                    state["bad_pc"] = (addr, j.pc)
                acts = scripts[addr]
                act = acts[min(n, len(acts) - 1)]
                log.append(addr)
                if act[0] == "selfremove":
                    j.remove_breakpoints_by_callback(callbacks[addr])
                    live.discard(addr)
                    return True
                if act[0] == "stop":
                    state["stopped"] = (addr, act)
                    return False
                return True
            return cb

        def at_end(j):
            state["end"] = True
            return False

        def on_exc(j):
            state["exc"] = True
            return False

        def count(j):
            state["steps"] += 1
            return state["steps"] <= 2000
        for a in set(initial + later):
            callbacks[a] = make_cb(a)
        for a in never[:2]:
            callbacks[a] = make_cb(a)
        live = set()
        obs_log = []
        obs_state = dict(on=True)

        def observer(j):
            obs_log.append(j.pc)
            return True
        for a in initial:
            jitter.add_breakpoint(a, callbacks[a])
            live.add(a)
        for a in sorted(obs_addrs):
            jitter.add_breakpoint(a, observer)
        jitter.add_breakpoint(prog.end, at_end)
        for bit in list(range(1, 5)) + [10, 25]:
            jitter.add_exception_handler(1 << bit, on_exc)
        jitter.exec_cb = count
        raised = None
        pc_at_stop_ok = True
        try:
            jitter.init_run(L.CODE)
            for _ in range(400):
                state["stopped"] = None
                jitter.continue_run()
                if state["stopped"] is None:
                    break
                addr, act = state["stopped"]
                if jitter.pc != addr:
                    pc_at_stop_ok = (addr, jitter.pc)
                if remove_obs and obs_state["on"] and addr not in obs_addrs:
                    jitter.remove_breakpoints_by_callback(observer)
                    obs_state["on"] = False
                    rec.count("observer_removed_by_callback")
                for a in act[1]:
                    if a not in live:
                        jitter.add_breakpoint(a, callbacks[a])       # after translation
                        live.add(a)
                        rec.count("added_after_translation")
                for a in act[2]:
                    if a in live:       # removing an unknown address raises KeyError by design
                        jitter.remove_breakpoints_by_address(a)
                        live.discard(a)
                        rec.count("removed_by_address")
        except Exception as exc:
            raised = "%s: %s" % (type(exc).__name__, str(exc)[:200])
        rec.count("scenarios:%s:%s" % (spec.mname, backend))
        rec.distinct("%s|%s|%s|%s" % (spec.mname, backend, sorted(shape), sorted(opts.items())))
        wit = dict(prog=prog.describe(), opts=opts, backend=backend,
                   scripts={hex(a): v for a, v in scripts.items()}, initial=[hex(a) for a in initial],
                   reference_trace=[hex(a) for a in trace[:80]],
                   expected=[hex(a) for a, p in expected[:60]], got=[hex(a) for a in log[:60]])
        if raised == "CalledProcessError" or (raised and raised.startswith("CalledProcessError")):
            rec.count("unsupported_by_backend")
            continue
        if raised:
            rec.fail("%s: run with breakpoints raises %s" % (backend, raised.split(":")[0]), raised, wit)
            continue
        if state["steps"] > 2000:
            rec.fail("%s: run with breakpoints does not finish" % backend, "step budget exceeded", wit)
            continue
        rec.count("logs_compared")
        mid = [a for a in scripts if a in executed and a != L.CODE]
        if mid:
            rec.count("with_mid_block_candidates")
        if state["bad_pc"] is not None:
            rec.fail("%s: callback invoked with jitter.pc different from its address" % backend,
                     "callback for 0x%x saw pc 0x%x" % state["bad_pc"], wit)
            continue
        if pc_at_stop_ok is not True:
            rec.fail("%s: run stopped by a callback does not leave pc on the breakpoint" % backend,
                     "stopped for 0x%x with pc 0x%x" % pc_at_stop_ok, wit)
            continue
        exp_addrs = [a for a, p in expected]
        if log != exp_addrs:
            k = next((j for j in range(min(len(log), len(exp_addrs))) if log[j] != exp_addrs[j]),
                     min(len(log), len(exp_addrs)))
            if len(log) < len(exp_addrs) and log == exp_addrs[:len(log)]:
                cls = "missed hit"
            elif len(log) > len(exp_addrs) and exp_addrs == log[:len(exp_addrs)]:
                cls = "spurious hit"
            else:
                cls = "wrong order or address"
            cfgc = "maxline=%s maxexec=%s" % ("1" if opts["jit_maxline"] == 1 else ">1",
                                              "0" if opts["max_exec_per_call"] == 0 else ">0")
            rec.fail("%s: breakpoint log differs from the trace specification (%s, %s)" % (backend, cls, cfgc),
                     "position %d: expected %s got %s" % (k, [hex(a) for a in exp_addrs[k:k + 3]],
                                                          [hex(a) for a in log[k:k + 3]]), wit)
            continue
        if obs_log != expected_obs:
            rec.fail("%s: second callback on the same addresses: log differs from the specification" % backend,
                     "expected %s got %s" % ([hex(a) for a in expected_obs[:8]], [hex(a) for a in obs_log[:8]]),
                     dict(wit, observer_addrs=[hex(a) for a in sorted(obs_addrs)], remove_observer=remove_obs))
            continue
        if obs_addrs:
            rec.count("with_two_callbacks_on_one_address")
        # breakpoints must not change the computation
        fin = jitlib.Outcome()
        jitlib.snapshot(jitter, spec, fin)
        d = jitlib.diff_outcomes(ref, fin, spec, skip=("raised",))
        if d is not None:
            rec.fail("%s: final state with breakpoints differs from the reference (%s)" % (backend, d[0]),
                     "%s %s" % d, wit)
            continue
        rec.count("ok")
        if expected:
            rec.count("with_hits")
        if i % 10 == 0:
            rec.sample(dict(machine=spec.mname, backend=backend, opts=opts,
                            scripts={hex(a): v for a, v in list(scripts.items())[:3]},
                            log=[hex(a) for a in log[:10]]), limit=6)


def floors(tier, counters, evaluations):
    miss = []
    lc = counters.get("logs_compared", 0)
    if lc < 0.4 * evaluations:
        miss.append("only %d of %d scenarios compared" % (lc, evaluations))
    if counters.get("with_hits", 0) < 0.5 * lc:
        miss.append("fewer than half of the scenarios have a breakpoint hit")
    if counters.get("added_after_translation", 0) < 0.1 * lc:
        miss.append("too few breakpoints added after translation")
    if counters.get("removed_by_address", 0) < 0.1 * lc:
        miss.append("too few removals")
    return miss
