"""C41 dynamic symbolic execution stays in step and yields valid new inputs.

Monitor: generated x86-32/64 programs (vf/models/c41_progs.py) are run on a
jitter (python / gcc back end, C extensions from the overlay) with a
DSEPathConstraint attached, following the protocol of
example/symbol_exec/dse_strategies.py (attach, update_state_from_concrete,
symbolize registers / a memory buffer / stack arguments, snapshot, loop over
candidate inputs with restore_snapshot).  Observed:

 * DriftException (or the `assert dst == cur_addr` of DSEPathConstraint.handle)
   during any run = the symbolic state left the concrete one;
 * every solution handed to handle_solution() is turned into an input (z3 model
   evaluated on the input symbols, model completion on) and replayed on a FRESH
   jitter: the instruction trace must equal the original trace up to the
   deciding instruction and the next executed instruction must be the
   solution's destination.  Destinations that are IR-internal labels (shifts by
   CL, CMOVcc, DIV, BSF ... are lifted to several IR blocks) cannot be seen on
   the jitter; for them the IR blocks of the deciding instruction are run by the
   independent interpreter vf/irinterp.py on the replay's concrete state and
   the IR path must enter the destination label.
"""
import os
import struct

from vf import common

CHECK = dict(
    id="C41", level="exploration",
    rule=("random x86-32/x86-64 programs (<= ~60 instructions, if/else nesting <= 3, loops with <= 4 trips, "
          "memory addressed through concrete pointers except constant-table lookups) assembled by miasm from templates: ALU/shift/rotate/extension/LEA/IMUL/DIV/CMOV/SETcc/"
          "ADC/BSWAP/spill-reload statements, conditions from CMP/TEST/ALU flags/BT with all 16 condition codes, "
          "and lookups in constant byte/dword tables through an input-derived masked index (compared value in "
          "the last/first/middle cell of the reachable range or absent); "
          "inputs = 1-3 symbolized registers, a symbolized 4-8 byte buffer (symbolize_memory) or 1-2 stack "
          "arguments (update_state on ExprMem); explored with code-cov / branch-cov / path-cov for a bounded "
          "number of candidate inputs; distinct = (program, strategy, engine, solution key)"),
    assumptions=["the jitter back end executes the program faithfully (C18/C20 decide that); it is the reference "
                 "for 'concrete execution'",
                 "vf/irinterp + vf/refsem give the concrete meaning of the IR blocks of one instruction "
                 "(used only for IR-internal destinations and as a second opinion)",
                 "z3 (python bindings 5.1) evaluates its own models correctly; queries are bounded by rlimit, "
                 "an 'unknown' answer is simply no solution"],
    timeout={"quick": 900, "thorough": 5400},
    exhaustive={"quick": False, "thorough": False},
    deps=True,
    overlay="plain",
    crash_is_violation=False,
    technique="runtime monitoring: replay of every produced input on a fresh emulator, drift monitor",
    level_text=("every solution produced on the observed programs was replayed; held = no drift and every "
                "replay took the branch at the recorded program point"),
    level_note="trusted: jitter back end as concrete reference, z3, refsem/irinterp for IR-internal branches",
)

STALE_KEY = ("symbolize_memory: read of a symbolized byte after the program stored to it returns the input "
             "symbol (ESETrackModif.mem_read)")
STRATS = ["code-cov", "branch-cov", "path-cov"]
MODES = ["reg", "mem", "stack"]
MAX_STEPS = 600


def shards(tier, seed, scale):
    if tier == "quick":
        out = common.mk_shards(16, seed, tier, per_shard=6, scale=scale, n_gcc=1, max_runs=5)
        for d in out:
            # every compiled single-instruction block costs a cc run: gcc back end on every second shard
            d["n_gcc"] = 1 if d["shard"] % 2 == 0 else 0
    else:
        out = common.mk_shards(16, seed, tier, per_shard=140, scale=scale, n_gcc=max(1, int(8 * scale)),
                               max_runs=10)
    if os.environ.get("VERIF_C41_ENGINES") == "python":     # development aid (mutation trials on a loaded host)
        for d in out:
            d["n_gcc"] = 0
    return out


# --------------------------------------------------------------------------
# building blocks

class Rejected(Exception):
    pass


def assemble(machine, prog):
    from miasm.core.locationdb import LocationDB
    from miasm.core import parse_asm
    from miasm.core.asmblock import asm_resolve_final
    from miasm.core.interval import interval
    from vf.models import c41_progs as P
    loc_db = LocationDB()
    asmcfg = parse_asm.parse_txt(machine.mn, prog["bits"], prog["text"], loc_db)
    loc_db.set_location_offset(loc_db.get_name_location("main"), P.CODE_ADDR)
    patches = asm_resolve_final(machine.mn, asmcfg,
                                dst_interval=interval([(P.CODE_ADDR, P.CODE_ADDR + 0xfff)]))
    lo = min(patches)
    hi = max(off + len(raw) for off, raw in patches.items())
    if lo != P.CODE_ADDR:
        raise Rejected("layout")
    image = bytearray(hi - lo)
    for off, raw in patches.items():
        image[off - lo:off - lo + len(raw)] = raw
    fin = loc_db.get_location_offset(loc_db.get_name_location("fin"))
    image = bytes(image)
    # the bytes must decode back to as many instructions as the text has (an assembler candidate with
    # stray bytes would otherwise turn the program into something the templates never meant)
    from miasm.core.bin_stream import bin_stream_str
    bs = bin_stream_str(image, base_address=P.CODE_ADDR)
    off, count = P.CODE_ADDR, 0
    while off < P.CODE_ADDR + len(image):
        ins = machine.mn.dis(bs, prog["bits"], off)
        if ins is None:
            raise Rejected("undecodable")
        off += ins.l
        count += 1
    if count != sum(1 for l in prog["text"].splitlines() if l.startswith("    ")):
        raise Rejected("inconsistent")
    return image, fin


def input_bytes(prog, inp):
    return bytes(inp["b%d" % i] for i in range(prog["buf_len"]))


def new_jitter(machine, engine, prog, image, fin, inp):
    """fresh jitter (own LocationDB) loaded with the program and input @inp"""
    from miasm.core.locationdb import LocationDB
    from miasm.jitter.csts import PAGE_READ, PAGE_WRITE
    from vf.models import c41_progs as P
    loc_db = LocationDB()
    jitter = machine.jitter(loc_db, engine)
    jitter.vm.add_memory_page(P.CODE_ADDR, PAGE_READ | PAGE_WRITE, image + b"\x90" * 16, "code")
    jitter.vm.add_memory_page(P.BUF_ADDR, PAGE_READ | PAGE_WRITE, b"\x00" * 0x40, "buf")
    jitter.vm.add_memory_page(P.SCRATCH_ADDR, PAGE_READ | PAGE_WRITE, bytes(prog["scratch"]), "scratch")
    jitter.vm.add_memory_page(P.TABLE_ADDR, PAGE_READ | PAGE_WRITE, bytes(prog["table"]), "table")
    jitter.init_stack()
    bits = prog["bits"]
    push = jitter.push_uint32_t if bits == 32 else jitter.push_uint64_t
    for i in reversed(range(prog["nargs"])):
        push(0)
    push(fin)

    def stop(j):
        j.running = False
        return False
    jitter.add_breakpoint(fin, stop)
    for name, val in prog["init_regs"].items():
        setattr(jitter.cpu, name, val)
    load_input(jitter, prog, inp)
    return jitter, loc_db


def sp_of(jitter, prog):
    return jitter.cpu.ESP if prog["bits"] == 32 else jitter.cpu.RSP


def load_input(jitter, prog, inp):
    from vf.models import c41_progs as P
    mode = prog["mode"]
    if mode == "reg":
        for name in prog["sym_regs"]:
            setattr(jitter.cpu, name, inp[name])
    elif mode == "mem":
        jitter.vm.set_mem(P.BUF_ADDR, input_bytes(prog, inp))
    else:
        w = prog["bits"] // 8
        sp = sp_of(jitter, prog)
        for i in range(prog["nargs"]):
            jitter.vm.set_mem(sp + w * (i + 1), struct.pack("<I" if w == 4 else "<Q", inp["a%d" % i]))


def make_dse_class():
    from miasm.analysis.dse import DSEPathConstraint, ESETrackModif
    from miasm.expression.expression import canonize_to_exprloc, ExprMem, ExprInt

    class WatchEngine(ESETrackModif):
        """Observer on the documented SYMB_ENGINE hook: counts reads of a
        symbolized byte that return the input symbol although the symbolic
        state holds a value stored there by the program (behaviour unchanged)."""
        v_stale = 0

        def mem_read(self, expr_mem):
            res = super(WatchEngine, self).mem_read(expr_mem)
            try:
                if expr_mem.ptr.is_int() and self.dse_memory_to_expr is not None:
                    base = int(expr_mem.ptr)
                    for i in range(expr_mem.size // 8):
                        addr = base + i
                        if addr not in self.dse_memory_range:
                            continue
                        cell = ExprMem(ExprInt(addr, expr_mem.ptr.size), 8)
                        if cell not in self.symbols:
                            continue
                        written = self.expr_simp(self.symbols[cell])
                        got = res if res.size == 8 else self.expr_simp(res[8 * i:8 * i + 8])
                        if got == self.dse_memory_to_expr(addr) and written != got:
                            self.v_stale += 1
            except Exception:
                pass
            return res

    class RecDSE(DSEPathConstraint):
        """DSEPathConstraint + bookkeeping through the documented extension
        points handle()/handle_solution(); behaviour is not altered."""
        SYMB_ENGINE = WatchEngine

        def v_reset(self):
            self.v_trace = []        # instruction addresses, in execution order
            self.v_irpath = []       # IR loc_keys run inside the last instruction
            self.v_ctx = None
            self.v_solutions = []
            if self.symb is not None:
                self.symb.v_stale = 0

        def handle(self, cur_addr):
            self.v_ctx = (len(self.v_trace) - 1, tuple(self.v_irpath))
            res = super(RecDSE, self).handle(cur_addr)
            if cur_addr.is_int():
                self.v_trace.append(int(cur_addr))
                self.v_irpath = [canonize_to_exprloc(self.lifter.loc_db, cur_addr).loc_key]
            else:
                self.v_irpath.append(cur_addr.loc_key)
            return res

        def handle_solution(self, model, destination):
            key = self._key_for_solution_strategy(destination)
            super(RecDSE, self).handle_solution(model, destination)
            # does the deciding destination expression read memory through a symbolic address?
            box = [False]

            def look(e):
                if e.is_mem() and not e.ptr.is_int():
                    box[0] = True
                return e
            try:
                self.eval_expr(self.lifter.IRDst).visit(look)
            except Exception:
                pass
            self.v_solutions.append((self.v_ctx + (box[0],), destination, key, model))
    return RecDSE


def input_symbols(prog, dse, jitter):
    """-> (dict input name -> Expr symbol, state update or None)"""
    from miasm.expression.expression import ExprId, ExprMem, ExprInt
    from miasm.core.interval import interval
    from vf.models import c41_progs as P
    bits = prog["bits"]
    regs = dse.lifter.arch.regs
    syms = {}
    if prog["mode"] == "reg":
        upd = {}
        for name in prog["sym_regs"]:
            syms[name] = ExprId("IN_" + name, bits)
            upd[getattr(regs, name)] = syms[name]
        dse.update_state(upd)
    elif prog["mode"] == "mem":
        dse.symbolize_memory(interval([(P.BUF_ADDR, P.BUF_ADDR + prog["buf_len"] - 1)]))
        for i in range(prog["buf_len"]):
            syms["b%d" % i] = dse.memory_to_expr(P.BUF_ADDR + i)
    else:
        upd = {}
        w = bits // 8
        sp = sp_of(jitter, prog)
        for i in range(prog["nargs"]):
            syms["a%d" % i] = ExprId("ARG%d" % i, bits)
            upd[ExprMem(ExprInt(sp + w * (i + 1), bits), bits)] = syms["a%d" % i]
        dse.update_state(upd)
    return syms


def model_to_input(dse, model, syms):
    out = {}
    for name, sym in syms.items():
        v = model.eval(dse.z3_trans.from_expr(sym), model_completion=True)
        out[name] = v.as_long()
    return out


def ir_replay(dse, addr, jitter):
    """Run the IR blocks the DSE used for the instruction at @addr on the
    concrete state of @jitter with the independent interpreter."""
    from vf import irinterp, refsem
    blocks = dse.addr_to_cacheblocks.get(addr)
    if not blocks:
        return "no_blocks"
    vm = jitter.vm

    class VmEnv(refsem.Env):
        def default_byte(self, a):
            try:
                return vm.get_mem(a, 1)[0]
            except Exception:
                raise refsem.Undef("unmapped 0x%x" % a)
    ids = {}
    for reg in dse.lifter.arch.regs.all_regs_ids:
        if hasattr(jitter.cpu, reg.name):
            try:
                ids[reg] = getattr(jitter.cpu, reg.name)
            except Exception:
                pass
    from vf import irgen
    env = VmEnv(ids=ids, locs=irgen.LocMap(dse.loc_db))

    class G(object):
        pass
    g = G()
    g.blocks = blocks
    g.IRDst = dse.lifter.IRDst
    start = dse.loc_db.get_offset_location(addr)
    if start is None or start not in blocks:
        return "no_start"
    try:
        res = irinterp.run(g, dse.loc_db, start, env, max_steps=200)
    except (refsem.Undef, refsem.Unsupported) as exc:
        return "raises_" + type(exc).__name__
    if res.status != "exit":
        return "%s:%s" % (res.status, str(res.detail)[:60])
    return list(res.path) + [res.exit]


def replay(machine, engine, prog, image, fin, inp, k_branch, dse):
    """-> (trace up to k_branch+1, IR sequence of instruction k_branch or None, fault or None)"""
    jitter, _ = new_jitter(machine, engine, prog, image, fin, inp)
    from vf.models import c41_progs as P
    jitter.jit.set_options(max_exec_per_call=1, jit_maxline=1)
    trace = []
    box = {}

    def cb(j):
        i = len(trace)
        trace.append(j.pc)
        if i == k_branch:
            box["ir"] = ir_replay(dse, j.pc, j)
        if i >= k_branch + 1 or i > MAX_STEPS:
            j.running = False
            return False
        return True
    jitter.exec_cb = cb
    fault = None
    try:
        jitter.init_run(P.CODE_ADDR)
        jitter.continue_run()
    except Exception as exc:
        fault = "%s: %s" % (type(exc).__name__, common.short(exc, 200))
    return trace, box.get("ir"), fault


def classify_exc(exc):
    """exceptions of the DSE that are documented limitations -> reason, else None"""
    msg = str(exc)
    if isinstance(exc, NotImplementedError):
        return "unsupported:NotImplementedError"
    if isinstance(exc, (RecursionError, MemoryError)):
        # expression depth/size limit of the host interpreter (e.g. carry chains through a loop):
        # a resource bound, neither a drift nor an invalid solution
        return "resource:" + type(exc).__name__
    if isinstance(exc, TypeError) and "Rely on a symbolic memory case" in msg:
        return "unsupported:symbolic_memory"
    if isinstance(exc, RuntimeError) and "too long memory area" in msg:
        return "unsupported:memory_area"
    return None


# --------------------------------------------------------------------------

def run_program(rec, rng, machine, prog, engine, strat_name, max_runs, tag):
    from miasm.analysis.dse import DriftException, DSEPathConstraint
    from miasm.jitter.jitload import JitterException
    from vf.models import c41_progs as P
    strategy = {"code-cov": DSEPathConstraint.PRODUCE_SOLUTION_CODE_COV,
                "branch-cov": DSEPathConstraint.PRODUCE_SOLUTION_BRANCH_COV,
                "path-cov": DSEPathConstraint.PRODUCE_SOLUTION_PATH_COV}[strat_name]
    try:
        image, fin = assemble(machine, prog)
    except Exception as exc:
        rec.count("asm_rejected")
        rec.count("asm_rejected:" + type(exc).__name__)
        return "asm"
    wit0 = dict(machine=machine.name, engine=engine, strategy=strat_name, mode=prog["mode"],
                program=prog["text"], init_regs={k: hex(v) for k, v in prog["init_regs"].items()},
                sym_regs=prog["sym_regs"], buf_len=prog["buf_len"], nargs=prog["nargs"],
                scratch=bytes(prog["scratch"]).hex(), table=bytes(prog["table"]).hex(), code=image.hex(),
                fin=hex(fin))
    RecDSE = make_dse_class()
    jitter, loc_db = new_jitter(machine, engine, prog, image, fin, prog["input0"])
    jitter.init_run(P.CODE_ADDR)
    try:
        dse = RecDSE(machine, loc_db, produce_solution=strategy)
        dse.attach(jitter)
        dse.update_state_from_concrete()
        syms = input_symbols(prog, dse, jitter)
        snapshot = dse.take_snapshot()
    except Exception as exc:
        rec.fail("%s: DSE set-up raises %s" % (tag, type(exc).__name__), common.short(exc, 400), wit0)
        return "fail"

    def fail(key, what, wit):
        """failures of a run in which the DSE answered a read of a symbolized byte with the
        input symbol although the program had stored to it are attributed to that mechanism"""
        stale = getattr(dse.symb, "v_stale", 0)
        if stale:
            rec.count("failures_in_runs_with_stale_symbolized_reads")
            rec.fail(STALE_KEY, "%s [symptom: %s]" % (what, key), dict(wit, symptom=key, stale_reads=stale))
        else:
            rec.fail(key, what, wit)

    dse_cb = jitter.exec_cb
    steps = [0]

    def guarded_cb(j):
        steps[0] += 1
        if steps[0] > MAX_STEPS:
            j.running = False
            return False
        return dse_cb(j)
    jitter.exec_cb = guarded_cb

    todo = [prog["input0"]]
    done = set()
    runs = 0
    nsol_total = 0
    status = "ok"
    while todo and runs < max_runs:
        inp = todo.pop(0)
        ikey = tuple(sorted(inp.items()))
        if ikey in done:
            continue
        done.add(ikey)
        runs += 1
        wit = dict(wit0, input={k: hex(v) for k, v in inp.items()}, run_index=runs)
        rec.ev()
        rec.count("dse_runs")
        try:
            dse.restore_snapshot(snapshot, keep_known_solutions=True)
            dse.v_reset()
            steps[0] = 0
            jitter.init_run(P.CODE_ADDR)
            load_input(jitter, prog, inp)
            jitter.continue_run()
        except DriftException as exc:
            where = dse.v_trace[-1] if dse.v_trace else None
            wit["drift"] = str(exc)
            wit["trace"] = [hex(a) for a in dse.v_trace[-12:]]
            fail("%s: DriftException" % tag, "DSE drift near 0x%x: %s" % (where or 0, common.short(exc, 300)), wit)
            status = "fail"
            break
        except JitterException as exc:
            # the program itself faults on this input: not a DSE matter; the aborted run leaves the
            # engine's modification tracker behind, so the exploration of this program stops here
            rec.count("concrete_fault")
            status = "concrete_fault"
            break
        except AssertionError as exc:
            wit["trace"] = [hex(a) for a in dse.v_trace[-12:]]
            import traceback
            tb = traceback.extract_tb(exc.__traceback__)
            fn = tb[-1].name if tb else "?"
            fail("%s: AssertionError in %s" % (tag, fn),
                     "assertion failed in dse (%s line %s)" % (fn, tb[-1].lineno if tb else "?"), wit)
            status = "fail"
            break
        except Exception as exc:
            why = classify_exc(exc)
            if why is not None:
                rec.count("rejected")
                rec.count("rejected:" + why)
                status = "rejected"
                break
            import traceback
            tb = traceback.extract_tb(exc.__traceback__)
            fn = "%s:%s" % (os.path.basename(tb[-1].filename), tb[-1].name) if tb else "?"
            wit["trace"] = [hex(a) for a in dse.v_trace[-12:]]
            wit["exception"] = common.short(exc, 600)
            fail("%s: DSE run raises %s in %s" % (tag, type(exc).__name__, fn), common.short(exc, 400), wit)
            status = "fail"
            break
        if steps[0] > MAX_STEPS:
            rec.count("step_budget")
            continue
        if jitter.pc != fin:
            rec.count("run_not_finished")
            continue
        rec.count("dse_runs_completed")
        rec.count("instructions_followed", len(dse.v_trace))
        trace = list(dse.v_trace)
        for (k_b, sub, symptr), dest, key, model in dse.v_solutions:
            nsol_total += 1
            rec.count("solutions")
            rec.count("solutions:" + strat_name)
            rec.count("solutions:" + engine)
            rec.count("solutions:%s:%s" % (machine.name, prog["mode"]))
            if symptr:
                rec.count("solutions:deciding_read_has_symbolic_address")
            try:
                new_inp = model_to_input(dse, model, syms)
            except Exception as exc:
                fail("%s: model evaluation raises %s" % (tag, type(exc).__name__), common.short(exc, 300), wit)
                continue
            d_off = loc_db.get_location_offset(dest.loc_key)
            rec.distinct("%s|%s|%s|%s|%r" % (prog["text"], strat_name, engine, d_off, k_b))
            swit = dict(wit, solution_input={k: hex(v) for k, v in new_inp.items()},
                        destination=hex(d_off) if d_off is not None else str(dest),
                        branch_insn=hex(trace[k_b]) if 0 <= k_b < len(trace) else None,
                        step_index=k_b, original_trace=[hex(a) for a in trace[max(0, k_b - 6):k_b + 2]],
                        model=common.short(model, 400))
            if k_b < 0 or k_b >= len(trace):
                fail("%s: solution produced before any instruction" % tag, "no deciding instruction", swit)
                continue
            rtrace, irseq, fault = replay(machine, engine, prog, image, fin, new_inp, k_b, dse)
            swit["replay_trace"] = [hex(a) for a in rtrace[max(0, k_b - 6):k_b + 2]]
            cls = prog["mode"]
            if dse.symb.v_stale:
                rec.count("solutions_from_runs_with_stale_symbolized_reads")
            if fault is not None:
                swit["fault"] = fault
                fail("%s: replay of solution faults (%s input)" % (tag, cls), fault, swit)
                continue
            if rtrace[:k_b + 1] != trace[:k_b + 1]:
                div = next((i for i in range(min(len(rtrace), k_b + 1)) if rtrace[i] != trace[i]), len(rtrace))
                swit["diverges_at_step"] = div
                fail("%s: replay leaves the recorded path before the branch point (%s input)" % (tag, cls),
                         "solution for %s: replay diverges at step %d (0x%x instead of 0x%x)" % (
                             swit["destination"], div, rtrace[div] if div < len(rtrace) else 0,
                             trace[div] if div < len(trace) else 0), swit)
                continue
            ok = True
            if isinstance(irseq, str):
                rec.count("ir_second_opinion_unavailable:" + irseq)
                irseq = None
            if d_off is not None:
                rec.count("checked_on_jitter")
                got = rtrace[k_b + 1] if len(rtrace) > k_b + 1 else None
                if got != d_off:
                    ok = False
                    fail("%s: replay does not take the branch (%s input)" % (tag, cls),
                             "after 0x%x the replay continues at %s, solution was produced for 0x%x" % (
                                 trace[k_b], hex(got) if got is not None else None, d_off), swit)
            if ok and irseq is not None:
                rec.count("checked_on_ir")
                seq = irseq
                n = len(sub)
                want = dest.loc_key
                if list(seq[:n]) != list(sub):
                    ok = False
                    swit["ir_path"] = [str(x) for x in seq]
                    swit["ir_recorded"] = [str(x) for x in sub]
                    fail("%s: replay leaves the recorded IR path inside the deciding instruction (%s input)" % (
                        tag, cls), "IR path differs inside instruction 0x%x" % trace[k_b], swit)
                else:
                    got = seq[n] if n < len(seq) else None
                    if not isinstance(got, type(want)):
                        got = dse.loc_db.get_offset_location(got) if got is not None else None
                    if got != want:
                        ok = False
                        swit["ir_path"] = [str(x) for x in seq]
                        fail("%s: IR-internal branch not taken on replay (%s input)" % (tag, cls),
                                 "inside instruction 0x%x the IR path goes to %s, solution was for %s" % (
                                     trace[k_b], got, want), swit)
                    elif d_off is None:
                        rec.count("ir_internal_destinations_verified")
            elif ok and d_off is None:
                rec.count("ir_internal_unobservable")
            if ok:
                rec.count("solutions_verified")
                rec.count("solutions_verified:" + strat_name)
                rec.count("solutions_verified:" + engine)
                rec.count("solutions_verified:%s" % machine.name)
                rec.count("solutions_verified:mode_" + cls)
                if symptr:
                    rec.count("solutions_verified:deciding_read_has_symbolic_address")
                if prog.get("bufwrite"):
                    rec.count("solutions_verified:program_stores_into_symbolized_buffer")
                if prog["kinds"].get("struct:loop_sym"):
                    rec.count("solutions_verified:in_program_with_symbolic_loop")
            todo.append(new_inp)
    if nsol_total:
        rec.count("programs_with_solution")
        rec.count("programs_with_solution:" + strat_name)
    rec.count("programs_" + status)
    return status


def run_shard(params, rec):
    common.quiet()
    common.limit_memory(6)
    import z3
    z3.set_param("rlimit", 3000000)
    try:
        # harness-only: memoize miasm's pyparsing grammar (assembling the text is otherwise half of the
        # CPU budget); output bytes are identical (probed with a fixed PYTHONHASHSEED)
        import pyparsing
        pyparsing.ParserElement.enable_packrat()
    except Exception:
        pass
    from miasm.analysis.machine import Machine
    from vf.models import c41_progs as P
    rng = common.rng_for(params)
    machines = {32: Machine("x86_32"), 64: Machine("x86_64")}
    n = params["n"]
    n_gcc = params.get("n_gcc", 1)
    shard = params.get("shard", 0)
    made = 0
    attempts = 0
    while made < n and attempts < n * 5:
        attempts += 1
        bits = 32 if (made + shard) % 2 == 0 else 64
        mode = MODES[(made // 2 + shard) % 3]
        strat = STRATS[(made + shard // 2) % 3]
        engine = "gcc" if made < n_gcc else "python"
        bufwrite = (mode == "mem" and rng.random() < 0.5)
        prog = P.make_program(rng, bits, mode, bufwrite=bufwrite)
        if engine == "gcc":
            # keep the number of single-instruction blocks to compile small
            tries = 0
            while prog["text"].count("\n") > 22 and tries < 60:
                prog = P.make_program(rng, bits, mode, bufwrite=bufwrite)
                tries += 1
        tag = "x86_%d" % bits
        st = run_program(rec, rng, machines[bits], prog, engine, strat, params.get("max_runs", 5), tag)
        if st == "asm":
            continue
        made += 1
        rec.count("programs")
        rec.count("programs:%s:%s" % (tag, prog["mode"]))
        rec.count("programs:" + engine)
        rec.count("programs:" + strat)
        for k in prog["kinds"]:
            rec.count("kind:" + k.split(":")[0])
            if k.startswith("cond:table"):
                rec.count("programs_with_" + k[5:])
        if made % 3 == 1:
            rec.sample(dict(machine=tag, mode=prog["mode"], strategy=strat, engine=engine,
                            program=prog["text"][:1200]), limit=3)


def floors(tier, counters, evaluations):
    miss = []
    progs = counters.get("programs", 0)
    if counters.get("programs_with_solution", 0) < 0.5 * max(1, progs):
        miss.append("fewer than half of the programs produced a solution (%d of %d)" % (
            counters.get("programs_with_solution", 0), progs))
    need = 15 if tier == "quick" else 150
    for s in STRATS:
        if counters.get("solutions_verified:" + s, 0) < need:
            miss.append("strategy %s: only %d solutions replayed successfully" % (
                s, counters.get("solutions_verified:" + s, 0)))
    for e, nn in (("python", need), ("gcc", 5 if tier == "quick" else 20)):
        if counters.get("solutions:" + e, 0) < nn:
            miss.append("engine %s: only %d solutions observed" % (e, counters.get("solutions:" + e, 0)))
    for m in ("x86_32", "x86_64"):
        for mode in MODES:
            if counters.get("solutions:%s:%s" % (m, mode), 0) < (3 if tier == "quick" else 30):
                miss.append("%s/%s inputs: only %d solutions" % (m, mode, counters.get("solutions:%s:%s" % (m, mode), 0)))
    if counters.get("checked_on_jitter", 0) < (60 if tier == "quick" else 600):
        miss.append("only %d solutions checked on the jitter" % counters.get("checked_on_jitter", 0))
    if counters.get("solutions_verified:deciding_read_has_symbolic_address", 0) < (10 if tier == "quick" else 100):
        miss.append("only %d solutions whose deciding read has an input-dependent address" % counters.get(
            "solutions:deciding_read_has_symbolic_address", 0))
    for where in ("last", "first", "absent"):
        got = sum(v for k, v in counters.items() if k.startswith("programs_with_table_") and k.endswith(where))
        if got < (3 if tier == "quick" else 30):
            miss.append("only %d programs branch on a table value placed '%s'" % (got, where))
    if counters.get("rejected", 0) > 0.5 * max(1, progs):
        miss.append("more than half of the programs were rejected as unsupported")
    return miss
