"""C04 generated C code computes the reference value of every expression and
never writes to stdout.

Oracle: refsem.  TranslatorC output is wrapped in C functions (identifiers =
C locals of the next C width / bn_t, MEM_LOOKUP_* = the harness's table of the
bytes refsem read), compiled with gcc -O1 -fsanitize=address,undefined
together with op_semantics.c and bn.c of the working tree, run as a
subprocess whose stdout is a file that must stay empty (results go to another
descriptor).  A failing expression is re-run node by node to name the
smallest failing sub-expression (key = failure kind + operator + width class
+ operand condition class)."""
import os

from vf import common

CHECK = dict(
    id="C04", level="translation_validation",
    rule=("random expression trees (depth 1..3) in the shapes the C back end receives (identifiers of "
          "1/8/16/32/64 bits as C locals, 65/80/128/256 bits as bn_t; shifts, rotations, divisions at native "
          "widths 8/16/32/64 and big-number widths; other widths through slices, composes, extensions, 1-bit "
          "results) plus one focused case per operator kind in turn with INT_MIN dividends, -1 divisors, "
          "counts >= width and 0/1 operands of the bit counters; 4 (quick) / 8 (thorough) valuations each; "
          "distinct = distinct alpha-renamed shapes"),
    assumptions=["refsem.py is miasm's constant evaluation (tied to it by C03)",
                 "the value of an expression is the C value masked to the expression size, as codegen.py "
                 "does when it stores it",
                 "gcc -O1 with ASan+UBSan and -DNDEBUG (as the extensions are built) stands for the jitter "
                 "runtime; MEM_LOOKUP_* are harness functions over the bytes refsem read",
                 "expressions the translator raises on, that gcc refuses, or on which the runtime exits with "
                 "its 'inv size' message are rejected inputs (counted), not violations",
                 "floating point, segm and x86_cpuid operators are excluded; division by zero valuations skipped"],
    timeout={"quick": 1500, "thorough": 5400},
    technique="runtime monitoring: compiled TranslatorC output vs reference semantics, stdout and sanitizer monitors",
)

from vf.models import xlate_common as xc  # noqa: E402

OPS = [k for k in xc.BASE_OPS if k not in ('/', '%')]
KINDS = OPS + xc.STRUCT_KINDS + ['bcdadd', 'bcdadd_cf']
WIDTH_FREE = set(xc.ASSOC_OPS + ['-', 'neg', 'parity', 'zeroExt', 'signExt', 'Slice', 'Compose', 'Cond'] +
                 xc.CMP_OPS + list(xc.CNT_OPS))

# (kind, class) pairs that TranslatorC + gcc + runtime execute on the unchanged tree
# (read from the evidence of the first runs): a starved pair means the monitor saw nothing
EXEC_NATIVE = [k for k in KINDS]
# (not at big-number widths: binary '-', 'a>>', comparisons, parity, bit counters: TranslatorC raises
# or emits code gcc refuses there)
EXEC_BIG = xc.ASSOC_OPS + ['neg', '<<', '>>', '<<<', '>>>', 'udiv', 'umod', 'sdiv', 'smod',
                           'zeroExt', 'signExt', 'Slice', 'Compose', 'Cond', 'Mem']

BIG_CYCLE = EXEC_BIG * 3 + (['-', 'a>>', 'parity'] + xc.CMP_OPS + list(xc.CNT_OPS)) * 2
BATCH = 160


def shards(tier, seed, scale):
    per = 520 if tier == "quick" else 9400
    return common.mk_shards(16, seed, tier, per, scale, nval=4 if tier == "quick" else 8)


def wclass(n):
    if n > 64:
        return "bignum"
    if n in (8, 16, 32, 64):
        return "native%d" % n
    return "native-odd"


def node_width(node):
    if node.is_op():
        return node.args[0].size
    if node.is_slice():
        return node.arg.size
    return node.size


def cells_of(env):
    """{64-bit address the C code will ask for: byte}; None on a clash between
    address spaces of different widths"""
    cells = {}
    for addr, nbytes, psize in env.reads:
        for j in range(nbytes):
            a64 = (addr + j) & 0xFFFFFFFFFFFFFFFF
            b = env.byte((addr + j) & ((1 << psize) - 1))
            if cells.setdefault(a64, b) != b:
                return None
    return cells


def run_shard(params, rec):
    common.quiet()   # no RLIMIT_AS here: the ASan-instrumented children need the address space
    from vf import exprgen, refsem
    from vf.models import c04_cexpr as cx
    from miasm.ir.translators.C import TranslatorC
    rng = common.rng_for(params)
    nval = params["nval"]
    workdir = os.environ.get("TMPDIR", "/tmp")
    builder = cx.Builder(workdir)
    gen = cx.CGen(rng)
    gen_all = exprgen.Gen(rng, widths=[1, 8, 16, 32, 64, 128], max_width=128)
    state = dict(next_id=0)
    batch = []
    turn = 0

    def new_case(e, envs):
        """translate + evaluate; returns a Case or None (counted)"""
        try:
            text = TranslatorC().from_expr(e)
            if not isinstance(text, str):
                raise TypeError("translator returned %s" % type(text).__name__)
        except Exception as exc:
            return None, exc
        vals = []
        for env in envs:
            try:
                want = refsem.evaluate(e, env)
            except refsem.Undef:
                rec.count("undef_skipped")
                continue
            except refsem.Unsupported:
                rec.count("refsem_unsupported")
                return None, None
            cells = cells_of(env)
            if cells is None:
                rec.count("address_space_clash_skipped")
                continue
            vals.append((env, want, cells))
        if not vals:
            return None, None
        cid = state["next_id"]
        state["next_id"] += 1
        return cx.Case(cid, e, text, vals), None

    def flush():
        if batch:
            process_batch(rec, builder, batch, new_case, workdir)
            del batch[:]

    for i in range(params["n"]):
        p = rng.random()
        if p < 0.04:
            e, src = gen_all.expr(gen_all.width(), rng.choice([2, 3])), "unrestricted"
        elif p < 0.30:
            e, src = gen.expr(gen.width(), rng.choice([1, 2, 3])), "random"
        else:
            turn += 1
            if turn % 9 < 4:
                # big-number widths: mostly the kinds that translate, compile and run there
                k = BIG_CYCLE[(turn // 9 * 4 + turn % 9) % len(BIG_CYCLE)]
                w = rng.choice(cx.BIG_WIDTHS)
                d = rng.choice([0, 0, 0, 1])
            else:
                k = KINDS[(turn // 9 * 5 + turn % 9 - 4) % len(KINDS)]
                if k in ('bcdadd', 'bcdadd_cf'):
                    w = 16
                elif k in WIDTH_FREE and rng.random() < 0.3:
                    w = rng.choice([1, 3, 7, 9, 17, 24, 33, 63])
                else:
                    w = rng.choice(cx.NATIVE)
                d = rng.choice([0, 0, 1, 2])
            e = xc.op_case(gen, k, w, d, mem_sizes=(8, 16, 32, 64, 128, 80))
            src = "focused"
            if e is None or e.size > 256:
                continue
        rec.ev()
        rec.count("src:" + src)
        kinds = xc.kinds_in(e)
        for node in xc.subexprs(e):
            rec.count("attempt:%s:%s" % (xc.kind(node), "bignum" if node_width(node) > 64 else "native"))
        envs = [xc.make_env(e, rng, seed=i * 16 + v, zero=(v == 0 and i % 9 == 0)) for v in range(nval)]
        case, exc = new_case(e, envs)
        if case is None:
            if exc is not None:
                rec.count("rejected_by_translator")
                rec.count("rejected_by_translator:%s" % type(exc).__name__)
                site = reject_site(e)
                rec.count("rejected_by_translator_at:%s" % site)
            continue
        if exprgen.nontrivial(e):
            rec.distinct(exprgen.shape(e))
        rec.count("translated")
        case.tag = kinds
        batch.append(case)
        if len(batch) >= BATCH:
            flush()
    flush()


def reject_site(e):
    from miasm.ir.translators.C import TranslatorC
    for node in xc.subexprs(e):
        try:
            TranslatorC().from_expr(node)
        except Exception as exc:
            return "%s:%s:%s" % (xc.kind(node), "bignum" if node_width(node) > 64 else "native",
                                 type(exc).__name__)
    return "?"


def failure_kinds(o, want):
    """list of (kind, detail) for one outcome; [] = fine; None = rejected by the runtime"""
    if o is None:
        return None
    out = []
    if o.died:
        if o.died.startswith("runtime rejects"):
            return None
        out.append(("dies", o.died))
    elif o.value != want:
        out.append(("wrong value", None))
    if o.stdout:
        out.append(("writes to stdout", None))
    seen = set()
    for where, msg in o.ub:
        if (where, msg) not in seen:
            seen.add((where, msg))
            out.append(("undefined behaviour", "%s: %s" % (where, msg)))
    return out


def process_batch(rec, builder, cases, new_case, workdir):
    from vf.models import c04_cexpr as cx
    exe, kept, rejected = builder.build(cases)
    for cid, msg in rejected.items():
        rec.count("rejected_by_compiler")
        rec.count("rejected_by_compiler:%s" % cx.norm_ub(msg)[:70])
    res = cx.run_program(exe, kept, workdir) if exe else {}
    if exe:
        os.unlink(exe)
    failing = []
    for c in kept:
        executed = False
        for j, (env, want, cells) in enumerate(c.vals):
            o = res.get((c.cid, j))
            if o is None:
                rec.count("valuation_not_run")
                continue
            fk = failure_kinds(o, want)
            if fk is None:
                rec.count("rejected_by_runtime")
                rec.count("rejected_by_runtime:%s" % o.died)
                continue
            executed = True
            rec.count("executions")
            if o.miss and not fk:
                rec.count("reads_outside_table_but_value_right")
            if env.reads:
                rec.count("executions_with_memory")
            if not fk:
                rec.count("agree")
                if len(rec.samples) < 4 and c.cid % 53 == 0:
                    rec.sample(dict(expr=str(c.expr), c=c.ctext[:300], value=hex(want)))
            else:
                rec.count("disagree")
                failing.append((c, j, fk, o))
        if executed:
            for node in xc.subexprs(c.expr):
                rec.count("exec:%s:%s" % (xc.kind(node), "bignum" if node_width(node) > 64 else "native"))
    if not failing:
        return
    if len(failing) > 250:
        rec.count("localisation_skipped", len(failing) - 250)
        failing = failing[:250]
    # ---- second program: every sub-expression of the failing cases on its own
    sub = []
    owner = {}
    for c, j, fk, o in failing:
        env = c.vals[j][0]
        for node in xc.subexprs(c.expr):
            sc, exc = new_case(node, [xc.clone_env(env)])
            if sc is None:
                continue
            sub.append(sc)
            owner[(c.cid, j, node)] = sc
    res2 = {}
    if sub:
        exe2, kept2, rej2 = builder.build(sub)
        if exe2:
            res2 = cx.run_program(exe2, kept2, workdir)
            os.unlink(exe2)
    for c, j, fk, o in failing:
        env, want, cells = c.vals[j]
        ok, kinds_of = {}, {}
        for node in xc.subexprs(c.expr):
            sc = owner.get((c.cid, j, node))
            if sc is None:
                continue
            o2 = res2.get((sc.cid, 0))
            if o2 is None:
                continue
            fk2 = failure_kinds(o2, sc.vals[0][1])
            if fk2 is None:
                continue
            ok[node] = not fk2
            kinds_of[node] = (fk2, o2, sc)
        bad = xc.minimal_failing(c.expr, ok)
        wit = dict(expr=repr(c.expr), c_code=c.ctext[:2000], env=xc.env_repr(env), refsem=hex(want),
                   got=hex(o.value) if o.value is not None else None, stdout_bytes=o.stdout,
                   sanitizer=["%s: %s" % u for u in o.ub][:5], died=o.died, stderr=o.stderr[-600:],
                   reads_outside_table=o.miss)
        if not bad:
            for kind, detail in fk:
                rec.fail("%s (not localised) root=%s %s" % (kind, xc.kind(c.expr), wclass(node_width(c.expr))),
                         "%s: %s" % (common.short(c.expr), describe(kind, detail, want, o)), wit)
            continue
        for node in bad:
            fk2, o2, sc = kinds_of[node]
            w2 = sc.vals[0][1]
            wit2 = dict(wit, node=repr(node), node_c=sc.ctext[:1000], node_refsem=hex(w2),
                        node_got=hex(o2.value) if o2.value is not None else None,
                        node_stdout_bytes=o2.stdout, node_sanitizer=["%s: %s" % u for u in o2.ub][:5],
                        node_died=o2.died, node_stderr=o2.stderr[-600:])
            for kind, detail in fk2:
                rec.fail(make_key(kind, detail, node, env),
                         "%s: %s (inside %s)" % (common.short(node, 200), describe(kind, detail, w2, o2),
                                                 common.short(c.expr, 300)), wit2)


def ptr_source(ptr):
    """kind of the pointer expression; a conditional is transparent for C typing (its
    arms are not masked), so a signed division in an arm names the pointer"""
    kinds = set()

    def walk(x, depth=0):
        if x.is_cond() and depth < 6:
            walk(x.src1, depth + 1)
            walk(x.src2, depth + 1)
        else:
            kinds.add(xc.kind(x))
    walk(ptr)
    signed = sorted(k for k in kinds if k in ('sdiv', 'smod'))
    if signed:
        return signed[0]
    return xc.kind(ptr)


def make_key(kind, detail, node, env):
    """mechanism key.  wrong value / abnormal end: operator + width class + operand condition
    class; stdout: operator + width class; sanitizer report: place and message (the same
    runtime routine is reached from several operators)"""
    k, w = xc.kind(node), wclass(node_width(node))
    if kind == "undefined behaviour":
        if detail.startswith("generated code"):
            return "undefined behaviour in %s at %s" % (detail.replace(": ", " (", 1) + ")", w)
        return "undefined behaviour in %s" % (detail.replace(": ", " (", 1) + ")")
    if kind == "writes to stdout":
        return "writes to stdout op=%s %s" % (k, w)
    cls = xc.cond_class(node, env)
    if w == "bignum" and cls.startswith("width="):
        # big-number rotations: only the count class matters
        cls = cls.split(" ")[-1]
    if k in ('sdiv', 'smod') and not cls.startswith("dividend=INT_MIN"):
        from vf import refsem
        try:
            if refsem.evaluate(node.args[1], xc.clone_env(env)) == 1 << (node.args[1].size - 1):
                cls = "divisor=INT_MIN"
        except (refsem.Undef, refsem.Unsupported):
            pass
    if node.is_mem():
        # C has a single memory model: what matters is the kind and width of the pointer expression
        w = ""
        cls = "ptr=%s/%d" % (ptr_source(node.ptr), node.ptr.size)
    if kind == "dies":
        # the count class is what matters for shifts/rotations, not the width parity
        cls = cls.split(" ")[-1] if cls.startswith("width=") else cls
        if detail == "asan FPE":
            return ("arithmetic trap (SIGFPE) op=%s %s %s" % (k, w, cls)).strip()
        if detail.startswith("asan"):
            return ("memory error op=%s %s %s" % (k, w, cls)).strip()
        return ("process ends op=%s %s (%s) %s" % (k, w, detail, cls)).strip()
    return " ".join(("wrong value op=%s %s %s" % (k, w, cls)).split())


def describe(kind, detail, want, o):
    if kind == "wrong value":
        return "refsem 0x%x, compiled C 0x%x" % (want, o.value)
    if kind == "writes to stdout":
        return "%d bytes written to stdout" % o.stdout
    if kind == "dies":
        return "process ends in this expression: %s" % detail
    return "sanitizer: %s" % detail


def floors(tier, counters, evaluations):
    miss = []
    for k in KINDS:
        for cls in ("native", "bignum"):
            if k in ('bcdadd', 'bcdadd_cf') and cls == "bignum":
                continue
            n = counters.get("attempt:%s:%s" % (k, cls), 0)
            if n < 50:
                miss.append("TranslatorC branch %s/%s attempted %d times (<50)" % (k, cls, n))
    for k in EXEC_NATIVE:
        n = counters.get("exec:%s:native" % k, 0)
        if n < 50:
            miss.append("operator kind %s executed %d times at native widths (<50)" % (k, n))
    for k in EXEC_BIG:
        n = counters.get("exec:%s:bignum" % k, 0)
        if n < 50:
            miss.append("operator kind %s executed %d times at big-number widths (<50)" % (k, n))
    if counters.get("localisation_skipped", 0):
        miss.append("%d failing cases were not localised" % counters["localisation_skipped"])
    if counters.get("executions", 0) < 0.5 * counters.get("translated", 0):
        miss.append("fewer executions than half the translated expressions")
    return miss
