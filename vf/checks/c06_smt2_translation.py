"""C06 SMT-LIB2 translation agrees with the reference semantics.

Oracle: the text of TranslatorSMT2.to_smt2 (declarations + assertions pinning
identifiers and the memory bytes refsem read + `(assert (distinct term
value))`) is given to the z3 and cvc5 binaries; both must answer unsat.  Both
sat = wrong value; both reject the text = not SMT-LIB2; anything else is
counted, never a verdict.  Failing expressions are localised to the smallest
failing sub-expression (key = operator + operand condition class) and the
value the solvers give to the term is fetched with get-value for the witness."""
import os

from vf import common

CHECK = dict(
    id="C06", level="translation_validation",
    rule=("random expression trees (depth 1..3) over the operators TranslatorSMT2 accepts plus one focused "
          "case per operator kind in turn (INT_MIN dividends, -1 divisors, counts >= width, 0/1 operands of "
          "the bit counters), widths 1..64, memory reads 8..64 bits and non-multiple-of-8 sizes, both "
          "endiannesses, 2 (quick) / 4 (thorough) valuations; distinct = distinct alpha-renamed shapes"),
    assumptions=["refsem.py is miasm's evaluation (tied to constant folding by C03)",
                 "an alarm needs both solver binaries (z3 4.8, cvc5 1.0) to give the same answer",
                 "valuations are sampled; division/modulo by zero valuations are skipped"],
    timeout={"quick": 900, "thorough": 3600},
    technique="runtime monitoring: translation validation of TranslatorSMT2 text by two independent SMT solvers",
)

from vf.models import xlate_common as xc  # noqa: E402

OPS = (xc.ASSOC_OPS + ['-', 'neg'] + list(xc.SHIFT_OPS) + list(xc.ROT_OPS) + list(xc.DIV_OPS) +
       list(xc.CNT_OPS) + ['parity', '=='])
ACCEPTED = OPS + xc.STRUCT_KINDS
WIDTHS = [1, 2, 3, 4, 7, 8, 9, 15, 16, 31, 32, 33, 63, 64]


def shards(tier, seed, scale):
    per = 260 if tier == "quick" else 3600
    return common.mk_shards(16, seed, tier, per, scale, nval=2 if tier == "quick" else 4)


def translate(e, big):
    from miasm.ir.translators.smt2 import TranslatorSMT2
    tr = TranslatorSMT2(endianness=">" if big else "<")
    return tr, tr.from_expr(e)


def build(tr, term, size, env, want):
    """bodies of the `distinct` query and of the value query, from to_smt2"""
    from vf.models import c06_smt
    pins = []
    for ident, val in sorted(env.ids.items(), key=lambda kv: str(kv[0])):
        if str(ident) in tr._bitvectors:
            pins.append("(assert (= %s %s))" % (ident, c06_smt.bvval(val, ident.size)))
    for (psize, addr), byte in sorted(xc.mem_cells(env).items()):
        if psize in tr._mem.mems:
            pins.append("(assert (= (select %s %s) %s))" % (tr._mem.mems[psize], c06_smt.bvval(addr, psize),
                                                            c06_smt.bvval(byte, 8)))

    def body(extra, tail=""):
        text = tr.to_smt2(pins + extra)
        first, rest = text.split("\n", 1)
        if not first.startswith("(set-logic"):
            raise RuntimeError("unexpected to_smt2 layout: %r" % first)
        return rest + tail
    q = body(["(assert (distinct %s %s))" % (term, c06_smt.bvval(want, size))])
    v = body(["(define-fun VERIF_T () (_ BitVec %d) %s)" % (size, term)], "(get-value (VERIF_T))\n")
    return q, v


def run_shard(params, rec):
    common.quiet()
    common.limit_memory(6)
    from vf import exprgen, refsem
    from vf.models import c06_smt
    miss = c06_smt.tools_missing()
    if miss:
        raise RuntimeError("solver binaries missing: %s" % miss)
    rng = common.rng_for(params)
    nval = params["nval"]
    workdir = os.environ.get("TMPDIR", "/tmp")
    gen = exprgen.Gen(rng, widths=WIDTHS, ops=xc.gen_ops(OPS), flags=False, pow_op=False,
                      mem_any_size=True, max_width=64)
    gen_all = exprgen.Gen(rng, widths=WIDTHS, mem_any_size=True, max_width=64)
    cases = []      # (e, big, tr, term, kinds)
    queries = []    # (qid, body)
    meta = {}       # qid -> (case index, env, want, value-query body)
    turn = 0
    for i in range(params["n"]):
        big = rng.random() < 0.5
        p = rng.random()
        if p < 0.06:
            e, src = gen_all.expr(gen_all.width(), rng.choice([2, 3])), "unrestricted"
        elif p < 0.45:
            e, src = gen.expr(gen.width(), rng.choice([1, 2, 3])), "random"
        else:
            k = ACCEPTED[turn % len(ACCEPTED)]
            turn += 1
            w = rng.choice(WIDTHS) if rng.random() < 0.6 else rng.choice([8, 16, 32, 64])
            if k == 'Mem':
                e = xc.op_case(gen, k, w, rng.choice([0, 1]), mem_sizes=(8, 16, 32, 64, 24, 3, 12, 33))
            else:
                e = xc.op_case(gen, k, w, rng.choice([0, 0, 1, 2]))
            src = "focused"
            if e is None:
                continue
        rec.ev()
        rec.count("src:" + src)
        kinds = xc.kinds_in(e)
        try:
            tr, term = translate(e, big)
        except NotImplementedError:
            rec.count("rejected")
            for k in kinds:
                if k not in ACCEPTED:
                    rec.count("rejected_op:" + k)
            continue
        except NameError as exc:
            # an unbound variable is a programming error, not a rejection
            where = crash_site(e, big)
            rec.fail("translator crashes %s in %s" % (type(exc).__name__, where),
                     "TranslatorSMT2.from_expr(%s) raised %r" % (common.short(e), exc),
                     dict(expr=repr(e), big_endian=big))
            rec.count("crash:" + where)
            continue
        except Exception as exc:
            rec.count("rejected")
            rec.count("rejected_exc:%s" % type(exc).__name__)
            continue
        rec.count("translated")
        rec.count("endianness:%s" % ("big" if big else "little"))
        if exprgen.nontrivial(e):
            rec.distinct(exprgen.shape(e))
        ci = len(cases)
        cases.append((e, big, tr, term, kinds))
        for v in range(nval):
            env = xc.make_env(e, rng, seed=i * 8 + v, big_endian=big, zero=(v == 0 and i % 7 == 0))
            try:
                want = refsem.evaluate(e, env)
            except refsem.Undef:
                rec.count("undef_skipped")
                continue
            except refsem.Unsupported:
                rec.count("refsem_unsupported")
                break
            q, vq = build(tr, term, e.size, env, want)
            qid = len(queries)
            queries.append((qid, q))
            meta[qid] = (ci, env, want)
    answers = c06_smt.run_both(queries, workdir)
    failing = []
    for qid, _ in queries:
        ci, env, want = meta[qid]
        e, big, tr, term, kinds = cases[ci]
        vd = c06_smt.verdict(answers[qid])
        rec.count("queries")
        rec.count("verdict:" + vd)
        for s in ("z3", "cvc5"):
            rec.count("%s:%s" % (s, answers[qid][s][0]))
        for k in kinds:
            rec.count("q:" + k)
        if env.reads and any(nb > 1 for _, nb, _ in env.reads):
            rec.count("queries_multibyte_%s" % ("big" if big else "little"))
        if vd == "agree" and len(rec.samples) < 4 and qid % 61 == 0:
            rec.sample(dict(expr=str(e), smt2=term[:300], value=hex(want), answer="unsat/unsat"))
        if vd in ("differ", "illformed"):
            failing.append((qid, vd))
    if len(failing) > 400:
        rec.count("localisation_skipped", len(failing) - 400)
        failing = failing[:400]
    localise(rec, failing, meta, cases, answers, workdir)


def crash_site(e, big):
    """smallest sub-expression on which the translator raises"""
    for node in xc.subexprs(e):
        try:
            translate(node, big)
        except NameError:
            cls = xc.cond_class(node, type("E", (), {"big_endian": big})()) if node.is_mem() else ""
            return ("%s %s" % (xc.kind(node), cls)).strip()
        except Exception:
            continue
    return "?"


def localise(rec, failing, meta, cases, answers, workdir):
    from vf import refsem
    from vf.models import c06_smt
    q2 = []
    m2 = {}
    for qid, vd in failing:
        ci, env, want = meta[qid]
        e, big, tr, term, kinds = cases[ci]
        for node in xc.subexprs(e):
            env2 = xc.clone_env(env)
            try:
                w2 = refsem.evaluate(node, env2)
                tr2, t2 = translate(node, big)
            except Exception:
                continue
            dq, vq = build(tr2, t2, node.size, env2, w2)
            a, b = len(q2), len(q2) + 1
            q2.append((a, dq))
            q2.append((b, vq))
            m2[(qid, node)] = (a, b, w2)
    ans2 = c06_smt.run_both(q2, workdir)
    for qid, vd in failing:
        ci, env, want = meta[qid]
        e, big, tr, term, kinds = cases[ci]
        ok, info = {}, {}
        for node in xc.subexprs(e):
            if (qid, node) not in m2:
                continue
            a, b, w2 = m2[(qid, node)]
            v2 = c06_smt.verdict(ans2[a])
            if v2 == "agree":
                ok[node] = True
            elif v2 in ("differ", "illformed"):
                ok[node] = False
                vals = [ans2[b][s][1] for s in ("z3", "cvc5")]
                info[node] = (v2, w2, vals, ans2[a]["z3"][2] if v2 == "illformed" else "")
        bad = xc.minimal_failing(e, ok)
        wit = dict(expr=repr(e), env=xc.env_repr(env), refsem=hex(want), big_endian=big,
                   answers={s: answers[qid][s][0] for s in ("z3", "cvc5")}, smt2=term[:1500])
        if not bad:
            rec.fail("%s (not localised) root=%s" % ("wrong value" if vd == "differ" else "ill-formed text",
                                                    xc.kind(e)),
                     "%s: both solvers answer %s on (distinct term 0x%x)" % (
                         common.short(e), answers[qid]["z3"][0], want), wit)
            continue
        for node in bad:
            v2, w2, vals, raw = info[node]
            cls = xc.cond_class(node, env)
            wit2 = dict(wit, node=repr(node), node_refsem=hex(w2),
                        node_solver_values=[hex(x) if x is not None else None for x in vals], solver_msg=raw)
            if v2 == "differ":
                rec.fail(("wrong value op=%s %s" % (xc.kind(node), cls)).strip(),
                         "%s: refsem 0x%x, z3/cvc5 evaluate the SMT-LIB2 term to %s (inside %s)" % (
                             common.short(node, 200), w2, wit2["node_solver_values"], common.short(e, 300)), wit2)
            else:
                rec.fail(("ill-formed text op=%s %s" % (xc.kind(node), cls)).strip(),
                         "%s: both solvers reject the text: %s" % (common.short(node, 200), raw[:200]), wit2)


def floors(tier, counters, evaluations):
    miss = []
    for k in ACCEPTED:
        if counters.get("q:" + k, 0) < 100:
            miss.append("operator kind %s reached only %d queries (<100)" % (k, counters.get("q:" + k, 0)))
    q = max(1, counters.get("queries", 0))
    und = sum(counters.get("verdict:" + v, 0) for v in ("undecided", "solvers_disagree", "one_solver_error"))
    if und > 0.02 * q:
        miss.append("more than 2%% of the queries were not decided by both solvers (%d of %d)" % (und, q))
    if counters.get("localisation_skipped", 0):
        miss.append("%d failing queries were not localised" % counters["localisation_skipped"])
    if counters.get("queries_multibyte_little", 0) < 50:
        miss.append("fewer than 50 little-endian multi-byte memory reads checked")
    if counters.get("queries_multibyte_big", 0) + counters.get("crash:Mem big-endian multi-byte", 0) + \
            counters.get("crash:Mem big-endian unaligned-size", 0) < 30:
        miss.append("fewer than 30 big-endian multi-byte memory reads translated")
    return miss
