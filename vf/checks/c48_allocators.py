"""C48 emulated allocators return fresh, non-overlapping mappings.

Monitored: miasm/os_dep/common.py heap (alloc / vm_alloc), the Windows stubs that sit on it
(kernel32_HeapAlloc, GlobalAlloc, LocalAlloc, msvcrt_malloc, msvcrt_new, msvcrt_realloc),
kernel32_VirtualAlloc (with and without a hint address), linux_stdlib.xxx_malloc and the Linux
environment's mmap (fixed / non-fixed, with hints) and brk.  Stubs are called on a real x86-32
jitter with their arguments pushed; mmap / brk are called on a LinuxEnvironment_x86_32 with the
jitter's VmMngr.  Oracle: a shadow list of live allocations; after every request the returned
region must be mapped for the requested size, disjoint from every other live region, and start at
an address no other live allocation has.
"""
from vf import common

CHECK = dict(
    id="C48", level="exploration",
    rule=("random histories of 8-40 requests, one emulated OS per history (Windows: heap.alloc, "
          "heap.vm_alloc, HeapAlloc, GlobalAlloc, LocalAlloc, malloc, new, realloc, VirtualAlloc with "
          "hint 0 / base of a live allocation / inside one / free address; Linux: xxx_malloc, mmap "
          "non-fixed with hint 0 / near / inside a mapping, mmap MAP_FIXED over free and used ranges, "
          "brk query / grow / shrink) with sizes {0, 1, 0xfff, 0x1000, 0x1001, 0x20000-0x80000}; "
          "distinct = distinct (request kind, size class, outcome) 3-grams; non-trivial = all"),
    assumptions=["frees are no-ops in the stubs: every allocation stays live for the whole history",
                 "MAP_FIXED replaces what it covers: the covered parts of older allocations stop being live",
                 "VirtualAlloc with the base address of a live allocation is a re-commit of that allocation: "
                 "the same address is legitimate, the region must still cover the requested size",
                 "brk: the program break region [initial break, current break) is one allocation that grows"],
    timeout={"quick": 600, "thorough": 3000},
    exhaustive={"quick": False, "thorough": False},
    overlay="plain",
    crash_is_violation=True,
    technique="runtime monitoring: shadow list of live allocations checked after every request",
)

M32 = 0xffffffff
RET_AD = 0x13371000
SIZES = [0, 0, 1, 1, 7, 0xfff, 0x1000, 0x1000, 0x1001, 0x2345, 0x20000, 0x80000]
PROT = [0x4, 0x4, 0x2, 0x40, 0x20, 0x1]
MAP_FIXED, MAP_PRIVATE, MAP_ANON = 0x10, 0x2, 0x20


import os
NSHARDS = int(os.environ.get("VERIF_DEV_SHARDS", "16"))   # development aid (mutation trials on a loaded machine)


def shards(tier, seed, scale):
    per = 60 if tier == "quick" else 2000
    return common.mk_shards(NSHARDS, seed, tier, per * 16 // NSHARDS, scale, salt="c48")


def size_class(n):
    if n == 0:
        return "0"
    if n < 0x1000:
        return "<page"
    if n == 0x1000:
        return "page"
    return ">page" if n < 0x20000 else "large"


class Abandon(Exception):
    pass


class History(object):
    def __init__(self, rng, rec, machine):
        from miasm.core.locationdb import LocationDB
        self.rng, self.rec = rng, rec
        self.jit = machine.jitter(LocationDB())
        self.jit.init_stack()
        self.vm = self.jit.vm
        self.sp0 = self.jit.cpu.ESP - 0x100
        self.live = []        # dict(addr, size, kind, n)
        self.zero_seen = False
        self.ops = []
        self.kinds = []
        self.os = rng.choice(["windows", "windows", "linux", "linux", "linux"])
        rec.count("history:" + self.os)
        if self.os == "windows":
            import miasm.os_dep.win_api_x86_32 as winapi
            from miasm.os_dep.common import heap
            self.api = winapi
            winapi.winobjs.heap = heap()
            winapi.winobjs.allocated_pages = {}
            self.heap = winapi.winobjs.heap
        else:
            import miasm.os_dep.linux_stdlib as linapi
            from miasm.os_dep.common import heap
            from miasm.os_dep.linux.environment import LinuxEnvironment_x86_32
            self.api = linapi
            linapi.linobjs.heap = heap()
            self.env = LinuxEnvironment_x86_32()
            self.brk0 = None
            self.brk_region = None

    # ------------------------------------------------------------ plumbing
    def witness(self, **kw):
        d = dict(os=self.os, history=self.ops, live=[(hex(r["addr"]), hex(r["size"]), r["kind"]) for r in self.live],
                 page_table=repr(self.vm).split("\n")[1:40])
        d.update(kw)
        return d

    def fail(self, key, what, **kw):
        self.rec.fail(key, what, self.witness(**kw))

    def note(self, kind, size, outcome):
        self.kinds.append("%s/%s/%s" % (kind, size_class(size), outcome))
        self.rec.count("op:" + kind)
        self.rec.count("size:" + size_class(size))
        if len(self.kinds) >= 3:
            self.rec.distinct("|".join(self.kinds[-3:]))

    def call(self, name, conv, args):
        jit = self.jit
        jit.cpu.ESP = self.sp0
        for a in reversed(args):
            jit.push_uint32_t(a)
        jit.push_uint32_t(RET_AD)
        getattr(self.api, name)(jit)
        return jit.cpu.EAX

    def pick_size(self):
        return self.rng.choice(SIZES)

    # ------------------------------------------------------------ the oracle
    def check_new(self, mech, kind, addr, size, tag=""):
        """a fresh allocation [addr, addr+size) has been returned"""
        self.rec.ev()
        ok = True
        if size and not self.vm.is_mapped(addr, size):
            ok = False
            self.fail("%s: returned region is not mapped for the requested size%s" % (mech, tag),
                      "%s(size=0x%x) returned 0x%x" % (kind, size, addr))
        same = [r for r in self.live if r["addr"] == addr]
        if same:
            ok = False
            zero = size == 0 or any(r["size"] == 0 for r in same)
            self.fail("%s: returns the address of a live allocation%s%s" % (
                mech, tag, " [zero-sized request involved]" if zero else ""),
                "%s(size=0x%x) returned 0x%x, already returned by %s(size=0x%x)" % (
                    kind, size, addr, same[0]["kind"], same[0]["size"]))
        over = [r for r in self.live if size and r["size"] and r["addr"] < addr + size and addr < r["addr"] + r["size"]
                and r["addr"] != addr]
        if over:
            ok = False
            self.fail("%s: returned region overlaps a live allocation%s" % (mech, tag),
                      "%s(size=0x%x) returned 0x%x, overlapping [0x%x,+0x%x) of %s" % (
                          kind, size, addr, over[0]["addr"], over[0]["size"], over[0]["kind"]))
        self.live.append(dict(addr=addr, size=size, kind=kind, n=len(self.ops)))
        if size == 0:
            self.zero_seen = True      # the empty page stays in the page table for good
        self.note(kind, size, "ok" if ok else "bad")
        if ok:
            self.rec.count("allocations_verified")
        return ok

    def guarded(self, mech, kind, size, thunk, tag=""):
        try:
            return thunk()
        except Exception as exc:
            self.vm.set_exception(0)
            zero_live = self.zero_seen and "shrinking" not in tag
            self.note(kind, size, "raises")
            self.fail("%s: request raises %s%s%s" % (mech, type(exc).__name__, tag,
                                                     " [after a zero-sized allocation]" if zero_live else ""),
                      "%s(size=0x%x): %r" % (kind, size, exc))
            raise Abandon()

    # ------------------------------------------------------------ Windows
    def op_win_heap(self):
        rng = self.rng
        size = self.pick_size()
        kind = rng.choice(["heap.alloc", "heap.vm_alloc", "kernel32_HeapAlloc", "kernel32_GlobalAlloc",
                           "kernel32_LocalAlloc", "msvcrt_malloc", "msvcrt_new", "msvcrt_realloc"])
        self.ops.append((kind, hex(size)))
        mech, tag = "common.heap", ""
        if kind == "heap.alloc":
            thunk = lambda: self.heap.alloc(self.jit, size)
        elif kind == "heap.vm_alloc":
            thunk = lambda: self.heap.vm_alloc(self.vm, size)
        elif kind == "kernel32_HeapAlloc":
            thunk = lambda: self.call(kind, "stdcall", [0x1234, rng.choice([0, 8]), size])
        elif kind in ("kernel32_GlobalAlloc", "kernel32_LocalAlloc"):
            thunk = lambda: self.call(kind, "stdcall", [rng.choice([0, 0x40]), size])
        elif kind == "msvcrt_realloc":
            olds = [r for r in self.live if r["size"] and not any(
                x["addr"] == r["addr"] and x["size"] == 0 for x in self.live)]
            old = rng.choice(olds) if olds and rng.random() < 0.7 else None
            ptr = old["addr"] if old else 0
            self.ops[-1] = (kind, hex(ptr), hex(size))
            thunk = lambda: self.call(kind, "cdecl", [ptr, size])
            mech = "msvcrt_realloc"
            tag = "" if old is None else (" [shrinking]" if size < old["size"] else " [not shrinking]")
        else:
            thunk = lambda: self.call(kind, "cdecl", [size])
        addr = self.guarded(mech, kind, size, thunk, tag=tag)
        self.ops[-1] = self.ops[-1] + ("-> " + hex(addr),)
        self.check_new("common.heap", kind, addr, size)

    def op_virtualalloc(self):
        rng = self.rng
        size = self.pick_size()
        r = rng.random()
        mode = "hint=0"
        hint = 0
        if self.live and r < 0.25:
            hint, mode = rng.choice(self.live)["addr"], "hint=base of a live allocation"
        elif self.live and r < 0.4:
            reg = rng.choice(self.live)
            hint, mode = reg["addr"] + max(1, reg["size"] // 2), "hint inside/after a live allocation"
        elif r < 0.55:
            hint, mode = 0x30000000 + 0x1000 * rng.randrange(64), "hint=free address"
        prot = rng.choice(PROT)
        self.ops.append(("kernel32_VirtualAlloc", hex(hint), hex(size), hex(prot)))
        addr = self.guarded("kernel32_VirtualAlloc", "VirtualAlloc(%s)" % mode, size,
                            lambda: self.call("kernel32_VirtualAlloc", "stdcall", [hint, size, 0x3000, prot]))
        self.ops[-1] = self.ops[-1] + ("-> " + hex(addr),)
        self.rec.count("virtualalloc:" + mode)
        base = [r_ for r_ in self.live if r_["addr"] == hint] if hint else []
        if base and addr == hint:
            # re-commit of an existing allocation
            self.rec.ev()
            if size and not self.vm.is_mapped(addr, size):
                self.note("VirtualAlloc(recommit)", size, "short")
                self.fail("kernel32_VirtualAlloc: hint at a live allocation returns it although it is smaller than the request",
                          "VirtualAlloc(0x%x, 0x%x) returned 0x%x; only 0x%x bytes are mapped there" % (
                              hint, size, addr, base[0]["size"]))
            else:
                self.note("VirtualAlloc(recommit)", size, "ok")
            return
        self.check_new("kernel32_VirtualAlloc" if hint else "common.heap", "VirtualAlloc(%s)" % mode, addr, size)

    # ------------------------------------------------------------ Linux
    def op_malloc(self):
        size = self.pick_size()
        self.ops.append(("xxx_malloc", hex(size)))
        addr = self.guarded("common.heap", "xxx_malloc", size, lambda: self.call("xxx_malloc", "cdecl", [size]))
        self.ops[-1] = self.ops[-1] + ("-> " + hex(addr),)
        self.check_new("common.heap", "xxx_malloc", addr, size)

    def op_mmap(self):
        rng = self.rng
        size = self.pick_size()
        fixed = rng.random() < 0.25
        r = rng.random()
        hint, mode = 0, "hint=0"
        maps = [x for x in self.live if x["kind"].startswith("mmap")]
        if fixed:
            if maps and r < 0.5:
                reg = rng.choice(maps)
                hint, mode = (reg["addr"] + 0x1000 * rng.randrange(0, 1 + reg["size"] // 0x1000)) & ~0xfff, "over a mapping"
            else:
                hint, mode = 0x60000000 + 0x1000 * rng.randrange(256), "free range"
        elif maps and r < 0.3:
            reg = rng.choice(maps)
            hint, mode = reg["addr"], "hint=start of a mapping"
        elif maps and r < 0.45:
            reg = rng.choice(maps)
            hint, mode = (reg["addr"] + reg["size"] + 0xfff) & ~0xfff, "hint=just after a mapping"
        elif r < 0.6:
            hint, mode = 0x60000000 + 0x1000 * rng.randrange(256), "hint=free address"
        flags = MAP_PRIVATE | MAP_ANON | (MAP_FIXED if fixed else 0)
        kind = "mmap(MAP_FIXED, %s)" % mode if fixed else "mmap(%s)" % mode
        self.ops.append(("mmap", hex(hint), hex(size), hex(flags)))
        addr = self.guarded("LinuxEnvironment.mmap", kind, size,
                            lambda: self.env.mmap(hint, size, 3, flags, 0xffffffff, 0, self.vm),
                            tag=" (MAP_FIXED)" if fixed else "")
        self.ops[-1] = self.ops[-1] + ("-> " + hex(addr),)
        self.rec.count("mmap:" + ("fixed " if fixed else "") + mode)
        if fixed:
            self.rec.ev()
            if addr != hint:
                self.fail("LinuxEnvironment.mmap: MAP_FIXED does not return the requested address",
                          "mmap(0x%x, MAP_FIXED) returned 0x%x" % (hint, addr))
                raise Abandon()
            # what the new mapping covers is replaced
            new_live = []
            for reg in self.live:
                if reg["size"] and size and reg["addr"] < addr + size and addr < reg["addr"] + reg["size"]:
                    if reg["addr"] < addr:
                        new_live.append(dict(reg, size=addr - reg["addr"]))
                    if reg["addr"] + reg["size"] > addr + size:
                        new_live.append(dict(reg, addr=addr + size, size=reg["addr"] + reg["size"] - addr - size,
                                             kind=reg["kind"] + " (tail)"))
                    self.rec.count("mmap_fixed_replaced_live_region")
                elif reg["addr"] == addr and (size == 0 or reg["size"] == 0):
                    continue        # same (degenerate) address re-requested explicitly
                else:
                    new_live.append(reg)
            self.live = new_live
            if self.brk_region:
                self.brk_region = None if not any(r_ is self.brk_region for r_ in self.live) else self.brk_region
        self.check_new("LinuxEnvironment.mmap", kind, addr, size, tag=" (MAP_FIXED)" if fixed else "")

    def op_mmap_zero_pair(self):
        """mmap(0 bytes) immediately followed by mmap(n bytes), both without hint, when the first one
        was served at the environment's allocation cursor (mmap_current) with nothing mapped at or
        above it: the occupied-interval search of mmap cannot interfere, so the second address can
        only equal the first if the zero-length request did not reserve its address"""
        flags = MAP_PRIVATE | MAP_ANON
        cursor = self.env.mmap_current
        self.ops.append(("mmap", "0x0", "0x0", hex(flags)))
        a = self.guarded("LinuxEnvironment.mmap", "mmap(hint=0)", 0,
                         lambda: self.env.mmap(0, 0, 3, flags, 0xffffffff, 0, self.vm))
        self.ops[-1] = self.ops[-1] + ("-> " + hex(a),)
        self.rec.count("mmap:hint=0")
        top = max([ad + info["size"] for ad, info in self.vm.get_all_memory().items() if info["size"]] or [0])
        self.check_new("LinuxEnvironment.mmap", "mmap(hint=0)", a, 0)
        if a != cursor or a < top:
            # the request was moved past existing mappings by the occupied-interval search: the
            # known empty-page defect can hand the same address out again
            self.rec.count("mmap_zero_pair_skipped_relocated")
            return
        size = self.rng.choice([1, 0xfff, 0x1000, 0x1001, 0x2345])
        self.ops.append(("mmap", "0x0", hex(size), hex(flags)))
        b = self.guarded("LinuxEnvironment.mmap", "mmap(hint=0)", size,
                         lambda: self.env.mmap(0, size, 3, flags, 0xffffffff, 0, self.vm))
        self.ops[-1] = self.ops[-1] + ("-> " + hex(b),)
        self.rec.count("mmap:hint=0")
        self.rec.count("mmap_zero_pair_checked")
        if b == a:
            self.rec.ev()
            self.fail("LinuxEnvironment.mmap: a zero-length mapping at the allocation cursor does not reserve its address",
                      "mmap(0 bytes) returned 0x%x with nothing mapped at or above it; the next mmap(0x%x bytes) "
                      "returned the same address" % (a, size))
            self.live.append(dict(addr=b, size=size, kind="mmap(hint=0)", n=len(self.ops)))
            self.note("mmap(hint=0)", size, "bad")
            return
        self.check_new("LinuxEnvironment.mmap", "mmap(hint=0)", b, size)

    def op_brk(self):
        rng = self.rng
        cur = self.guarded("LinuxEnvironment.brk", "brk(0)", 0, lambda: self.env.brk(0, self.vm))
        if self.brk0 is None:
            self.brk0 = cur
        r = rng.random()
        if r < 0.15:
            self.ops.append(("brk", "0", "-> " + hex(cur)))
            self.note("brk(query)", 0, "ok")
            return
        if r < 0.85:
            delta = rng.choice([1, 0xfff, 0x1000, 0x1001, 0x8000, 0x40000])
            if rng.random() < 0.12 and any(x["kind"].startswith("mmap") for x in self.live):
                # grow up to the middle of the lowest mapping above the break
                above = sorted(x["addr"] for x in self.live if x["kind"].startswith("mmap") and x["addr"] >= cur
                               and x["addr"] - cur < 0x2000000)
                if above:
                    delta = above[0] - cur + 0x800
        else:
            delta = -rng.choice([1, 0x1000, 0x2345])
        new = cur + delta
        if new < self.brk0:
            new = self.brk0
        self.ops.append(("brk", hex(new)))
        got = self.guarded("LinuxEnvironment.brk", "brk(grow)" if new > cur else "brk(shrink)", abs(new - cur),
                           lambda: self.env.brk(new, self.vm))
        self.ops[-1] = self.ops[-1] + ("-> " + hex(got),)
        self.rec.ev()
        kind = "brk(grow)" if new > cur else "brk(shrink)"
        if got != new:
            # a refusal (old break returned) is legitimate
            self.note(kind, abs(new - cur), "refused")
            if got != cur:
                self.fail("LinuxEnvironment.brk: returns neither the new nor the old break", "brk(0x%x) = 0x%x" % (new, got))
            return
        ok = True
        if new > cur:
            if not self.vm.is_mapped(cur, new - cur):
                ok = False
                self.fail("LinuxEnvironment.brk: grown range is not mapped", "brk(0x%x): [0x%x,0x%x) not fully mapped" % (
                    new, cur, new))
            over = [x for x in self.live if x is not self.brk_region and x["size"] and
                    x["addr"] < new and cur < x["addr"] + x["size"]]
            if over:
                ok = False
                self.fail("LinuxEnvironment.brk: the break grows over a live mapping",
                          "brk(0x%x) accepted although [0x%x,0x%x) contains [0x%x,+0x%x) of %s" % (
                              new, cur, new, over[0]["addr"], over[0]["size"], over[0]["kind"]))
        if self.brk_region is None:
            self.brk_region = dict(addr=self.brk0, size=0, kind="brk", n=len(self.ops))
            self.live.append(self.brk_region)
        self.brk_region["size"] = max(self.brk_region["size"], new - self.brk0)
        self.note(kind, abs(new - cur), "ok" if ok else "bad")
        if ok:
            self.rec.count("allocations_verified")

    # ------------------------------------------------------------ driver
    def audit(self):
        self.rec.ev()
        for reg in self.live:
            if reg["size"] and not self.vm.is_mapped(reg["addr"], reg["size"]):
                self.fail("final audit: a live allocation is no longer fully mapped",
                          "%s at 0x%x size 0x%x" % (reg["kind"], reg["addr"], reg["size"]))
                return
        self.rec.count("audits_passed")

    def run(self, nops):
        rng = self.rng
        if self.os == "windows":
            table = [(self.op_win_heap, 6), (self.op_virtualalloc, 4)]
        else:
            table = [(self.op_malloc, 3), (self.op_mmap, 6), (self.op_brk, 3), (self.op_mmap_zero_pair, 1)]
        fns = [f for f, _ in table]
        ws = [w for _, w in table]
        try:
            for _ in range(nops):
                rng.choices(fns, ws)[0]()
            self.audit()
            self.rec.count("histories_completed")
        except Abandon:
            self.rec.count("histories_abandoned")


def run_shard(params, rec):
    common.quiet()
    from miasm.analysis.machine import Machine
    rng = common.rng_for(params)
    machine = Machine("x86_32")
    for i in range(params["n"]):
        h = History(rng, rec, machine)
        h.run(rng.randint(8, 40))
        rec.count("histories")
        if i < 2 and params["shard"] == 0:
            rec.sample(dict(os=h.os, ops=h.ops[:20]))


def floors(tier, c, evaluations):
    miss = []
    for k in ("history:windows", "history:linux", "op:heap.alloc", "op:heap.vm_alloc", "op:kernel32_HeapAlloc",
              "op:kernel32_GlobalAlloc", "op:kernel32_LocalAlloc", "op:msvcrt_malloc", "op:msvcrt_new",
              "op:msvcrt_realloc", "op:xxx_malloc", "virtualalloc:hint=0", "virtualalloc:hint=base of a live allocation",
              "virtualalloc:hint inside/after a live allocation", "virtualalloc:hint=free address",
              "mmap:hint=0", "mmap:hint=start of a mapping", "mmap:hint=just after a mapping", "mmap:hint=free address",
              "mmap:fixed over a mapping", "mmap:fixed free range", "op:brk(grow)", "op:brk(shrink)", "op:brk(query)",
              "size:0", "size:<page", "size:page", "size:>page", "size:large", "audits_passed"):
        if c.get(k, 0) == 0:
            miss.append("never observed: " + k)
    if c.get("mmap_zero_pair_checked", 0) < 20:
        miss.append("fewer than 20 (zero-length mmap, mmap) pairs at the allocation cursor (%d)" %
                    c.get("mmap_zero_pair_checked", 0))
    if c.get("allocations_verified", 0) < 200:
        miss.append("fewer than 200 allocations verified (%d)" % c.get("allocations_verified", 0))
    return miss
