"""C07 Python-source and expression-construction translations are faithful.

Part "py": eval() of the source emitted by TranslatorPython, with identifiers
bound to concrete values and `memory(addr, nbytes)` bound to the hashed byte
function of refsem, must give refsem's value.  Operators the translator
rejects (NotImplementedError) are counted, never judged.

Part "mk": eval() of the source emitted by TranslatorMiasm for a location-free
expression must return the identical (hash-consed) expression object.
"""
import resource
import time

from vf import common

CHECK = dict(
    id="C07", level="exploration",
    rule=("py: random size-directed trees (depth<=5, widths 1..64) over the operators TranslatorPython "
          "accepts plus a share of unrestricted trees (rejections counted), each evaluated under 4 "
          "valuations (boundary, small and random identifier values, seeded memory); mk: random trees "
          "over every node kind except ExprLoc, widths 1..256, identifier names from a hostile pool "
          "(quotes, backslashes, control and non-ASCII characters, empty, bytes); distinct = distinct "
          "alpha-renamed shapes of non-leaf expressions"),
    assumptions=["refsem.py defines the value of an expression (tied to constant folding by C03)",
                 "memory(addr, nbytes) is little endian and does not wrap; reads that wrap around the "
                 "pointer width are skipped",
                 "valuations on which the expression divides by zero are skipped",
                 "emitted source runs with 384 MiB of address-space headroom: a source that builds an integer of "
                 "2^count bits for a large run-time shift count fails with MemoryError (reported) instead "
                 "of exhausting the machine"],
    timeout={"quick": 900, "thorough": 5400},
    technique="runtime monitoring: reference-semantics oracle on eval() of emitted source; identity oracle",
)

PY_ACCEPTED = ['+', '-', '/', '%', '>>', '<<', '&', '^', '|', '*', 'parity', '==', '<<<', '>>>']
PY_WIDTHS = [1, 2, 3, 4, 5, 7, 8, 9, 12, 15, 16, 24, 31, 32, 33, 48, 63, 64]
HUGE_LO = 1 << 24


def shards(tier, seed, scale):
    per = 3200 if tier == "quick" else 125000
    return common.mk_shards(16, seed, tier, per, scale)


def op_name(e):
    op = e.op
    if op == '-':
        return 'neg' if len(e.args) == 1 else 'sub'
    if op.startswith('zeroExt_'):
        return 'zeroExt'
    if op.startswith('signExt_'):
        return 'signExt'
    return op


def run_shard(params, rec):
    common.quiet()
    common.limit_memory(4)
    hard = resource.getrlimit(resource.RLIMIT_AS)[1]
    statm = open("/proc/self/statm", "rb", buffering=0)
    page = resource.getpagesize()

    def headroom(on):
        """address-space limit = current size + 384 MiB while emitted source runs: bounds the
        integers a wrong shift count can build (see assumptions)"""
        if not on:
            resource.setrlimit(resource.RLIMIT_AS, (hard, hard))
            return
        statm.seek(0)
        cur = int(statm.read(64).split()[0]) * page
        lim = cur + (384 << 20)
        if hard != resource.RLIM_INFINITY:
            lim = min(lim, hard)
        resource.setrlimit(resource.RLIMIT_AS, (lim, hard))
    from miasm.expression import expression as m2
    from miasm.ir.translators.python import TranslatorPython
    from miasm.ir.translators.miasm_ir import TranslatorMiasm
    from vf import refsem, exprgen
    from vf.models import c08_exprs as X

    rng = common.rng_for(params)
    g_acc = exprgen.Gen(rng, widths=PY_WIDTHS, max_width=64, ops=set(PY_ACCEPTED), flags=False,
                        pow_op=False)
    g_odd = exprgen.Gen(rng, widths=PY_WIDTHS, max_width=64, ops=set(PY_ACCEPTED), flags=False,
                        pow_op=False, mem_any_size=True)
    g_all = exprgen.Gen(rng, widths=PY_WIDTHS, max_width=64)
    g_mk = X.HGen(rng, widths=X.WIDTHS_256, max_width=256, loc=0.0)
    g_mk_loc = X.HGen(rng, widths=X.WIDTHS_256, max_width=256, loc=0.15)
    tpy = TranslatorPython()
    slow_evals = [0.0]
    big_shift = [False]
    tmk = TranslatorMiasm()
    mk_ns = dict((k, getattr(m2, k)) for k in ("ExprInt", "ExprId", "ExprMem", "ExprOp", "ExprSlice",
                                               "ExprCompose", "ExprCond", "ExprAssign"))

    def memory_for(env):
        def memory(addr, nbytes):
            v = 0
            for i in range(nbytes):
                v |= env.byte(addr + i) << (8 * i)
            return v
        return memory

    def valuation(ids, k, seed):
        vals = {}
        for i in ids:
            n = i.size
            if k == 0:
                v = rng.choice(exprgen.boundary_values(n))
            elif k == 1:
                v = rng.randrange(0, n + 3) & ((1 << n) - 1)
            elif k == 2:
                v = rng.getrandbits(n)
            else:
                v = rng.choice([rng.getrandbits(n), rng.getrandbits(min(n, 6)),
                                rng.choice(exprgen.boundary_values(n))])
            vals[i] = v
        return refsem.Env(ids=vals, seed=seed)

    def shift_class(e, env):
        """largest '<<' count >= 2^24 with a non-zero shifted value among the
        sub-terms (0 when there is none): evidence only"""
        worst = 0
        for s in X.subterms(e):
            if s.__class__ is m2.ExprOp and s.op == '<<' and len(s.args) == 2:
                try:
                    a = refsem.evaluate(s.args[0], env)
                    c = refsem.evaluate(s.args[1], env)
                except (refsem.Undef, refsem.Unsupported):
                    continue
                if a and c >= HUGE_LO:
                    worst = max(worst, c)
        return worst

    def py_eval(code, env):
        ns = {"memory": memory_for(env)}
        for i, v in env.ids.items():
            ns[i.name] = v
        t0 = time.process_time()
        headroom(True)
        try:
            return eval(code, ns)
        finally:
            headroom(False)
            if big_shift[0]:
                # CPU time spent on valuations with a '<<' count >= 2^24; only bounds the cost of a
                # source that builds 2^count-bit integers, never decides a verdict
                slow_evals[0] += time.process_time() - t0

    def describe(s, env):
        c = s.__class__
        if c is m2.ExprOp:
            d = "op=" + op_name(s)
            if s.op == '<<':
                try:
                    cnt = refsem.evaluate(s.args[1], env)
                    if cnt >= HUGE_LO:
                        d += " count>=2^24"
                except Exception:
                    pass
            return d
        if c is m2.ExprMem:
            return "node=ExprMem" + (" size%8!=0" if s.size % 8 else "")
        return "node=" + c.__name__

    def blame(e, env):
        """deepest sub-term whose own translation disagrees with refsem"""
        order = X.postorder(e)   # components before the nodes built from them
        for s in order:
            del env.reads[:]
            try:
                want = refsem.evaluate(s, env)
            except (refsem.Undef, refsem.Unsupported):
                continue
            if any(a + nb > (1 << pw) for a, nb, pw in env.reads):
                continue    # a read that wraps (possible in a branch not taken): not modelled
            try:
                src = TranslatorPython().from_expr(s)
                got = py_eval(compile(src, "<c07>", "eval"), env)
            except NotImplementedError:
                continue
            except Exception as exc:
                return "raises %s %s" % (type(exc).__name__, describe(s, env)), s
            if got != want or isinstance(got, bool) or not isinstance(got, int):
                return "wrong value %s" % describe(s, env), s
        return None, None

    def py_case(i):
        r = rng.random()
        if r < 0.80:
            g, src_kind = g_acc, "accepted_ops"
        elif r < 0.87:
            g, src_kind = g_odd, "accepted_ops_odd_mem"
        else:
            g, src_kind = g_all, "all_ops"
        n = rng.choice(PY_WIDTHS) if rng.random() < 0.5 else g.width()
        e = g.expr(n, rng.choice([1, 2, 3, 3, 4, 5]))
        if src_kind != "all_ops" and rng.random() < 0.08:
            k = rng.random()
            if k < 0.5:
                e = m2.ExprOp('parity', e)
            elif k < 0.8:
                e = m2.ExprOp('==', e, g.expr(n, 2) if rng.random() < 0.7 else e)
            else:
                e = m2.ExprCond(m2.ExprOp('==', e, g.int_(n)), g.expr(8, 1), g.expr(8, 1))
        rec.ev()
        rec.count("py:cases")
        rec.count("py:gen:" + src_kind)
        try:
            src = tpy.from_expr(e)
        except NotImplementedError as exc:
            rec.count("py:rejected")
            msg = str(exc)
            if "Unknown operator: " in msg:
                op = msg.split("Unknown operator: ")[1]
                op = op.split('_')[0] if op.startswith(('zeroExt', 'signExt')) else op
                rec.count("py:rejected_op:" + op)
            return
        except Exception as exc:
            rec.fail("py translator raises %s" % type(exc).__name__,
                     "TranslatorPython.from_expr(%s) raised %r" % (common.short(e), exc),
                     dict(expr=repr(e)))
            return
        rec.count("py:accepted")
        if len(src) > 400000:
            rec.count("py:source_too_long_skipped")
            return
        try:
            code = compile(src, "<c07>", "eval")
        except (SyntaxError, ValueError, MemoryError, RecursionError) as exc:
            rec.fail("py source does not compile %s" % type(exc).__name__,
                     "source for %s: %r" % (common.short(e), exc), dict(expr=repr(e), source=src[:3000]))
            return
        subs = X.subterms(e)
        ids = [s for s in subs if s.__class__ is m2.ExprId]
        ops = set(op_name(s) for s in subs if s.__class__ is m2.ExprOp)
        kinds = set(s.__class__.__name__ for s in subs)
        odd_mem = any(s.__class__ is m2.ExprMem and s.size % 8 for s in subs)
        compared = 0
        for k in range(4):
            env = valuation(ids, k, i * 8 + k)
            try:
                want = refsem.evaluate(e, env)
            except refsem.Undef:
                rec.count("py:undef_skipped")
                continue
            except refsem.Unsupported:
                rec.count("py:refsem_unsupported")
                return
            if any(a + nb > (1 << pw) for a, nb, pw in env.reads):
                rec.count("py:mem_wrap_skipped")
                continue
            worst = shift_class(e, env) if '<<' in ops else 0
            big_shift[0] = bool(worst)
            if worst:
                if slow_evals[0] >= 8.0:
                    # the source really builds 2^count-bit integers (already reported): stop paying for it
                    rec.count("py:shift_count>=2^24_skipped_after_8s_cpu")
                    continue
                rec.count("py:shift_count>=2^24_evaluated")
            try:
                got = py_eval(code, env)
                exc = None
            except Exception as ex:     # observation about the emitted source
                got, exc = None, ex
            compared += 1
            rec.count("py:valuations_compared")
            if exc is None and got == want and isinstance(got, int) and not isinstance(got, bool):
                continue
            why, sub = blame(e, env)
            if why is None:
                why = ("raises %s" % type(exc).__name__ if exc is not None else "wrong value") + \
                    " only in context"
                sub = e
            rec.fail("py " + why,
                     "eval of Python source for %s gives %r%s, reference 0x%x" % (
                         common.short(sub), got, (" (%r)" % exc) if exc is not None else "",
                         refsem.evaluate(sub, env) if sub is not e else want),
                     dict(expr=repr(e), subterm=repr(sub), source=tpy.from_expr(sub)[:2000],
                          ids={i.name: hex(v) for i, v in env.ids.items()}, mem_seed=env.seed,
                          got=repr(got), exc=repr(exc), want=hex(want)))
            break
        if compared:
            rec.count("py:exprs_compared")
            for op in ops:
                rec.count("py:op:" + op)
            for kd in kinds:
                rec.count("py:node:" + kd)
            if odd_mem:
                rec.count("py:node:ExprMem size%8!=0")
            if exprgen.nontrivial(e):
                rec.distinct("py/" + exprgen.shape(e))
            if i % 400 == 0:
                rec.sample(dict(part="py", expr=str(e), source=src[:300]), limit=3)

    def mk_case(i):
        kind = rng.choice(X.KINDS)
        with_loc = rng.random() < 0.06
        g = g_mk_loc if with_loc else g_mk
        if kind == "ExprLoc":
            kind = "ExprLoc" if with_loc else rng.choice(["ExprId", "ExprOp", "ExprCompose"])
        e = g.top(kind, rng.choice([0, 1, 2, 3, 4]))
        rec.ev()
        rec.count("mk:cases")
        has_loc = any(s.__class__ is m2.ExprLoc for s in X.subterms(e))
        try:
            src = tmk.from_expr(e)
        except NotImplementedError:
            rec.count("mk:rejected")
            if not has_loc:
                rec.fail("mk translator rejects node=%s" % kind,
                         "TranslatorMiasm rejected the location-free %s" % common.short(e),
                         dict(expr=repr(e)))
            else:
                rec.count("mk:rejected_location")
            return
        except Exception as exc:
            rec.fail("mk translator raises %s" % type(exc).__name__,
                     "TranslatorMiasm.from_expr(%s) raised %r" % (common.short(e), exc),
                     dict(expr=repr(e)))
            return
        if has_loc:
            # outside the statement (only location-free expressions are quantified over)
            rec.count("mk:accepted_with_location")
            return
        rec.count("mk:accepted")
        rec.count("mk:top:" + e.__class__.__name__)
        names = set(X.name_class(s.name) for s in X.subterms(e) if s.__class__ is m2.ExprId)
        for c in names:
            rec.count("mk:name:" + c)
        if any(s.__class__ is m2.ExprCompose and len(s.args) == 1 for s in X.subterms(e)):
            rec.count("mk:with_1arg_compose")
        try:
            back = eval(src, dict(mk_ns))
        except Exception as exc:
            rec.fail("mk eval raises %s" % type(exc).__name__,
                     "eval of construction source for %s raised %r" % (common.short(e), exc),
                     dict(expr=repr(e), source=src[:3000]))
            return
        if back is not e:
            # smallest sub-term that does not rebuild
            guilty = e
            for s in X.postorder(e):
                try:
                    if eval(TranslatorMiasm().from_expr(s), dict(mk_ns)) is not s:
                        guilty = s
                        break
                except Exception:
                    guilty = s
                    break
            d = "node=" + guilty.__class__.__name__
            if guilty.__class__ is m2.ExprId:
                d += " name:" + X.name_class(guilty.name)
            rec.fail("mk rebuilds a different expression " + d,
                     "eval(%s) is %r, not the original" % (src[:300], back),
                     dict(expr=repr(e), source=src[:3000], got=repr(back), subterm=repr(guilty)))
            return
        if exprgen.nontrivial(e):
            rec.distinct("mk/" + exprgen.shape(e))
        if i % 400 == 1:
            rec.sample(dict(part="mk", expr=repr(e)[:300], source=src[:300]), limit=6)

    for i in range(params["n"]):
        py_case(i)
        mk_case(i)


def floors(tier, counters, evaluations):
    miss = []
    for op in ['+', 'neg', 'sub', '/', '%', '>>', '<<', '&', '^', '|', '*', 'parity', '==', '<<<', '>>>']:
        if counters.get("py:op:" + op, 0) < 500:
            miss.append("py: operator %s compared %d times (<500)" % (op, counters.get("py:op:" + op, 0)))
    for kd in ["ExprInt", "ExprId", "ExprMem", "ExprSlice", "ExprCompose", "ExprCond", "ExprOp"]:
        if counters.get("py:node:" + kd, 0) < 500:
            miss.append("py: node kind %s compared %d times (<500)" % (kd, counters.get("py:node:" + kd, 0)))
    if counters.get("py:rejected", 0) < 100:
        miss.append("py: fewer than 100 rejected expressions seen")
    for kd in ["ExprInt", "ExprId", "ExprMem", "ExprSlice", "ExprCompose", "ExprCond", "ExprOp", "ExprAssign"]:
        if counters.get("mk:top:" + kd, 0) < 500:
            miss.append("mk: top-level %s rebuilt %d times (<500)" % (kd, counters.get("mk:top:" + kd, 0)))
    for c in ["plain", "squote", "dquote", "both_quotes", "backslash", "ws_escape", "nonprintable",
              "nonascii", "empty", "bytes", "space", "punct"]:
        if counters.get("mk:name:" + c, 0) < 100:
            miss.append("mk: name class %s seen %d times (<100)" % (c, counters.get("mk:name:" + c, 0)))
    return miss
