"""C08 expressions are canonical values that round-trip through serialization.

The monitor keeps its own structural model key (class + components) for every
expression it has seen and requires a 1-1 correspondence between keys and
object identities over the whole run (the global hash-consing table is shared
state), the width given by the model's own rules, and identity for every
round trip: repr -> str_to_expr, pickle (all protocols), copy.deepcopy,
copy.copy, Expr.copy, replace_expr with nothing to replace, visit(identity);
canonize must be idempotent.
"""
import copy
import pickle

from vf import common

CHECK = dict(
    id="C08", level="exploration",
    rule=("random trees whose top-level node kind is drawn uniformly from the 9 node kinds (ExprAssign "
          "with identifier, memory and slice destinations; 1-argument ExprCompose; ExprLoc), widths "
          "1..256, identifier names from a hostile pool (quotes, backslashes, control and non-ASCII "
          "characters, empty, bytes), tiny pools of names and constants so that re-construction of an "
          "existing expression is the norm; distinct = distinct structural model keys"),
    assumptions=["the monitor's structural key (class, components) defines 'built from equal components'; "
                 "integer components are equal modulo 2^size",
                 "canonize idempotence is monitored although the statement does not name it"],
    timeout={"quick": 900, "thorough": 5400},
    technique="runtime monitoring: model-key <-> identity bijection, identity oracle on round trips",
)

ROUNDTRIPS = ["repr_parse", "pickle", "deepcopy", "copy_copy", "expr_copy", "replace_nothing",
              "visit_identity", "canonize_idempotent", "rebuild"]


def shards(tier, seed, scale):
    per = 2500 if tier == "quick" else 62500
    return common.mk_shards(16, seed, tier, per, scale)


def run_shard(params, rec):
    common.quiet()
    common.limit_memory(4)
    from miasm.expression import expression as m2
    from miasm.expression.parser import str_to_expr
    from vf.models import c08_exprs as X

    rng = common.rng_for(params)
    gen = X.HGen(rng, widths=X.WIDTHS_256, max_width=256, hostile=0.35, loc=0.08, extra=0.08)
    by_key = {}      # model key -> object (keeps every object alive: ids are never reused)
    by_id = {}       # id(object) -> model key
    key_list = []
    protos = list(range(0, pickle.HIGHEST_PROTOCOL + 1))
    unrelated = {m2.ExprId("never_used_C08", 13): m2.ExprInt(0, 13)}

    def observe(e, how, k=None):
        """maintain the key <-> identity bijection; False when it is broken"""
        if k is None:
            k = X.model_key(e)
        known = by_key.get(k)
        ok = True
        if known is None:
            other = by_id.get(id(e))
            if other is not None and other != k:
                rec.fail("canonical: one object for different components (%s)" % e.__class__.__name__,
                         "%s yields an object already standing for other components" % how,
                         dict(key=k[:1500], other_key=other[:1500]))
                ok = False
            else:
                by_key[k] = e
                by_id[id(e)] = k
                key_list.append(k)
        elif known is not e:
            rec.fail("canonical: equal components, different objects (%s)" % e.__class__.__name__,
                     "%s built a second object for the same components" % how, dict(key=k[:1500]))
            ok = False
        return ok

    def classify(e, trip):
        """mechanism class of a failing round trip: the smallest sub-term that
        fails on its own"""
        guilty = e
        po = X.postorder(e)
        # cheap suspects first: identifiers, then 1-argument composes, then everything bottom-up
        order = [s for s in po if s.__class__ is m2.ExprId] + \
            [s for s in po if s.__class__ is m2.ExprCompose and len(s.args) == 1] + po

        def good(s):
            try:
                return trip(s) is s
            except Exception:
                return False
        for s in order:
            if not good(s):
                if s.__class__ is m2.ExprCompose and not good(s.args[0]):
                    continue    # not minimal: found again bottom-up
                guilty = s
                break
        c = guilty.__class__
        if c is m2.ExprId:
            return "ExprId name:" + X.name_class(guilty.name), guilty
        if c is m2.ExprCompose:
            return "ExprCompose with %s" % ("1 argument" if len(guilty.args) == 1 else "several arguments"), guilty
        if c is m2.ExprOp:
            return "ExprOp", guilty
        return c.__name__, guilty

    def trip_check(name, e, trip, kind):
        rec.count("trip:%s:%s" % (name, kind))
        try:
            back = trip(e)
            exc = None
        except Exception as ex:
            back, exc = None, ex
        if exc is None and back is e:
            return True
        mech, guilty = classify(e, trip)
        if guilty is not e:
            try:
                back, exc = trip(guilty), None
            except Exception as ex:
                back, exc = None, ex
        key = "%s does not return the expression: %s" % (name, mech)
        if exc is not None:
            rec.fail(key, "%s of %s raised %s" % (name, common.short(repr(guilty)), type(exc).__name__),
                     dict(expr=repr(e), subterm=repr(guilty), exc=repr(exc)[:500]))
        else:
            rec.fail(key, "%s of %s gives %s" % (name, common.short(repr(guilty)), common.short(repr(back))),
                     dict(expr=repr(e), subterm=repr(guilty), got=repr(back)))
        return False

    def alias(v, n):
        # another integer equal to v modulo 2^n
        return v + rng.choice([0, 1, -1, 2]) * (1 << n)

    for i in range(params["n"]):
        kind = rng.choice(X.KINDS)
        e = gen.top(kind, rng.choice([0, 1, 2, 2, 3, 4]))
        kind = e.__class__.__name__
        rec.ev()
        rec.count("top:" + kind)
        subs = X.subterms(e)
        for c in set(X.name_class(s.name) for s in subs if s.__class__ is m2.ExprId):
            rec.count("name:" + c)
        if any(s.__class__ is m2.ExprCompose and len(s.args) == 1 for s in subs):
            rec.count("with_1arg_compose")
        if any(s.__class__ is m2.ExprLoc for s in subs):
            rec.count("with_location")
        rec.count("width_class:%s" % ("<=64" if e.size <= 64 else "65..128" if e.size <= 128 else ">128"))
        memo = {}
        key = X.model_key(e, memo)
        rec.distinct(key)

        # ---- canonical value: identity, equality, hash, width
        h0 = hash(e)
        fresh = observe(e, "the constructor", key)
        for s in subs[1:]:
            observe(s, "a component", memo[id(s)])
        try:
            again = X.rebuild(e, alias)
        except Exception as exc:
            rec.fail("rebuild raises %s (%s)" % (type(exc).__name__, kind),
                     "building %s again from its components raised %r" % (common.short(repr(e)), exc),
                     dict(expr=repr(e)))
            continue
        rec.count("trip:rebuild:" + kind)
        if again is not e:
            rec.fail("canonical: equal components, different objects (%s)" % kind,
                     "building %s again from its components gives another object" % common.short(repr(e)),
                     dict(expr=repr(e), got=repr(again)))
        else:
            if not (again == e) or (again != e):
                rec.fail("canonical: == / != disagree with identity (%s)" % kind, "on %s" % common.short(repr(e)),
                         dict(expr=repr(e)))
            if hash(again) != h0:
                rec.fail("canonical: hash changes (%s)" % kind, "hash of %s changed after it was built again"
                         % common.short(repr(e)), dict(expr=repr(e)))
        # an expression with other components is another, unequal object
        if by_key:
            okey = rng.choice(key_list) if (i % 4 == 0 and key_list) else None
            if okey is not None and okey != key:
                other = by_key[okey]
                rec.count("distinct_pairs_compared")
                if other is e or other == e or not (other != e):
                    rec.fail("canonical: different components compare equal (%s)" % kind,
                             "%s == %s" % (common.short(repr(e)), common.short(repr(other))),
                             dict(expr=repr(e), other=repr(other)))
        try:
            want_size = X.model_size(e)
        except Exception:
            want_size = None
        rec.count("size_checked")
        if want_size != e.size:
            rec.fail("width not determined by components (%s)" % kind,
                     "%s has size %r, components give %r" % (common.short(repr(e)), e.size, want_size),
                     dict(expr=repr(e), size=e.size, model=want_size))

        # ---- round trips
        trip_check("repr_parse", e, lambda x: str_to_expr(repr(x)), kind)
        p = protos[i % len(protos)]
        rec.count("pickle_protocol:%d" % p)
        trip_check("pickle", e, lambda x: pickle.loads(pickle.dumps(x, p)), kind)
        if i % 5 == 0:
            for q in protos:
                if q != p:
                    trip_check("pickle", e, lambda x: pickle.loads(pickle.dumps(x, q)), kind)
        trip_check("deepcopy", e, copy.deepcopy, kind)
        trip_check("copy_copy", e, copy.copy, kind)
        trip_check("expr_copy", e, lambda x: x.copy(), kind)
        trip_check("replace_nothing", e, lambda x: x.replace_expr({}), kind)
        trip_check("replace_nothing", e, lambda x: x.replace_expr(unrelated), kind)
        trip_check("visit_identity", e, lambda x: x.visit(lambda y: y), kind)
        # containers of expressions keep identity as well (memo of pickle / deepcopy)
        if i % 7 == 0:
            box = [e, subs[-1], e]
            try:
                b2 = pickle.loads(pickle.dumps(box, p))
                b3 = copy.deepcopy(box)
                if not (b2[0] is e and b2[2] is e and b2[1] is subs[-1] and b3[0] is e and b3[1] is subs[-1]):
                    rec.fail("pickle/deepcopy of a list of expressions loses identity (%s)" % kind,
                             "list round trip of %s" % common.short(repr(e)), dict(expr=repr(e)))
            except Exception as exc:
                rec.fail("pickle/deepcopy of a list of expressions raises %s" % type(exc).__name__,
                         "list round trip of %s raised %r" % (common.short(repr(e)), exc), dict(expr=repr(e)))
        # canonize: idempotent, width preserved
        rec.count("trip:canonize_idempotent:" + kind)
        try:
            c1 = e.canonize()
            c2 = c1.canonize()
            if c2 is not c1:
                rec.fail("canonize is not idempotent (%s)" % kind,
                         "canonize(%s) = %s, again = %s" % (common.short(repr(e)), common.short(repr(c1)),
                                                            common.short(repr(c2))),
                         dict(expr=repr(e), once=repr(c1), twice=repr(c2)))
            elif c1.size != e.size:
                rec.fail("canonize changes the width (%s)" % kind, "%s -> %s" % (e, c1), dict(expr=repr(e)))
            if c1 is not e:
                rec.count("canonize_changed")
                observe(c1, "canonize")
        except Exception as exc:
            # the statement does not speak about canonize: exceptions are counted only
            # (on the current tree: AssertionError in force_bytes for names with code points >= 0x100)
            rec.count("canonize_raises:" + type(exc).__name__)
        # ---- assignment to a slice: the constructor completes the source
        if i % 6 == 0:
            n = rng.choice([8, 16, 32, 64, 128])
            base = gen.id_(n) if rng.random() < 0.7 else m2.ExprMem(gen.id_(32), n)
            s0 = rng.randrange(0, n)
            s1 = rng.randrange(s0 + 1, n + 1)
            val = gen.expr(s1 - s0, 1)
            rec.count("assign_slice_dst_checked")
            try:
                a1 = m2.ExprAssign(base[s0:s1], val)
                a2 = m2.ExprAssign(m2.ExprSlice(base, s0, s1), val)
                parts = ([base[0:s0]] if s0 else []) + [val] + ([base[s1:n]] if s1 < n else [])
                full = val if (s0 == 0 and s1 == n) else m2.ExprCompose(*parts)
                a3 = m2.ExprAssign(base, full)
                if not (a1 is a2 and a1 is a3 and a1.dst is base and a1.src is full and a1.size == n):
                    rec.fail("canonical: ExprAssign to a slice is not the completed assignment",
                             "%r[%d:%d] = %r gives %r" % (base, s0, s1, val, a1),
                             dict(base=repr(base), start=s0, stop=s1, val=repr(val), got=repr(a1)))
            except Exception as exc:
                rec.fail("canonical: ExprAssign to a slice raises %s" % type(exc).__name__,
                         "%r[%d:%d] = %r raised %r" % (base, s0, s1, val, exc),
                         dict(base=repr(base), start=s0, stop=s1, val=repr(val)))
        if not fresh:
            continue
        if i % 300 == 0:
            rec.sample(dict(expr=repr(e)[:400], size=e.size), limit=6)
    rec.count("model_keys_alive", len(by_key))


def floors(tier, counters, evaluations):
    miss = []
    from vf.models.c08_exprs import KINDS
    for kind in KINDS:
        for t in ROUNDTRIPS:
            n = counters.get("trip:%s:%s" % (t, kind), 0)
            if n < 1000:
                miss.append("round trip %s on top-level %s seen %d times (<1000)" % (t, kind, n))
    for c in ["plain", "squote", "dquote", "both_quotes", "backslash", "ws_escape", "nonprintable",
              "nonascii", "empty", "bytes", "space", "punct"]:
        if counters.get("name:" + c, 0) < 300:
            miss.append("name class %s seen %d times (<300)" % (c, counters.get("name:" + c, 0)))
    for w in ("<=64", "65..128", ">128"):
        if counters.get("width_class:" + w, 0) < 300:
            miss.append("width class %s seen %d times (<300)" % (w, counters.get("width_class:" + w, 0)))
    if counters.get("with_1arg_compose", 0) < 300:
        miss.append("1-argument ExprCompose seen <300 times")
    if counters.get("distinct_pairs_compared", 0) < 200:
        miss.append("fewer than 200 pairs of different expressions compared")
    return miss
