"""C25 binary streams return exactly the underlying bits.

Oracle: a byte map address -> byte built independently of miasm for each source
  * bytes            (bin_stream_str, several base addresses / stream offsets)
  * a real temp file (bin_stream_file)
  * a PE built with miasm.loader, serialised and re-parsed (bin_stream_pe): the
    bytes of each section at ImageBase+addr, zero up to the section's virtual size
  * an ELF linked by gcc at check time (bin_stream_elf): the file bytes of every
    PT_LOAD segment at its p_vaddr (program headers parsed with struct)
  * a real VmMngr with small pages and holes (bin_stream_vm).
VM (set_mem), file (in-place pwrite, unbuffered file objects) and PE (virt.set) sources
are rewritten between atomic sections exactly where the last section read, and the
same reads are replayed in a new atomic section of the same stream object.
getbytes = slice of the map; getbits = MSB-first bit field of the covering bytes;
get_uN = int.from_bytes with the requested / the source's byte order; readbs =
slice at the stream cursor.  A read with a byte outside the map must raise
IOError.  In atomic mode every read is repeated (cache hit) and compared with the
same read on a second, never-atomic stream over the same source.

Not judged (counted as skipped): PE header page, gaps between PE sections, the
page padding after a PE section's virtual size, ELF .bss (memsz beyond filesz),
ELF addresses below 0x10000 (non-allocated sections have address 0), zero-length
byte reads.
"""
import os
import struct
import subprocess
import tempfile

from vf import common

CHECK = dict(
    id="C25", level="exploration",
    rule=("per stream class: random reads (getbytes 1-12 bytes, getbits 0-70 bits at any bit offset, "
          "get_u8/16/32/64 with default/LE/BE order, readbs/setoffset) at addresses drawn around every region "
          "boundary of the source (inside, straddling, outside, below the base), 30% of them inside atomic "
          "sections that repeat reads; after 80% of the atomic sections of a VM, file or PE stream exactly the bytes "
          "read in the section are rewritten in the source and the same reads are replayed in a new atomic section "
          "of the same stream (1-3 cycles), against the model and a never-atomic twin; distinct = distinct "
          "(class, operation, position class, length, bit offset); non-trivial = all"),
    exhaustive={"quick": False, "thorough": False},
    assumptions=["gcc/ld lay the ELF out as its program headers say",
                 "VmMngr.get_mem/set_mem are the VM's content (C24 checks them)",
                 "the PE image model: section bytes at ImageBase+addr, zero-filled up to the virtual size"],
    timeout={"quick": 900, "thorough": 3600},
    overlay="plain",
    technique="runtime monitoring: differential against an independent byte-map model of each source",
)

CLASSES = ["str", "file", "pe", "elf", "vm"]


def shards(tier, seed, scale):
    per = 3400 if tier == "quick" else 130000
    return common.mk_shards(16, seed, tier, per, scale, salt="c25")


class Source(object):
    """independent model of a byte source"""

    def __init__(self, kind, default_le=True):
        self.kind = kind
        self.mem = {}           # address -> byte value
        self.dontcare = []      # [start, end) ranges that are not judged
        self.points = []        # interesting addresses
        self.default_le = default_le
        self.note = {}

    def add(self, start, data):
        for i, b in enumerate(bytearray(data)):
            self.mem[start + i] = b
        self.points += [start, start + len(data)]

    def skip(self, start, end):
        if end > start:
            self.dontcare.append((start, end))
            self.points += [start, end]

    def classify(self, addr, l):
        """('in', bytes) | ('skip',) | ('out', position class)"""
        n_in = 0
        out = bytearray()
        for a in range(addr, addr + l):
            for s, e in self.dontcare:
                if s <= a < e:
                    return ("skip",)
            if a in self.mem:
                n_in += 1
                out.append(self.mem[a])
        if n_in == l:
            return ("in", bytes(out))
        if n_in == 0:
            lo = min(self.mem) if self.mem else 0
            hi = max(self.mem) if self.mem else -1
            if addr + l <= lo:
                return ("out", "below the source")
            if addr > hi:
                return ("out", "past the end")
            return ("out", "in a hole")
        return ("out", "straddling a boundary")


# --------------------------------------------------------------------------- sources
def make_str(rng):
    from miasm.core.bin_stream import bin_stream_str
    n = rng.choice([0, 1, 2, 3, 5, 8, 9, 16, 17, 40])
    data = bytes(rng.getrandbits(8) for _ in range(n))
    base = rng.choice([0, 0, 0x10, 0x1000, 0xfffffff0])
    src = Source("str")
    src.add(base, data)
    r = rng.random()
    kwargs = {}
    if base:
        kwargs["base_address"] = base
    cursor = 0
    if r < 0.5 and base:
        kwargs["offset"] = cursor = base
    elif r < 0.6 and n:
        kwargs["offset"] = cursor = base + rng.randint(0, n)
    src.note = dict(len=n, base=base, offset=kwargs.get("offset", 0))
    src.cursor_moved = src.cursor_moved0 = cursor != base
    src.mk = lambda: bin_stream_str(data, **kwargs)
    src.cursor0 = cursor
    return src


def make_file(rng, tmpdir):
    from miasm.core.bin_stream import bin_stream_file
    n = rng.choice([1, 2, 3, 5, 8, 9, 16, 17, 40])
    data = bytes(rng.getrandbits(8) for _ in range(n))
    base = rng.choice([0, 0, 0x10, 0x1000])
    fd, path = tempfile.mkstemp(dir=tmpdir, suffix=".bin")
    os.write(fd, data)
    os.close(fd)
    src = Source("file")
    src.add(base, data)
    src.note = dict(len=n, base=base)
    files = []

    def mk():
        # unbuffered: the stream reads the file lazily, so an in-place rewrite must be visible
        f = open(path, "rb", buffering=0)
        files.append(f)
        return bin_stream_file(f, offset=base, base_address=base)
    src.mk = mk
    src.files = files
    src.wfd = os.open(path, os.O_WRONLY)
    src.mutate = lambda a, b: os.pwrite(src.wfd, bytes([b]), a - base)
    src.cursor0 = base
    src.cursor_moved = src.cursor_moved0 = False
    return src


def page_up(x):
    return (x + 0xfff) & ~0xfff


def make_pe(rng):
    from miasm.loader import pe_init
    from miasm.core.bin_stream import bin_stream_pe
    p = pe_init.PE()
    base = rng.choice([0x400000, 0x10000000, 0x7f0000])
    p.NThdr.ImageBase = base
    nsec = rng.randint(1, 3)
    addr = 0x1000
    secs = []
    for i in range(nsec):
        n = rng.choice([1, 7, 0x123, 0xfff, 0x1000, 0x1001, 0x1800])
        data = bytes(rng.getrandbits(8) for _ in range(n))
        if i and rng.random() < 0.3:
            addr += 0x1000          # an unmapped page between two sections (not judged)
        p.SHList.add_section(name="s%d" % i, addr=addr, data=data)
        secs.append((addr, data))
        addr = page_up(addr + max(n, 0x1000))
    raw = bytes(p)
    q = pe_init.PE(raw)
    src = Source("pe")
    src.skip(base, base + 0x1000)                   # headers
    prev_end = 0x1000
    for a, data in secs:
        vsize = max(0x1000, len(data))
        src.skip(base + prev_end, base + a)         # gap
        src.add(base + a, data + b"\x00" * (vsize - len(data)))
        src.skip(base + a + vsize, base + page_up(a + vsize))
        prev_end = page_up(a + vsize)
    mine = base + prev_end
    theirs = base + len(q.img_rva)
    if mine != theirs:
        src.skip(min(mine, theirs), max(mine, theirs))
    src.note = dict(base=base, sections=[(a, len(d)) for a, d in secs], image_end=mine, img_rva_end=theirs)
    src.mk = lambda: bin_stream_pe(q)
    src.mutate = lambda a, b: q.virt.set(a, bytes([b]))     # the loader's own patching API
    src.cursor0 = 0
    src.cursor_moved = src.cursor_moved0 = False
    src.default_le = True       # a PE is little-endian
    return src


ELF_C = r'''
const unsigned char ro_tab[%(nro)d] = {%(ro)s};
unsigned char rw_tab[%(nrw)d] = {%(rw)s};
int bss_tab[%(nbss)d];
int helper(int x) { return x * %(k)d + ro_tab[x & 15]; }
void _start(void) { bss_tab[1] = helper(rw_tab[2]); for(;;); }
'''


def make_elf(rng, tmpdir):
    from miasm.loader import elf_init
    from miasm.core.bin_stream import bin_stream_elf
    nro, nrw = rng.randint(17, 400), rng.randint(5, 300)
    cfile = os.path.join(tmpdir, "t%d.c" % rng.getrandbits(30))
    with open(cfile, "w") as fd:
        fd.write(ELF_C % dict(nro=nro, nrw=nrw, nbss=rng.randint(1, 80), k=rng.randint(2, 9),
                              ro=",".join(str(rng.getrandbits(8)) for _ in range(nro)),
                              rw=",".join(str(1 + rng.getrandbits(7)) for _ in range(nrw))))
    out = cfile[:-2] + ".elf"
    env = dict(os.environ)
    env.pop("LD_PRELOAD", None)
    r = subprocess.run(["/usr/bin/gcc", "-O1", "-nostdlib", "-static", "-fno-pie", "-no-pie", "-o", out, cfile],
                       stdout=subprocess.PIPE, stderr=subprocess.STDOUT, env=env)
    if r.returncode != 0:
        return None
    raw = open(out, "rb").read()
    if raw[:6] != b"\x7fELF\x02\x01":
        return None
    e_phoff, = struct.unpack_from("<Q", raw, 0x20)
    e_phentsize, e_phnum = struct.unpack_from("<HH", raw, 0x36)
    src = Source("elf")
    src.skip(0, 0x10000)
    segs = []
    for i in range(e_phnum):
        p_type, p_flags, p_offset, p_vaddr, p_paddr, p_filesz, p_memsz, p_align = struct.unpack_from(
            "<IIQQQQQQ", raw, e_phoff + i * e_phentsize)
        if p_type != 1:
            continue
        src.add(p_vaddr, raw[p_offset:p_offset + p_filesz])
        src.skip(p_vaddr + p_filesz, p_vaddr + p_memsz)
        segs.append((p_vaddr, p_filesz, p_memsz))
    e = elf_init.ELF(raw)
    src.note = dict(segments=segs)
    src.mk = lambda: bin_stream_elf(e)
    src.cursor0 = 0
    src.cursor_moved = src.cursor_moved0 = False
    return src


def make_vm(rng):
    from miasm.jitter.VmMngr import Vm
    from miasm.jitter.csts import PAGE_READ, PAGE_WRITE
    from miasm.core.bin_stream import bin_stream_vm
    vm = Vm()
    big = rng.random() < 0.3
    if big:
        vm.set_big_endian()
    src = Source("vm", default_le=not big)
    shift = rng.choice([0, 0, 0x100])
    addr = rng.choice([0x1000, 0x20000])
    pages = []
    for i in range(rng.randint(1, 4)):
        n = rng.choice([1, 5, 0x10, 0x20, 0x31])
        data = bytes(rng.getrandbits(8) for _ in range(n))
        vm.add_memory_page(addr, PAGE_READ | PAGE_WRITE, data, "p%d" % i)
        src.add(addr - shift, data)
        pages.append((addr, n))
        addr += n if rng.random() < 0.4 else n + rng.choice([1, 3, 0x10, 0x1000])
    src.vm = vm
    src.pages = pages
    src.shift = shift
    src.note = dict(pages=pages, base_offset=shift, big_endian=big)
    src.mutate = lambda a, b: vm.set_mem(a + shift, bytes([b]))
    src.mk = lambda: bin_stream_vm(vm, base_offset=shift) if shift else bin_stream_vm(vm)
    src.cursor0 = 0
    src.cursor_moved = src.cursor_moved0 = False
    return src


# --------------------------------------------------------------------------- driver
def outcome(fn, *args):
    try:
        return ("ok", fn(*args))
    except IOError as exc:
        return ("ioerror", str(exc)[:80])
    except Exception as exc:
        return ("exc", type(exc).__name__, str(exc)[:120])


FILE_KEY = "bin_stream_file: getbytes/getbits/get_uN raise TypeError (no _getbytes for a file object)"
LEN_KEY = ("getbits: the 'not enough bits' error path calls len() on a source without length "
           "(TypeError instead of IOError)")
PE_END_KEY = ("bin_stream_pe: a read reaching the end of the image gets short or empty data instead of IOError "
              "(getbytes returns it, get_uN raise struct.error, getbits raises TypeError)")


def norm(res):
    """outcome without the error text"""
    return res[:2] if res[0] == "ok" else (res[0], res[1] if res[0] == "exc" else "")


def mechanism_key(cname, kind, meth, op, exp, got, want, l, cursor_moved):
    opn = "get_uN" if meth.startswith("get_u") else meth
    if got[0] == "exc":
        if kind == "file" and "subscriptable" in got[2]:
            return FILE_KEY
        if meth == "getbits" and "has no len()" in got[2]:
            return LEN_KEY
    if exp[0] == "in":
        if got[0] == "ok":
            v = got[1]
            if isinstance(v, bytes) and isinstance(want, bytes) and len(v) < len(want):
                return "%s.%s inside: returns short data" % (cname, opn)
            if opn == "get_uN" and "default order" in op and isinstance(v, int) and l > 1 and \
                    v == int.from_bytes(want.to_bytes(l, "little"), "big"):
                return "%s.get_uN(default order): value read in the opposite byte order" % cname
            return "%s.%s inside: wrong value" % (cname, opn)
        if got[0] == "ioerror":
            cls = ""
            if meth == "getbits" and cursor_moved and "not enough bits" in got[1]:
                return ("getbits inside: raises IOError 'not enough bits' when fewer bits than requested lie "
                        "after the stream offset (getlen), wherever the read is")
            return "%s.%s inside: raises IOError%s" % (cname, opn, cls)
        return "%s.%s inside: raises %s" % (cname, opn, got[1])
    # outside the source
    if kind == "pe" and exp[1] in ("past the end", "straddling a boundary"):
        if got[0] == "ok" and isinstance(got[1], bytes) and len(got[1]) < l:
            return PE_END_KEY
        if got[0] == "exc" and ("unpack requires" in got[2] or "ord() expected" in got[2]):
            return PE_END_KEY
    if got[0] == "ok":
        return "%s.%s outside the source: returns %s instead of IOError" % (
            cname, opn, "data" if isinstance(got[1], bytes) else "a value")
    return "%s.%s outside the source: raises %s instead of IOError" % (cname, opn, got[1])


def run_source(src, nreads, rng, rec):
    from miasm.core.utils import LITTLE_ENDIAN, BIG_ENDIAN
    kind = src.kind
    cname = "bin_stream_" + kind
    bs = src.mk()
    plain = src.mk()        # never in atomic mode
    cursor = src.cursor0
    in_atomic = 0
    recent = []
    section = []            # (meth, op, args, addr, l) read inside the current atomic section
    mutate = getattr(src, "mutate", None)

    def addr_near():
        r = rng.random()
        if src.points and r < 0.8:
            p = rng.choice(src.points)
            return p + rng.choice([-9, -8, -4, -3, -2, -1, 0, 0, 1, 2, 3, 4, 7, 8, 15])
        if src.mem and r < 0.95:
            return rng.choice(list(src.mem))
        return rng.choice([0x10000, 0x7fffffff, 0x30000000])

    def expect(meth, args):
        """(classification, expected value, covered address, covered length) of a read, from the model"""
        if meth == "getbytes":
            exp = src.classify(args[0], args[1])
            return exp, (exp[1] if exp[0] == "in" else None), args[0], args[1]
        if meth == "getbits":
            start, n = args
            addr, k = start // 8, start % 8
            nb = (k + n + 7) // 8
            if n == 0:
                return ("in", b""), 0, addr, 0
            exp = src.classify(addr, nb)
            want = None
            if exp[0] == "in":
                want = (int.from_bytes(exp[1], "big") >> (8 * nb - k - n)) & ((1 << n) - 1)
            return exp, want, addr, nb
        size = int(meth[5:]) // 8
        e = args[1] if len(args) > 1 else None
        exp = src.classify(args[0], size)
        want = None
        if exp[0] == "in":
            le = src.default_le if e is None else (e == LITTLE_ENDIAN)
            want = int.from_bytes(exp[1], "little" if le else "big")
        return exp, want, args[0], size

    def judge(meth, op, args, exp, want, got, l, tag, wit):
        pos = "inside" if exp[0] == "in" else ("not judged" if exp[0] == "skip" else exp[1])
        if exp[0] == "skip":
            rec.count("reads_not_judged")
        elif exp[0] == "out" and got[0] == "ioerror":
            rec.count("ioerror_as_required")
        elif exp[0] == "in" and got[0] == "ok" and got[1] == want and type(got[1]) is type(want):
            rec.count("values_equal")
        else:
            key = mechanism_key(cname, kind, meth, op, exp, got, want, l, src.cursor_moved)
            if tag.startswith("replay") and exp[0] == "in" and got[0] == "ok":
                key += " [same read replayed in a new atomic section after the source changed]"
            detail = "%s%r at %s (%s): %s" % (meth, args, pos, tag,
                                             "%r, source has %r" % (got[1:], want) if exp[0] == "in"
                                             else repr(got[1:]))
            rec.fail(key, detail, wit)

    def twin_check(meth, args, got, wit, tag=""):
        again = outcome(getattr(bs, meth), *args)
        un = outcome(getattr(plain, meth), *args)
        rec.count("cached_rereads")
        if norm(again) != norm(got) or norm(un) != norm(got):
            rec.fail("%s.%s: cached read differs from uncached read%s" % (cname, meth, tag),
                     "first %r, repeated %r, uncached %r" % (got, again, un), wit)

    def replay_after_mutation(reads):
        """the source changes exactly where the last atomic section read; a new atomic section on the
        same stream object replays the same reads"""
        for _cycle in range(rng.randint(1, 3)):
            touched = set()
            for meth, op, args, addr, l in reads:
                for a in range(addr, addr + l):
                    if a in src.mem:
                        touched.add(a)
            if not touched:
                return
            for a in sorted(touched):
                nb = src.mem[a] ^ rng.randint(1, 255)
                mutate(a, nb)
                src.mem[a] = nb
            rec.count("mutations_of_read_ranges")
            if outcome(bs.enter_atomic_mode)[0] != "ok":
                rec.fail("%s.enter_atomic_mode raises" % cname, "after leave", src.note)
                return
            rec.count("atomic_sections")
            for meth, op, args, addr, l in reads:
                exp, want, _a, _l = expect(meth, args)
                got = outcome(getattr(bs, meth), *args)
                wit = dict(source=src.note, stream=cname, op=op, args=list(args),
                           mode="replayed in a new atomic section after the read bytes were rewritten")
                rec.count("replays_after_mutation")
                if exp[0] == "in":
                    rec.count("replays_after_mutation_inside")
                    rec.count("replays_after_mutation_inside:" + kind)
                judge(meth, op, args, exp, want, got, l, "replay after mutation", wit)
                twin_check(meth, args, got, wit, " [replay after the source changed]")
            outcome(bs.leave_atomic_mode)

    def leave_section():
        r0 = outcome(bs.leave_atomic_mode)
        if r0[0] != "ok":
            rec.fail("%s.leave_atomic_mode raises" % cname, repr(r0), src.note)
            return False
        if mutate is not None and section and rng.random() < 0.8:
            replay_after_mutation(list(section))
        return True

    done = 0
    while done < nreads:
        # ---- atomic sections
        if in_atomic == 0 and rng.random() < 0.08:
            r0 = outcome(bs.enter_atomic_mode)
            if r0[0] != "ok":
                rec.fail("%s.enter_atomic_mode raises" % cname, repr(r0), src.note)
                return
            in_atomic = rng.randint(3, 8)
            recent = []
            section = []
            rec.count("atomic_sections")
        # ---- choose a read
        if in_atomic and recent and rng.random() < 0.4:
            a0, l0 = rng.choice(recent)
            addr = a0 + rng.choice([0, 0, 0, 1])
            l = max(1, rng.choice([l0, l0, 1, 2, 4]))       # zero-length byte reads are not judged
        else:
            addr = addr_near()
            l = rng.choice([1, 1, 2, 2, 3, 4, 4, 8, 8, 12])
        if addr < 0 and kind == "vm":
            addr = 0            # negative ints are never passed to the C API
        r = rng.random()
        atomic_tag = "atomic" if in_atomic else "plain"
        if r < 0.36:
            op, args = "getbytes", (addr, l)
        elif r < 0.72:
            k = rng.choice([0, 0, 1, 2, 3, 4, 5, 6, 7])
            n = rng.choice([0, 1, 2, 3, 5, 7, 8, 9, 12, 13, 16, 17, 24, 31, 32, 33, 64, 70])
            if addr < 0:
                addr = 0
            op, args = "getbits", (addr * 8 + k, n)
            if k:
                rec.count("bitreads_unaligned")
            rec.count("bitreads")
        elif r < 0.92:
            size = rng.choice([1, 2, 4, 8])
            e = rng.choice([None, None, LITTLE_ENDIAN, BIG_ENDIAN])
            op = "get_u%d" % (size * 8)
            args = (addr,) if e is None else (addr, e)
            if e is None:
                op += "(default order)"
        else:
            # cursor reads: setoffset then readbs
            cursor = addr
            r0 = outcome(bs.setoffset, cursor)
            outcome(plain.setoffset, cursor)
            if r0[0] != "ok":
                # a file refuses to seek below its base: nothing was read
                rec.count("setoffset_rejected")
                outcome(bs.setoffset, src.cursor0)
                outcome(plain.setoffset, src.cursor0)
                continue
            src.cursor_moved = True
            op, args = "readbs", (l,)
        meth = op.split("(")[0]
        if meth == "readbs":
            exp = src.classify(cursor, l)
            want = exp[1] if exp[0] == "in" else None
        else:
            exp, want, addr, l = expect(meth, args)
        done += 1
        rec.ev()
        rec.count("reads:" + kind)
        rec.count("op:%s:%s" % (kind, meth))
        pos = "inside" if exp[0] == "in" else ("not judged" if exp[0] == "skip" else exp[1])
        rec.distinct("%s/%s/%s/%d/%s" % (kind, op, pos, l, args[0] % 8 if op == "getbits" else 0))
        if exp[0] == "out":
            rec.count("reads_outside")
            rec.count("outside:%s" % kind)
        got = outcome(getattr(bs, meth), *args)
        wit = dict(source=src.note, stream=cname, op=op, args=list(args), mode=atomic_tag,
                   cursor=cursor if meth == "readbs" else None)
        if in_atomic:
            recent.append((addr, l))
            rec.count("reads_in_atomic_mode")
        judge(meth, op, args, exp, want, got, l, atomic_tag, wit)
        # put the cursor back most of the time (getbits/getlen look at it)
        if meth == "readbs":
            if rng.random() < 0.7:
                outcome(bs.setoffset, src.cursor0)
                outcome(plain.setoffset, src.cursor0)
                src.cursor_moved = src.cursor_moved0
            else:
                # both streams keep the same (moved) cursor
                outcome(bs.setoffset, cursor)
                outcome(plain.setoffset, cursor)
        # ---- cached vs uncached
        if in_atomic:
            if meth != "readbs":
                twin_check(meth, args, got, wit)
                section.append((meth, op, args, addr, l))
            in_atomic -= 1
            if in_atomic == 0 and not leave_section():
                return
        # ---- mutate the VM anywhere between atomic sections
        if kind == "vm" and in_atomic == 0 and rng.random() < 0.05:
            pa, pn = rng.choice(src.pages)
            off = rng.randrange(pn)
            data = bytes(rng.getrandbits(8) for _ in range(rng.randint(1, pn - off)))
            src.vm.set_mem(pa + off, data)
            for i, b in enumerate(data):
                src.mem[pa + off + i - src.shift] = b
            rec.count("vm_mutations")
    if in_atomic:
        outcome(bs.leave_atomic_mode)
    for f in getattr(src, "files", []):
        f.close()
    if getattr(src, "wfd", None) is not None:
        os.close(src.wfd)


def run_shard(params, rec):
    common.quiet()
    rng = common.rng_for(params)
    tmpdir = tempfile.mkdtemp(prefix="c25")
    n = params["n"]
    per_source = max(40, n // 50)
    budget = {k: n // len(CLASSES) for k in CLASSES}
    makers = {"str": lambda: make_str(rng), "file": lambda: make_file(rng, tmpdir), "pe": lambda: make_pe(rng),
              "elf": lambda: make_elf(rng, tmpdir), "vm": lambda: make_vm(rng)}
    heavy = {"pe": 6, "elf": 6}       # sources that are expensive to build get more reads each
    for kind in CLASSES:
        while budget[kind] > 0:
            src = makers[kind]()
            if src is None:
                rec.count("elf_build_failed")
                break
            rec.count("sources:" + kind)
            k = min(budget[kind], per_source * heavy.get(kind, 1))
            run_source(src, k, rng, rec)
            budget[kind] -= k
            if len(rec.samples) < 5 and not any(s.get("kind") == kind for s in rec.samples):
                rec.sample(dict(kind=kind, source=src.note))


def floors(tier, counters, evaluations):
    miss = []
    for k in CLASSES:
        if counters.get("reads:" + k, 0) < 1000:
            miss.append("stream class %s: %d reads (< 1000)" % (k, counters.get("reads:" + k, 0)))
        if counters.get("outside:" + k, 0) * 10 < counters.get("reads:" + k, 0):
            miss.append("stream class %s: fewer than 10%% reads outside the source" % k)
    if counters.get("reads_outside", 0) * 5 < evaluations:
        miss.append("fewer than 20%% of the reads are outside the source (%d/%d)" % (
            counters.get("reads_outside", 0), evaluations))
    if counters.get("bitreads_unaligned", 0) * 5 < counters.get("bitreads", 0) or counters.get("bitreads", 0) < 1000:
        miss.append("fewer than 20% of the bit reads are not byte-aligned")
    if counters.get("cached_rereads", 0) < 500:
        miss.append("fewer than 500 cached re-reads")
    for k in ("vm", "file", "pe"):
        if counters.get("replays_after_mutation_inside:" + k, 0) < 150:
            miss.append("stream class %s: only %d in-source reads replayed in a new atomic section after their "
                        "bytes changed (< 150)" % (k, counters.get("replays_after_mutation_inside:" + k, 0)))
    if counters.get("vm_mutations", 0) < 20:
        miss.append("fewer than 20 VM mutations between atomic sections")
    return miss
