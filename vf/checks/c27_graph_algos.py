"""C27 graph algorithms match their mathematical definitions.

Oracle: brute-force definitions (vf/models/graphdefs.py: reachability searches
in G, G-d, reversed G).  Monitored: the results of the DiGraph API on every
labelled digraph of the stated sizes, for every node taken as head / leaf /
path end.
"""
from vf import common
from vf.models import cpulimit

CHECK = dict(
    id="C27", level="exploration",
    rule=("every labelled directed graph on 0..4 nodes with self-loops (quick and thorough), every "
          "labelled 5-node graph without self-loops (thorough), plus random graphs of 5..12 nodes; "
          "each one with every node as head, as leaf and every (src, dst) pair for path enumeration; "
          "node labels are ints or strings (hash order varies with the shard's PYTHONHASHSEED), node and "
          "edge insertion orders are shuffled; plus histories: on one DiGraph object (and its copies) random "
          "mutations through the public API (add_node add_edge add_uniq_edge del_edge discard_edge del_node "
          "replace_node merge += copy) are interleaved with re-queries of all algorithms, mostly for heads "
          "already asked, compared with the definitions on the object's current edge set; distinct = distinct "
          "(node count, edge set); non-trivial = graph has at least one edge"),
    assumptions=["dominance is defined on the nodes reachable from the head; a head with predecessors is "
                 "dominated by itself only",
                 "the natural loop of a back edge a->b is b plus every node reaching a without b (whole graph)",
                 "cycles_count=0 path enumeration is the set of simple paths; for cycles_count=k>0 only bounds are "
                 "demanded: (walks src->dst never re-entering src, stopping at the first dst, every node at most "
                 "k+1 times) <= result <= (walks with every node at most k+1 times)",
                 "multi-edges are not generated"],
    exhaustive={"quick": True, "thorough": True},
    timeout={"quick": 900, "thorough": 3600},
    technique="runtime monitoring: exhaustive small-scope enumeration against brute-force definitions",
    level_text=("exhaustive for all digraphs with <= 4 nodes (quick) / additionally all loop-free-diagonal "
                "5-node digraphs (thorough); sampled above"),
)

NSHARDS = 16


def shards(tier, seed, scale):
    per = 150 if tier == "quick" else 9000
    out = common.mk_shards(NSHARDS, seed, tier, per, scale)
    for sh in out:
        # development aid: --scale < 1 thins the big exhaustive families
        sh["stride"] = max(1, int(round(1.0 / scale))) if scale < 1 else 1
        sh["nhist"] = max(2, int((400 if tier == "quick" else 5000) * scale))
    return out


# ------------------------------------------------------------------ helpers

def _j(x):
    """JSON-able, order-free rendering of results"""
    if isinstance(x, dict):
        return {str(k): _j(v) for k, v in sorted(x.items(), key=lambda kv: str(kv[0]))}
    if isinstance(x, (set, frozenset)):
        return sorted((_j(v) for v in x), key=str)
    if isinstance(x, (list, tuple)):
        return [_j(v) for v in x]
    return x if isinstance(x, (int, str, bool, type(None))) else str(x)


class Case(object):
    """one labelled graph: the model form and the DiGraph under test"""

    def __init__(self, n, edges, rng, labels):
        from miasm.core.graph import DiGraph
        from vf.models import graphdefs as gd
        if labels == "str":
            names = ["n%d" % i for i in range(n)]
        elif labels == "tuple":
            names = [("blk", i) for i in range(n)]
        else:
            names = list(range(n))
        self.n = n
        self.names = names
        self.edges = [(names[a], names[b]) for a, b in edges]
        self.succ = gd.normalize(names, self.edges)
        order = list(names)
        rng.shuffle(order)
        eorder = list(self.edges)
        rng.shuffle(eorder)
        g = DiGraph()
        for x in order:
            g.add_node(x)
        for a, b in eorder:
            g.add_edge(a, b)
        self.g = g
        self.raw = dict(n=n, edges=sorted(edges), labels=labels)


def edges_from_bits(n, bits, selfloops=True):
    out = []
    k = 0
    for a in range(n):
        for b in range(n):
            if a == b and not selfloops:
                continue
            if (bits >> k) & 1:
                out.append((a, b))
            k += 1
    return out


def run_shard(params, rec):
    common.quiet()
    from vf.models import cpulimit
    cpulimit.install()
    from vf.models import graphdefs as gd
    rng = common.rng_for(params)
    shard, nsh = params["shard"], params.get("nshards", NSHARDS)
    stride = params.get("stride", 1)
    thorough = params["tier"] == "thorough"
    mon = Monitor(rec, gd)
    if stride > 1:
        rec.count("thinned")

    # ---- exhaustive families
    for n in range(0, 5):
        total = 1 << (n * n)
        for bits in range(shard % nsh, total, nsh) if total >= nsh else (
                range(total) if shard == 0 else ()):
            if n == 4 and stride > 1 and (bits // nsh) % stride:
                continue
            labels = "int" if (bits // nsh) % 3 == 0 else ("str" if (bits // nsh) % 3 == 1 else "tuple")
            case = Case(n, edges_from_bits(n, bits), rng, labels)
            rec.count("graphs_exhaustive:n=%d" % n)
            mon.check_graph(case, walks_k=(1 if n <= 3 else None))
    if thorough:
        n = 5
        total = 1 << 20
        for bits in range(shard, total, nsh):
            if stride > 1 and (bits // nsh) % stride:
                continue
            labels = "int" if (bits // nsh) % 2 == 0 else "str"
            case = Case(n, edges_from_bits(n, bits, selfloops=False), rng, labels)
            rec.count("graphs_exhaustive:n=5_noselfloop")
            mon.check_graph(case, walks_k=None, light=True)

    # ---- random larger graphs
    for i in range(params["n"]):
        n = rng.randrange(5, 9) if not thorough else rng.randrange(5, 13)
        p = rng.choice([0.08, 0.15, 0.2, 0.3, 0.45])
        edges = [(a, b) for a in range(n) for b in range(n)
                 if rng.random() < (p if a != b else p / 2)]
        case = Case(n, edges, rng, rng.choice(["int", "str", "tuple"]))
        rec.count("graphs_random")
        rec.count("graphs_random:n=%d" % n)
        if i % 40 == 0:
            rec.sample(dict(nodes=n, edges=edges[:30], kind="random graph; every node is tried as head and leaf"))
        sparse = len(edges) <= 2 * n and n <= 8
        mon.check_graph(case, walks_k=(1 if len(edges) <= n + 2 and n <= 6 else None),
                        paths=sparse)

    # ---- histories: queries interleaved with mutations of the same object
    hist = History(mon, rng, rec, gd)
    for i in range(params.get("nhist", 0)):
        hist.run(i)


class View(object):
    """the current state of a DiGraph that has a history (same attributes as Case)"""
    tag = ""

    def __init__(self, g, gd, ops):
        self.g = g
        nodes = list(g.nodes())
        edges = list(g.edges())
        self.multi = len(edges) != len(set(edges))
        self.names = sorted(nodes, key=repr)
        self.n = len(nodes)
        self.edges = sorted(set(edges), key=repr)
        self.succ = gd.normalize(nodes, edges)
        self.raw = dict(n=self.n, edges=_j(self.edges), nodes=_j(self.names), history=ops)


class Obj(object):
    """one DiGraph object of a history"""

    def __init__(self, g, name):
        self.g = g
        self.name = name
        self.nops = 0            # mutations applied to this object
        self.removal = []        # per mutation: is it removal-only
        self.last_head = {}      # head -> nops at its last query
        self.last_global = None
        self.snapshot = None


REMOVALS = ("del_edge", "discard_edge", "del_node")
MUTATIONS = ("add_node", "add_edge", "add_uniq_edge", "del_edge", "discard_edge", "del_node", "replace_node",
             "merge", "iadd", "copy")


class History(object):
    """One DiGraph object (and its copies): every mutation through the public API
    is followed by queries whose answers are compared with the definitions on
    the object's *current* node and edge sets (read back from nodes()/edges()).
    An answer that was right for an earlier state of the same object (cached,
    not invalidated) shows up as a mismatch; the key tells whether only removals
    happened since the head was last queried."""

    def __init__(self, mon, rng, rec, gd):
        self.mon, self.rng, self.rec, self.gd = mon, rng, rec, gd

    def labels(self):
        k = self.rng.choice(["int", "str", "tuple"])
        if k == "int":
            return list(range(6))
        if k == "str":
            return ["n%d" % i for i in range(6)]
        return [("blk", i) for i in range(6)]

    @staticmethod
    def state(g):
        return (set(g.nodes()), sorted(g.edges(), key=repr))

    def run(self, hid):
        from miasm.core.graph import DiGraph
        rng, rec = self.rng, self.rec
        L = self.labels()
        ops = []
        g = DiGraph()
        for x in rng.sample(L, rng.randrange(2, 6)):
            g.add_node(x)
        for a in list(g.nodes()):
            for b in list(g.nodes()):
                if rng.random() < 0.3:
                    g.add_edge(a, b)
        ops.append(["init", _j(sorted(g.nodes(), key=repr)), _j(sorted(g.edges(), key=repr))])
        objs = [Obj(g, "g0")]
        objs[0].snapshot = self.state(g)
        rec.ev()
        rec.count("histories")
        self.query(objs[0], ops, L)
        steps = rng.randrange(12, 30)
        burst = 0
        for step in range(steps):
            o = rng.choice(objs)
            # bursts of removals: query(h) -> removal-only mutations -> query(h)
            if burst == 0 and rng.random() < 0.25:
                burst = rng.randrange(1, 4)
            if burst:
                burst -= 1
                kind = rng.choice(REMOVALS + REMOVALS[:2] * 2)
            else:
                kind = rng.choice(MUTATIONS + ('add_edge',) * 3 + ('add_uniq_edge',))
            done = self.mutate(o, objs, kind, ops, L, DiGraph)
            if done is None:
                continue
            if done is False:
                return      # the mutation itself raised: state unknown, history abandoned
            # the other objects must not have moved
            for other in objs:
                if other is not o and other.snapshot is not None and self.state(other.g) != other.snapshot:
                    v = View(other.g, self.gd, ops)
                    v.tag = " [history]"
                    self.mon.bad(v, "DiGraph object", "changed by a mutation of another object (copy/merge share state)",
                                 _j(self.state(other.g)), _j(other.snapshot), object=other.name)
                    other.snapshot = self.state(other.g)
            if burst and rng.random() < 0.5:
                continue            # several removals before the next query
            self.query(o, ops, L)
            if len(objs) > 1 and rng.random() < 0.4:
                self.query(rng.choice(objs), ops, L)

    def mutate(self, o, objs, kind, ops, L, DiGraph):
        """returns True (applied), None (not applicable), False (raised)"""
        rng, rec, g = self.rng, self.rec, o.g
        nodes = sorted(g.nodes(), key=repr)
        edges = sorted(set(g.edges()), key=repr)
        absent = [(a, b) for a in L for b in L if (a, b) not in edges]
        try:
            if kind == "add_node":
                x = rng.choice(L)
                g.add_node(x)
                arg = [x]
            elif kind == "add_edge":
                if not absent:
                    return None
                a, b = rng.choice(absent)       # never a second copy of an edge: simple graphs only
                g.add_edge(a, b)
                arg = [a, b]
            elif kind == "add_uniq_edge":
                a, b = (rng.choice(edges) if edges and rng.random() < 0.3 else (rng.choice(L), rng.choice(L)))
                g.add_uniq_edge(a, b)
                arg = [a, b]
            elif kind == "del_edge":
                if not edges:
                    return None
                a, b = rng.choice(edges)
                g.del_edge(a, b)
                arg = [a, b]
            elif kind == "discard_edge":
                a, b = (rng.choice(edges) if edges and rng.random() < 0.8 else (rng.choice(L), rng.choice(L)))
                g.discard_edge(a, b)
                arg = [a, b]
            elif kind == "del_node":
                if not nodes:
                    return None
                x = rng.choice(nodes) if rng.random() < 0.9 else rng.choice(L)
                g.del_node(x)
                arg = [x]
            elif kind == "replace_node":
                if not nodes:
                    return None
                x = rng.choice(nodes)
                y = rng.choice([l for l in L if l != x])
                g.replace_node(x, y)
                arg = [x, y]
            elif kind in ("merge", "iadd"):
                h = DiGraph()
                for x in rng.sample(L, rng.randrange(0, 4)):
                    h.add_node(x)
                for a, b in rng.sample(absent, min(len(absent), rng.randrange(0, 4))):
                    h.add_edge(a, b)
                before = self.state(h)
                if kind == "merge":
                    g.merge(h)
                else:
                    g += h
                    if g is not o.g:
                        o.g = g
                if self.state(h) != before:
                    v = View(h, self.gd, ops)
                    v.tag = " [history]"
                    self.mon.bad(v, "DiGraph object", "merged-in graph changed by merge", _j(self.state(h)),
                                 _j(before))
                arg = [_j(sorted(before[0], key=repr)), _j(before[1])]
            elif kind == "copy":
                if len(objs) >= 3:
                    return None
                c = g.copy()
                no = Obj(c, "g%d" % len(objs))
                no.snapshot = self.state(c)
                objs.append(no)
                ops.append([o.name, "copy", no.name])
                rec.count("mutation:copy")
                if self.state(c) != self.state(g):
                    v = View(c, self.gd, ops)
                    v.tag = " [history]"
                    self.mon.bad(v, "DiGraph.copy", "differs from the original", _j(self.state(c)),
                                 _j(self.state(g)))
                # the copy is queried at once, then both live on independently
                self.query(no, ops, L)
                return None
            else:
                return None
        except Exception as exc:
            # the mutation API has its own property; here it only ends the history
            rec.count("mutation_raised:%s:%s" % (kind, type(exc).__name__))
            return False
        ops.append([o.name, kind] + _j(arg))
        rec.count("mutation:" + kind)
        o.nops += 1
        o.removal.append(kind in REMOVALS)
        o.snapshot = self.state(o.g)
        return True

    def since(self, o, last):
        if last is None:
            return "first"
        r = o.removal[last:]
        if not r:
            return "unchanged"
        return "removals" if all(r) else "mutations"

    TAGS = {"first": " [history: first query]", "unchanged": " [history: re-query, object unchanged]",
            "removals": " [history: re-query after removals only]",
            "mutations": " [history: re-query after mutations]"}

    def query(self, o, ops, L):
        rng, rec, mon, gd = self.rng, self.rec, self.mon, self.gd
        v = View(o.g, gd, list(ops))
        if v.multi:
            rec.count("history_multi_edge_state_skipped")
            return
        rec.count("history_queries")
        pred = gd.reverse(v.succ)
        cls = self.since(o, o.last_global)
        v.tag = self.TAGS[cls]
        rec.count("history_global_requery:" + cls)
        mon.check_global(v)
        o.last_global = o.nops
        if not v.names:
            return
        # heads: mostly the ones already asked on this object
        known = [h for h in o.last_head if h in v.succ]
        heads = []
        if known and rng.random() < 0.85:
            heads.append(rng.choice(known))
        if not heads or rng.random() < 0.5:
            heads.append(rng.choice(v.names))
        for h in dict.fromkeys(heads):
            cls = self.since(o, o.last_head.get(h))
            v.tag = self.TAGS[cls]
            rec.count("history_head_requery:" + cls)
            mon.check_head(v, h, pred, light=False)
            o.last_head[h] = o.nops
        if len(v.edges) <= 2 * v.n:
            v.tag = " [history]"
            s, d = rng.choice(v.names), rng.choice(v.names)
            mon.check_paths(v, s, d, 1 if len(v.edges) <= v.n + 1 else None)
        if len(rec.samples) < 10 and len(ops) == 12:
            rec.sample(dict(kind="history on one DiGraph object", ops=ops[:12]))


class Monitor(object):
    CALL_LIMIT = 5      # CPU seconds for one call on a graph of <= 12 nodes (normal: < 1 ms)

    def __init__(self, rec, gd):
        self.rec = rec
        self.gd = gd
        self.hung = {}

    # -- reporting
    def bad(self, case, algo, cls, got, want, **ctx):
        key = "%s %s%s" % (algo, cls, getattr(case, "tag", ""))
        if self.rec._fail_per_key.get(key, 0) >= 4:
            # already documented by 4 witnesses in this shard: count only
            self.rec.fail(key, "")
            return
        wit = dict(graph=case.raw, got=_j(got), want=_j(want))
        wit.update({k: _j(v) for k, v in ctx.items()})
        self.rec.fail(key, "%s on n=%d edges=%s %s: got %s, definition gives %s" % (
            algo, case.n, case.raw["edges"], _j(ctx), _j(got), _j(want)), wit)

    def call(self, case, algo, fn, *args, **ctx):
        """run the code under test; an exception is an observation"""
        self.rec.count("algo:" + algo)
        if self.hung.get(algo, 0) >= 2:
            # already reported as not terminating; do not starve the rest of the shard
            self.rec.count("skipped_after_hangs:" + algo)
            return False, None
        try:
            with cpulimit.cpu_limit(self.CALL_LIMIT):
                return True, fn(*args)
        except cpulimit.CpuTimeout:
            self.hung[algo] = self.hung.get(algo, 0) + 1
            self.rec.fail("%s does not terminate (%ds CPU)%s" % (algo, self.CALL_LIMIT, getattr(case, "tag", "")),
                          "%s still running after %ds on n=%d edges=%s %s" % (
                              algo, self.CALL_LIMIT, case.n, case.raw["edges"], _j(ctx)),
                          dict(graph=case.raw, **{k: _j(v) for k, v in ctx.items()}))
            return False, None
        except Exception as exc:
            key = "%s raises %s%s" % (algo, type(exc).__name__, getattr(case, "tag", ""))
            if self.rec._fail_per_key.get(key, 0) >= 4:
                self.rec.fail(key, "")
                return False, None
            self.rec.fail(key,
                          "%s raised %r on n=%d edges=%s %s" % (algo, exc, case.n, case.raw["edges"], _j(ctx)),
                          dict(graph=case.raw, exc=repr(exc), **{k: _j(v) for k, v in ctx.items()}))
            return False, None

    # -- one graph
    def check_graph(self, case, walks_k=None, paths=True, light=False):
        rec, gd, g, succ = self.rec, self.gd, case.g, case.succ
        rec.ev()
        if case.edges:
            rec.distinct("%d/%r" % (case.n, case.raw["edges"]))
        pred = gd.reverse(succ)
        self.check_global(case)

        for h in case.names:
            self.check_head(case, h, pred, light)

        if paths:
            for s in case.names:
                for d in case.names:
                    self.check_paths(case, s, d, walks_k)

    def check_global(self, case):
        """graph-wide notions"""
        rec, gd, g, succ = self.rec, self.gd, case.g, case.succ
        want_cyc = gd.has_cycle(succ)
        rec.count("cyclic" if want_cyc else "acyclic")
        ok, got = self.call(case, "has_loop", g.has_loop)
        if ok and got != want_cyc:
            self.bad(case, "has_loop", "wrong answer (graph %s)" % ("cyclic" if want_cyc else "acyclic"),
                     got, want_cyc)
        want = gd.strongly_connected_components(succ)
        ok, got = self.call(case, "scc", lambda: list(g.compute_strongly_connected_components()))
        if ok:
            self.cmp_partition(case, "compute_strongly_connected_components", got, want)
        want = gd.weakly_connected_components(succ)
        ok, got = self.call(case, "wcc", g.compute_weakly_connected_components)
        if ok:
            self.cmp_partition(case, "compute_weakly_connected_components", got, want)

    def cmp_partition(self, case, algo, got, want):
        try:
            gs = [frozenset(c) for c in got]
        except TypeError:
            self.bad(case, algo, "result is not a list of sets", repr(got), want)
            return
        if len(gs) != len(set(gs)):
            self.bad(case, algo, "component reported twice", gs, want)
        elif set(gs) != want:
            self.bad(case, algo, "components differ", gs, want)

    # -- one head / leaf
    def check_head(self, case, h, pred, light):
        rec, gd, g, succ = self.rec, self.gd, case.g, case.succ
        hp = "head has predecessors" if pred[h] else "head without predecessors"
        rec.count("heads")
        if pred[h]:
            rec.count("heads_with_predecessors")
        reach = gd.reachable(succ, h)
        if len(reach) < case.n:
            rec.count("heads_with_unreachable_nodes")

        # reachable sets
        for algo, fn, want in (("reachable_sons", g.reachable_sons, reach),
                               ("reachable_parents", g.reachable_parents, gd.coreachable(succ, h))):
            ok, got = self.call(case, algo, lambda: list(fn(h)), node=h)
            if ok:
                if len(got) != len(set(got)):
                    self.bad(case, algo, "node yielded twice", got, want, node=h)
                elif set(got) != want:
                    self.bad(case, algo, "set differs", got, want, node=h)
        if not light:
            for stop in case.names:
                want = gd.reachable_stop(pred, h, stop)
                ok, got = self.call(case, "reachable_parents_stop_node",
                                    lambda: list(g.reachable_parents_stop_node(h, stop)), leaf=h, head=stop)
                if ok and (len(got) != len(set(got)) or set(got) != want):
                    self.bad(case, "reachable_parents_stop_node", "set differs", got, want, leaf=h, head=stop)

        # dominators
        dom = gd.dominators(succ, h)
        ok, got = self.call(case, "compute_dominators", g.compute_dominators, h, head=h)
        if ok and got != dom:
            self.bad(case, "compute_dominators", "differs (%s)" % hp, got, dom, head=h)
        idom = gd.immediate_dominators(succ, h, dom)
        ok, got = self.call(case, "compute_immediate_dominators", g.compute_immediate_dominators, h, head=h)
        if ok and got != idom:
            self.bad(case, "compute_immediate_dominators", "differs (%s)" % hp, got, idom, head=h)
        # ordered walk of the dominators (fed with the *definition's* dominators)
        for n in case.names:
            want = gd.dominator_chain(succ, h, n, dom)
            ok, got = self.call(case, "walk_dominators", lambda: list(g.walk_dominators(n, dom)), head=h, node=n)
            if ok and got != want:
                self.bad(case, "walk_dominators", "order differs (%s)" % hp, got, want, head=h, node=n)
        # dominator tree
        want_e = set((d, n) for n, d in idom.items())
        ok, tree = self.call(case, "compute_dominator_tree", g.compute_dominator_tree, h, head=h)
        if ok:
            try:
                te, tn = list(tree.edges()), set(tree.nodes())
            except Exception as exc:
                self.bad(case, "compute_dominator_tree", "result is not a DiGraph", repr(tree), want_e, head=h)
            else:
                if len(te) != len(set(te)) or set(te) != want_e:
                    self.bad(case, "compute_dominator_tree", "edges differ (%s)" % hp, te, want_e, head=h)
                elif tn != set(dom):
                    if not want_e and not tn:
                        rec.count("dominator_tree_lone_head")
                        self.bad(case, "compute_dominator_tree", "has no node when the head dominates nothing else",
                                 tn, set(dom), head=h)
                    else:
                        self.bad(case, "compute_dominator_tree", "nodes differ (%s)" % hp, tn, set(dom), head=h)
        # dominance frontier
        want = {k: v for k, v in gd.dominance_frontier(succ, h, dom).items() if v}
        if want:
            rec.count("nonempty_frontier")
        ok, got = self.call(case, "compute_dominance_frontier", g.compute_dominance_frontier, h, head=h)
        if ok:
            try:
                gotn = {k: set(v) for k, v in got.items() if v}
            except Exception:
                gotn = None
            if gotn != want:
                cls = "differs (%s)" % hp
                if gotn is not None and pred[h] and \
                        {k: v - set([h]) for k, v in want.items() if v - set([h])} == gotn:
                    cls = "omits the head from every frontier (head has predecessors)"
                self.bad(case, "compute_dominance_frontier", cls, got, want, head=h)
        # back edges and natural loops
        want = gd.back_edges(succ, h, dom)
        if want:
            rec.count("heads_with_back_edges")
        ok, got = self.call(case, "compute_back_edges", lambda: list(g.compute_back_edges(h)), head=h)
        if ok and (len(got) != len(set(got)) or set(got) != want):
            self.bad(case, "compute_back_edges", "differs (%s)" % hp, got, want, head=h)
        want = gd.natural_loops(succ, h, dom)
        ok, got = self.call(case, "compute_natural_loops", lambda: list(g.compute_natural_loops(h)), head=h)
        if ok:
            try:
                gotd = {e: frozenset(b) for e, b in got}
                dup = len(gotd) != len(got)
            except Exception:
                gotd, dup = None, False
            if dup or gotd != want:
                self.bad(case, "compute_natural_loops", "differs (%s)" % hp, got, want, head=h)

        # post-dominators, h taken as the leaf
        ls = "leaf has successors" if succ[h] else "leaf without successors"
        pdom = gd.postdominators(succ, h)
        ok, got = self.call(case, "compute_postdominators", g.compute_postdominators, h, leaf=h)
        if ok and got != pdom:
            self.bad(case, "compute_postdominators", "differs (%s)" % ls, got, pdom, leaf=h)
        ipdom = gd.immediate_postdominators(succ, h, pdom)
        ok, got = self.call(case, "compute_immediate_postdominators", g.compute_immediate_postdominators, h,
                            leaf=h)
        if ok and got != ipdom:
            self.bad(case, "compute_immediate_postdominators", "differs (%s)" % ls, got, ipdom, leaf=h)
        if not light:
            rsucc = pred
            for n in case.names:
                want = gd.dominator_chain(rsucc, h, n, pdom)
                ok, got = self.call(case, "walk_postdominators", lambda: list(g.walk_postdominators(n, pdom)),
                                    leaf=h, node=n)
                if ok and got != want:
                    self.bad(case, "walk_postdominators", "order differs (%s)" % ls, got, want, leaf=h, node=n)

    # -- path enumeration
    def check_paths(self, case, s, d, walks_k):
        rec, gd, g, succ = self.rec, self.gd, case.g, case.succ
        want = gd.simple_paths(succ, s, d)
        rec.count("path_queries")
        if len(want) > 1:
            rec.count("path_queries_multiple_paths")
        wkey = sorted(map(tuple, want), key=repr)
        for algo, fn in (("find_path", g.find_path), ("find_path_from_src", g.find_path_from_src)):
            ok, got = self.call(case, algo, fn, s, d, src=s, dst=d)
            if ok:
                try:
                    gkey = sorted(map(tuple, got), key=repr)
                except TypeError:
                    gkey = None
                if gkey != wkey:
                    cls = "cycles_count=0: not the set of simple paths"
                    if gkey is not None and len(set(gkey)) != len(gkey):
                        cls = "cycles_count=0: path returned twice"
                    self.bad(case, algo, cls, got, want, src=s, dst=d)
            if walks_k:
                upper = gd.bounded_walks(succ, s, d, walks_k + 1, limit=3000)
                if upper is None:
                    rec.count("walk_queries_skipped_too_many")
                    continue
                ok, got = self.call(case, algo + "(cycles_count)", fn, s, d, walks_k, src=s, dst=d)
                if not ok:
                    continue
                rec.count("walk_queries")
                try:
                    gset = set(map(tuple, got))
                except TypeError:
                    self.bad(case, algo, "cycles_count>0: result is not a list of paths", repr(got), None,
                             src=s, dst=d, cycles_count=walks_k)
                    continue
                uset = set(map(tuple, upper))
                if len(gset) != len(got):
                    self.bad(case, algo, "cycles_count>0: path returned twice", got, None, src=s, dst=d,
                             cycles_count=walks_k)
                elif not gset <= uset:
                    self.bad(case, algo, "cycles_count>0: returns a non-walk or a node more than k+1 times",
                             sorted(gset - uset), None, src=s, dst=d, cycles_count=walks_k)
                else:
                    # walks that every reading of "a node may be processed k+1 times" accepts
                    core = set(map(tuple, gd.bounded_walks(succ, s, d, walks_k + 1, endpoints_once=True)))
                    if len(core) > len(want):
                        rec.count("walk_queries_with_repeated_node")
                    if not core <= gset:
                        self.bad(case, algo, "cycles_count>0: misses a walk that repeats no node more than k+1 "
                                 "times", got, sorted(core - gset), src=s, dst=d, cycles_count=walks_k)


ALGOS = ["has_loop", "scc", "wcc", "reachable_sons", "reachable_parents", "reachable_parents_stop_node",
         "compute_dominators", "compute_immediate_dominators", "walk_dominators", "compute_dominator_tree",
         "compute_dominance_frontier", "compute_back_edges", "compute_natural_loops",
         "compute_postdominators", "compute_immediate_postdominators", "walk_postdominators",
         "find_path", "find_path_from_src", "find_path(cycles_count)", "find_path_from_src(cycles_count)"]


def floors(tier, counters, evaluations):
    miss = []
    for a in ALGOS:
        if counters.get("algo:" + a, 0) < 1000:
            miss.append("%s evaluated %d times (<1000)" % (a, counters.get("algo:" + a, 0)))
    expect = {0: 1, 1: 2, 2: 16, 3: 512, 4: 65536}
    for n, cnt in expect.items():
        if counters.get("graphs_exhaustive:n=%d" % n, 0) != cnt and not counters.get("thinned"):
            miss.append("family n=%d: %d of %d graphs enumerated" % (
                n, counters.get("graphs_exhaustive:n=%d" % n, 0), cnt))
    if tier == "thorough" and counters.get("graphs_exhaustive:n=5_noselfloop", 0) != (1 << 20) \
            and not counters.get("thinned"):
        miss.append("family n=5: %d of %d graphs enumerated" % (
            counters.get("graphs_exhaustive:n=5_noselfloop", 0), 1 << 20))
    for k in ("heads_with_predecessors", "heads_with_unreachable_nodes", "heads_with_back_edges",
              "nonempty_frontier", "cyclic", "acyclic", "path_queries_multiple_paths", "graphs_random",
              "walk_queries_with_repeated_node"):
        if counters.get(k, 0) < 100:
            miss.append("%s seen %d times (<100)" % (k, counters.get(k, 0)))
    thin = bool(counters.get("thinned"))
    for k, need in (("history_head_requery:removals", 10000), ("history_head_requery:mutations", 10000),
                    ("history_head_requery:unchanged", 1000), ("history_global_requery:removals", 5000),
                    ("histories", 3000)):
        need = need // 10 if thin else need
        if counters.get(k, 0) < need:
            miss.append("%s = %d (<%d)" % (k, counters.get(k, 0), need))
    for m in MUTATIONS:
        if counters.get("mutation:" + m, 0) < (100 if thin else 1000):
            miss.append("mutation %s applied %d times" % (m, counters.get("mutation:" + m, 0)))
    return miss
