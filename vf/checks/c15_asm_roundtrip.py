"""C15 every encoding proposed by the assembler decodes to the same instruction.

Monitored: mn.asm(instr) for every instruction obtained from mn.dis on the shared corpus
(x86 16/32/64, ARM, Thumb, AArch64, MIPS32, PPC32, MSP430, MeP, SH4; every byte order), then
mn.dis on each proposed encoding.  Oracle: the statement itself -- at least one candidate; each
candidate decodes; same mnemonic, mode and operand expressions; decoded length == len(candidate).
"""
from vf.models import insn_roundtrip as rt

CHECK = dict(
    id="C15", level="exploration",
    rule=("16-byte candidates from the shared instruction corpus: a seed-independent walk over every class of "
          "each decoder table (fixed prefix classes x ModRM forms on x86) plus seed-dependent random bytes, stratified opcode "
          "enumeration, decoder-table templates with random free fields, curated vectors of test/arch "
          "with bit flips) decoded by mn.dis in every arch/mode; each decoded instruction is given to "
          "mn.asm and every proposed encoding is decoded again; distinct = distinct (arch/mode, "
          "mnemonic, operand kinds); non-trivial = the decoder accepted the bytes"),
    assumptions=["instruction equality = same name, mode and operand expressions (Expr equality); "
                 "prefix flags that are not operands (LOCK/REP) are not compared",
                 "PC-relative operands are compared as the integers the decoder produced at offset 0"],
    timeout={"quick": 900, "thorough": 3400},
    exhaustive={"quick": False, "thorough": False},
    technique="runtime monitoring: decode -> assemble -> decode round trip on decoder-accepted byte strings",
)
PER_ARCH = {"quick": 400, "thorough": 1600}      # seed-dependent candidates per arch/mode
WALK = {"quick": (1, 1), "thorough": (2, 1)}      # table walk: (rounds, stride)


def shards(tier, seed, scale):
    return rt.shards(tier, seed, scale, PER_ARCH, WALK)


def run_shard(params, rec):
    rt.run(params, rec, "C15")


def floors(tier, counters, evaluations):
    return rt.floors(tier, counters, evaluations, "C15")
