"""C15 every encoding proposed by the assembler decodes to the same instruction.

Monitored: mn.asm(instr) for every instruction obtained from mn.dis on the shared corpus
(x86 16/32/64, ARM, Thumb, AArch64, MIPS32, PPC32, MSP430, MeP, SH4; every byte order), then
mn.dis on each proposed encoding.  Oracle: the statement itself -- at least one candidate; each
candidate decodes; same mnemonic, mode and operand expressions; decoded length == len(candidate).
Boundary-directed immediates (deterministic part): for the all-zeros / all-ones instance of every
table class, each immediate (integer operand, absolute address, displacement) is replaced in turn
by 0, 1, 2^(k-1)-1, 2^(k-1), 2^k-1, 2^k (k = 8, 16, 32) and the sign-extension boundaries of the
operand size; a variant counts as "obtained by decoding" once one proposed encoding decodes back to
exactly it, and then every other proposed encoding must as well.
"""
from vf.models import insn_roundtrip as rt

CHECK = dict(
    id="C15", level="exploration",
    rule=("16-byte candidates from the shared instruction corpus: a seed-independent walk over every class of "
          "each decoder table (fixed prefix classes x ModRM forms on x86, boundary values of every free field) plus a "
          "seed-dependent stream -- VERIF_SEED selects one of 21 (quick) / 4 (thorough) swept streams, seed mod N -- of random bytes, stratified opcode "
          "enumeration, decoder-table templates with random free fields, curated vectors of test/arch "
          "with bit flips) decoded by mn.dis in every arch/mode; each decoded instruction is given to "
          "mn.asm and every proposed encoding is decoded again; boundary-valued immediates are substituted into "
          "one instance of every table class and checked the same way; distinct = distinct (arch/mode, "
          "mnemonic, operand kinds); non-trivial = the decoder accepted the bytes"),
    assumptions=["the seed-dependent part is drawn from a closed set of streams (VERIF_SEED mod 21 quick, mod 4 thorough); other seeds repeat a stream",
                 "instruction equality = same name, mode and operand expressions (Expr equality); "
                 "prefix flags that are not operands (LOCK/REP) are not compared",
                 "PC-relative operands are compared as the integers the decoder produced at offset 0"],
    timeout={"quick": 900, "thorough": 3400},
    exhaustive={"quick": False, "thorough": False},
    technique="runtime monitoring: decode -> assemble -> decode round trip on decoder-accepted byte strings",
)
PER_ARCH = {"quick": 400, "thorough": 1600}      # seed-dependent candidates per arch/mode
WALK = {"quick": (1, 1), "thorough": (2, 1)}      # table walk: (rounds, stride)


def shards(tier, seed, scale):
    return rt.shards(tier, seed, scale, PER_ARCH, WALK, "C15")


def run_shard(params, rec):
    rt.run(params, rec, "C15")


def floors(tier, counters, evaluations):
    return rt.floors(tier, counters, evaluations, "C15")
