"""C18 x86 instruction semantics match the host processor.

Oracle: the host CPU, through vf/native/x86host.c (built at run time).
Monitored: miasm's x86_64 / x86_32 lifter + jitter (Python back end; GCC back
end too in the thorough tier), one instruction at a time (jit_maxline=1).

Sources of instruction bytes: (T) an SDM-table-driven encoder, (A) miasm's own
assembler on operand templates, (R) random bytes.  Every encoding must be
accepted with the same length by binutils objdump and llvm-objdump; operands,
sizes and the mnemonic that indexes the DEFINED-FLAGS table are taken from the
objdump text, never from miasm.

32-bit mode: the sandbox cannot run 32-bit code; only encodings that both
reference disassemblers print identically for i386 and x86-64 (after renaming
address registers) are used, executed natively in 64-bit mode with
zero-extended registers and compared with miasm's 32-bit lifter on the low 32
bits (DESIGN.md C18).
"""
import os
import re

from vf import common

CHECK = dict(
    id="C18", level="exploration",
    rule=("(instruction bytes, concrete state) pairs; bytes from an SDM-table encoder over ~330 "
          "opcode entries x operand forms (reg, imm, [base+index*scale+disp] with 12% stack-pointer bases, "
          "rip-relative, absolute, "
          "8/16/32/64-bit, high-byte registers, LOCK/REP, redundant prefixes), from miasm's assembler "
          "on templates and from random bytes; all filtered by two reference disassemblers and a "
          "mnemonic allow-list; states from a boundary set + random, memory operands steered into a "
          "one-page window (some straddling its ends); distinct = distinct (mode, reference mnemonic, "
          "operand kinds/sizes); non-trivial = both executions completed and were compared"),
    assumptions=["the host CPU (AMD EPYC) implements the x86-64 architecture",
                 "the defined-flags table (written from the SDM) lists only flags the processor defines or leaves unchanged",
                 "binutils objdump text gives the operands used to steer memory addresses and to pick the flags-table row",
                 "32-bit mode: a mode-invariant encoding behaves in 64-bit mode with zero-extended registers as in 32-bit mode on the low 32 bits"],
    timeout={"quick": 1200, "thorough": 7000},
    exhaustive={"quick": False, "thorough": False},
    overlay="plain",
    technique="runtime monitoring: differential execution of single instructions against the host processor",
    level_note="trusted: host CPU, x86host.c trampoline, objdump/llvm-objdump operand text, the defined-flags table",
)

QUICK = dict(t64=100, a64=6, r64=60, t32=36, r32=36, states=3, gcc=0)
THOROUGH = dict(t64=3000, a64=100, r64=2000, t32=1000, r32=800, states=4, gcc=150)


def shards(tier, seed, scale):
    cfg = dict(QUICK if tier == "quick" else THOROUGH)
    for k in ('t64', 'a64', 'r64', 't32', 'r32', 'gcc'):
        cfg[k] = int(cfg[k] * scale) if cfg[k] else 0
        if k != 'gcc':
            cfg[k] = max(cfg[k], 2)
    out = []
    for i in range(16):
        out.append(dict(seed=seed, shard=i, tier=tier, hashseed=0, cfg=cfg))
    return out


# ---- (A) miasm assembler templates -----------------------------------------
A_MNEMS2 = ['ADD', 'ADC', 'SUB', 'SBB', 'AND', 'OR', 'XOR', 'CMP', 'TEST', 'MOV', 'XCHG', 'XADD',
            'CMPXCHG', 'BT', 'BTS', 'BTR', 'BTC']
A_MNEMS1 = ['INC', 'DEC', 'NEG', 'NOT', 'MUL', 'IMUL', 'DIV', 'IDIV']
A_SHIFT = ['SHL', 'SHR', 'SAR', 'ROL', 'ROR', 'RCL', 'RCR']
A_RM = ['BSF', 'BSR', 'CMOVZ', 'CMOVB', 'CMOVL', 'CMOVNS', 'IMUL']
A_SSE = ['PXOR', 'PADDB', 'PSUBW', 'PCMPEQD', 'PUNPCKLBW', 'PMAXUB', 'PMULLW', 'PSHUFB', 'ANDPS',
         'ADDSD', 'MULSS']
_R = {8: ['AL', 'CL', 'DL', 'BL', 'AH', 'CH', 'DH', 'BH', 'SIL', 'R9B', 'R15B'],
      16: ['AX', 'CX', 'DX', 'BX', 'SI', 'DI', 'R8W', 'R13W'],
      32: ['EAX', 'ECX', 'EDX', 'EBX', 'ESI', 'EDI', 'EBP', 'R10D', 'R14D'],
      64: ['RAX', 'RCX', 'RDX', 'RBX', 'RSI', 'RDI', 'RBP', 'R8', 'R11', 'R12', 'R13', 'R15']}
_PTR = {8: 'BYTE', 16: 'WORD', 32: 'DWORD', 64: 'QWORD', 128: 'XMMWORD'}


def asm_template(rng):
    def mem(size):
        b = rng.choice(_R[64])
        k = rng.random()
        if k < 0.3:
            a = b
        elif k < 0.6:
            a = "%s+0x%X" % (b, rng.choice([4, 8, 0x10, 0x7f, 0x100]))
        else:
            i = rng.choice([x for x in _R[64] if x != 'RSP'])
            a = "%s+%s*0x%d" % (b, i, rng.choice([1, 2, 4, 8]))
            if rng.random() < 0.5:
                a += "+0x%X" % rng.choice([1, 8, 0x20, 0x1000])
        return "%s PTR [%s]" % (_PTR[size], a)

    def reg(size):
        return rng.choice(_R[size])
    k = rng.random()
    size = rng.choice([8, 16, 32, 64])
    if k < 0.35:
        mn = rng.choice(A_MNEMS2)
        if mn.startswith('BT') and size == 8:
            size = 32
        f = rng.random()
        if f < 0.3:
            return "%s %s, %s" % (mn, reg(size), reg(size))
        if f < 0.55:
            return "%s %s, %s" % (mn, mem(size), reg(size))
        if f < 0.75 and mn not in ('XADD', 'CMPXCHG', 'BT', 'BTS', 'BTR', 'BTC', 'TEST', 'XCHG'):
            return "%s %s, %s" % (mn, reg(size), mem(size))
        if mn in ('XADD', 'CMPXCHG', 'XCHG'):
            return "%s %s, %s" % (mn, mem(size), reg(size))
        imm = rng.choice([1, 0x7f, 0x10, 3])
        return "%s %s, 0x%X" % (mn, rng.choice([reg(size), mem(size)]), imm)
    if k < 0.5:
        return "%s %s" % (rng.choice(A_MNEMS1), rng.choice([reg(size), mem(size)]))
    if k < 0.7:
        c = rng.choice(['CL', '0x1', '0x%X' % rng.choice([2, 7, 8, 31, 33, 63])])
        return "%s %s, %s" % (rng.choice(A_SHIFT), rng.choice([reg(size), mem(size)]), c)
    if k < 0.85:
        size = rng.choice([16, 32, 64])
        return "%s %s, %s" % (rng.choice(A_RM), reg(size), rng.choice([reg(size), mem(size)]))
    x = lambda: "XMM%d" % rng.randrange(16)
    return "%s %s, %s" % (rng.choice(A_SSE), x(), rng.choice([x(), mem(128)]))


def run_shard(params, rec):
    common.quiet()
    from vf.models import c18_x86 as X
    from vf.models.c18_x86enc import Encoder, WINDOW, WINDOW_SIZE, INSN_ADDR
    rng = common.rng_for(params)
    cfg = params["cfg"]
    scratch = os.environ.get("VERIF_SCRATCH_DIR") or os.environ.get("TMPDIR") or "/var/tmp"
    workdir = os.environ.get("TMPDIR") or scratch
    native = X.Native(scratch)
    native.build()
    native.workdir = workdir

    for mode in (64, 32):
        py = X.Miasm(mode, 'python')
        gcc = None
        if cfg.get("gcc"):
            gcc = X.Miasm(mode, 'gcc')
        # ---------------- candidates
        cands = []          # (bytes, source)
        enc = Encoder(rng, mode)
        nT = cfg['t64'] if mode == 64 else cfg['t32']
        tries = 0
        while sum(1 for c in cands if c[1] == 'T') < nT and tries < nT * 20:
            tries += 1
            x = enc.gen()
            if x:
                cands.append((x[0], 'T'))
        if mode == 64:
            from miasm.arch.x86.arch import mn_x86
            for _ in range(cfg['a64']):
                txt = asm_template(rng)
                rec.count("asm_templates")
                try:
                    ins = mn_x86.fromstring(txt, py.loc_db, 64)
                    encs = mn_x86.asm(ins)
                except Exception:
                    rec.count("asm_rejected")
                    continue
                if encs:
                    cands.append((bytes(rng.choice(sorted(encs))), 'A'))
        nR = cfg['r64'] if mode == 64 else cfg['r32']
        for _ in range(nR * 6):
            b = bytearray(rng.getrandbits(8 * 15).to_bytes(15, "little"))
            # bias towards the opcode space under test
            k = rng.random()
            if k < 0.3:
                b[0] = rng.choice([0x0f, 0x66, 0xf3, 0xf2, 0x48, 0x4c, 0x41, 0xf0])
            if mode == 32 and 0x40 <= b[0] <= 0x4f:
                continue
            cands.append((bytes(b), 'R'))

        dis = X.refdis([c for c, _ in cands], mode, workdir, "m")
        dis64 = X.refdis([c for c, _ in cands], 64, workdir, "i") if mode == 32 else dis

        accepted = []
        nR_acc = 0
        for slot, ((code, src), d, d64) in enumerate(zip(cands, dis, dis64)):
            olen, otxt, llen, ltxt = d
            rec.count("cand:%s" % src)
            if olen == 0 or '(bad)' in otxt or llen == 0 or '<unknown>' in ltxt or olen != llen:
                rec.count("rejected:refdis_%s" % src)
                continue
            if src == 'R':
                if nR_acc >= nR:
                    continue
                code = code[:olen]
            elif olen != len(code):
                rec.count("rejected:length_%s" % src)
                continue
            try:
                info = X.parse(otxt)
            except X.Unparsed:
                rec.count("rejected:unparsed_%s" % src)
                continue
            cmn = X.canon(info['mn'])
            if cmn not in X.ALLOW:
                rec.count("rejected:not_allowed_%s" % src)
                continue
            if any(o['kind'] == 'mem' and o['seg'] in ('fs', 'gs') for o in info['ops']):
                rec.count("rejected:fs_gs")
                continue
            if any(p.startswith('rep') for p in info['prefixes']) and cmn not in X.STRING_MN:
                rec.count("rejected:rep_on_nonstring")
                continue
            if cmn == 'bswap' and info['ops'] and info['ops'][0]['size'] == 16:
                rec.count("rejected:bswap16_undefined")
                continue
            if cmn in ('jmp', 'call') and info['ops'] and info['ops'][0].get('size') not in (None, 64) \
                    and info['ops'][0]['kind'] != 'imm':
                rec.count("rejected:narrow_branch")
                continue
            if cmn in ('jcc', 'jmp', 'call', 'loop', 'loope', 'loopne', 'jrcxz', 'jecxz') and \
                    b"\x66" in code[:4] and info['ops'] and info['ops'][0]['kind'] == 'imm':
                # 66-prefixed near branches truncate RIP on Intel but not on AMD
                rec.count("rejected:branch_opsize_prefix")
                continue
            if cmn in X.BRANCH_MN and info['ops'] and info['ops'][0]['kind'] == 'imm' and \
                    0 <= info['ops'][0]['val'] - 16 * slot < olen:
                # a branch to itself never ends (LOOP with a 64-bit count, JMP $)
                rec.count("rejected:branch_to_self")
                continue
            if mode == 32:
                if d64[0] != olen or d64[2] != olen or not X.invariant_text(d64[1], otxt):
                    rec.count("rejected:not_mode_invariant")
                    continue
                if cmn in X.STACK_MN or (0x40 <= code[0] <= 0x4f):
                    rec.count("rejected:m32_stack_or_rex")
                    continue
                if any(0x40 <= c <= 0x4f for c in code[:1]):
                    continue
            if src == 'R':
                nR_acc += 1
            accepted.append((code, src, info, otxt))
            rec.count("accepted:%s:%d" % (src, mode))

        # ---------------- cases
        sg = X.StateGen(rng, mode)
        cases = []
        for code, src, info, otxt in accepted:
            dec = py.decode(code)
            if dec is None:
                rec.count("miasm_cannot_decode")
                rec.count("miasm_cannot_decode:" + X.canon(info['mn']))
                continue
            name, mlen, mtxt = dec
            if mlen != len(code):
                rec.count("miasm_length_differs(C17)")
                continue
            for k in range(cfg['states']):
                try:
                    st = sg.make(info, len(code))
                except Exception as exc:    # harness weakness, never a verdict
                    rec.count("stategen_error:%s" % type(exc).__name__)
                    break
                if mode == 32 and not m32_no_wrap(X, info, st):
                    rec.count("m32_address_wrap_discarded")
                    continue
                cases.append((code, st, info, name, mtxt, src, otxt))
        # ---------------- native
        BATCH = 400
        gcc_codes = {}
        n_fp = n_gen = 0
        for b0 in range(0, len(cases), BATCH):
            batch = cases[b0:b0 + BATCH]
            nres = native.run([(c[0], c[1]) for c in batch])
            for (code, st, info, name, mtxt, src, otxt), nat in zip(batch, nres):
                seen = set()
                mo = one_case(X, rec, mode, py, code, st, info, name, mtxt, src, otxt, nat, seen)
                if gcc is None or mo is None:
                    continue
                if code not in gcc_codes:
                    # GCC back end budget (distinct encodings): 60% for what the Python back end
                    # cannot evaluate (floating point), 40% for everything else
                    if mo == 'unsupported:python-backend-cannot-evaluate':
                        ok = n_fp < 0.6 * cfg['gcc']
                        n_fp += ok
                    else:
                        ok = n_gen < 0.4 * cfg['gcc']
                        n_gen += ok
                    gcc_codes[code] = bool(ok)
                if gcc_codes[code]:
                    one_case(X, rec, mode, gcc, code, st, info, name, mtxt, src, otxt, nat, seen)


def m32_no_wrap(X, info, st):
    """32-bit experiment: the exact (unwrapped) effective address must lie in
    [0, 2^32) so that 64-bit and 32-bit address arithmetic coincide"""
    for o in info['ops']:
        if o['kind'] != 'mem':
            continue
        ea = o['disp']
        if o['base'] is not None:
            ea += st['gpr'][o['base']]
        if o['index'] is not None:
            ea += st['gpr'][o['index']] * o['scale']
        if not (0 <= ea < (1 << 32) - 64):
            return False
    return True


def one_case(X, rec, mode, be, code, st, info, name, mtxt, src, otxt, nat, seen):
    cmn = X.canon(info['mn'])
    ops = info['ops']
    bk = be.backend
    rec.ev()
    rec.count("cases:%d:%s" % (mode, bk))
    oc = nat['outcome']
    wit = None

    def witness():
        return dict(mode=mode, backend=bk, bytes=code.hex(), reference=otxt, miasm=mtxt, source=src,
                    gpr=["%x" % v for v in st['gpr']], flags="%x" % st['flags'],
                    xmm=[x.hex() for x in st['xmm']], win=st['win'].hex(), opts=st.get('opts', 0),
                    native_outcome=oc, native_rip="%x" % nat['rip'])

    if oc == 250:
        rec.count("native:died_or_cpu_limit")
        return None
    if oc in (100 + 4, 100 + 31, 100 + 5):
        rec.count("native:%s" % {104: 'SIGILL', 131: 'SIGSYS', 105: 'SIGTRAP'}[oc])
        return None
    mi = be.run(code, st)
    mo = mi['outcome']
    _one_case(X, rec, mode, be, code, st, info, name, mtxt, src, otxt, nat, seen, mi, witness)
    return mo


def _one_case(X, rec, mode, be, code, st, info, name, mtxt, src, otxt, nat, seen, mi, witness):
    cmn = X.canon(info['mn'])
    ops = info['ops']
    bk = be.backend
    oc = nat['outcome']
    mo = mi['outcome']
    kname = X.key_name(name, cmn)
    key0 = "%d %s" % (mode, kname)
    cls = X.cond_class(info, st)
    if bk != 'python':
        key0 = "%d[%s] %s" % (mode, bk, kname)

    def fail(what, detail, extra=None):
        if bk == 'python':
            seen.add(what)
        elif what in seen:
            # the same departure was already reported for the Python back end on this very
            # case: it comes from the lifter, not from this back end
            rec.count("gcc_same_as_python")
            return
        w = witness()
        w['detail'] = detail
        if extra:
            w.update(extra)
        k = "%s %s" % (key0, what)
        c = cls
        if cmn == 'cmpxchg' and what.startswith('dst') and ops and ops[0].get('size'):
            c = ("sz=%d " % ops[0]['size'] + c).strip()
        if c and not what.startswith('raises'):
            k += " [%s]" % c
        rec.fail(k, "%s: %s | %s" % (otxt, what, detail), w)

    if cmn in ('tzcnt', 'lzcnt') and name in ('BSF', 'BSR'):
        # F3 0F BC/BD: TZCNT/LZCNT on a BMI1/ABM processor, decoded by miasm as REP BSF/BSR
        # (what a pre-BMI processor executes): one mechanism, one key
        rec.count("tzcnt_lzcnt_decoded_as_rep_bsf_bsr")
        rec.fail("%d %s decoded as REP %s" % (mode, cmn.upper(), name),
                 "%s: the processor executes %s, miasm lifts %s" % (otxt, cmn, mtxt), witness())
        return
    if re.match(r'^cmp(eq|lt|le|unord|neq|nlt|nle|ord)(ps|pd|ss|sd)$', info['mn']) and \
            re.match(r'^CMP(EQ|LT|LE|UNORD|NEQ|NLT|NLE|ORD)(PS|PD|SS|SD)$', name) and name.lower() != info['mn']:
        # same bytes, another comparison predicate than the reference disassembler (and the processor)
        rec.count("sse_compare_predicate_misdecoded")
        rec.fail("%d %s decoded with another predicate" % (mode, kname),
                 "%s: miasm decodes %s" % (otxt, mtxt), witness())
        return
    if mo.startswith('unsupported') or mo.startswith('raised:'):
        if mo.startswith('raised:') and mo not in ('raised:NotImplementedError', 'raised:KeyError'):
            rec.count("miasm_raised:%s:%s" % (mo[7:], name))
            fail("raises %s" % mo[7:], str(mi.get('detail')))
            return
        rec.count("miasm_unsupported")
        rec.count("miasm_unsupported:%s" % name)
        return
    is_div = cmn in ('div', 'idiv')
    if is_div:
        rec.count("div_cases")
    if oc == 100 + 8:       # SIGFPE
        if is_div:
            rec.count("div_faults_native")
        if mo == 'div':
            rec.count("agree:div_fault")
            rec.distinct("%d/%s/fault" % (mode, cmn))
            return
        fail("#DE on the processor, no division exception", "miasm outcome=%s" % mo)
        return
    if oc in (100 + 11, 100 + 7):
        if mo == 'mem':
            rec.count("agree:mem_fault")
        else:
            # alignment (#GP) and non-canonical faults are outside the statement
            rec.count("native_mem_fault_only")
        return
    if oc not in (0, 1):
        rec.count("native:outcome_%d" % oc)
        return
    if mo == 'div':
        fail("division exception, none on the processor", "")
        return
    if mo == 'mem':
        fail("spurious memory fault", "native completed; %s" % mi.get('detail'))
        return
    if mo != 'ok':
        fail("spurious exception", mo)
        return

    # ---- both completed: compare
    rec.count("compared:%d:%s" % (mode, bk))
    rec.count("mn:%s" % name)
    rec.count("src:%s" % src)
    kinds = []
    for o in ops:
        kinds.append(o['kind'] + (str(o.get('size')) if o['kind'] in ('reg', 'mem') else ''))
        if o['kind'] == 'reg' and o['shift']:
            rec.count("form:high_byte_reg")
        if o['kind'] == 'mem':
            if o['rip']:
                rec.count("form:rip_relative")
            elif o['absolute']:
                rec.count("form:absolute")
            elif o['index'] is not None:
                rec.count("form:sib_index")
            if o['asz'] == 32 and mode == 64:
                rec.count("form:addr32")
        if o['kind'] in ('reg', 'mem') and o.get('size'):
            rec.count("opsize:%d" % o['size'])
    if ops:
        rec.count("form:dst_%s" % ops[0]['kind'])
    if any(o['kind'] == 'imm' for o in ops):
        rec.count("form:imm")
    if 'lock' in info['prefixes']:
        rec.count("form:lock")
    if any(p.startswith('rep') for p in info['prefixes']):
        rec.count("form:rep")
    rec.distinct("%d/%s/%s" % (mode, cmn, ",".join(kinds)))
    if len(rec.samples) < 4:
        rec.sample(dict(mode=mode, bytes=code.hex(), reference=otxt, miasm=mtxt))

    n = 16 if mode == 64 else 8
    mask = X.M64 if mode == 64 else 0xffffffff
    # undefined results (SDM): not compared
    skip_gpr = set()
    if cmn in ('bsf', 'bsr') and (nat['flags'] >> 6) & 1:
        skip_gpr.add(ops[0]['idx'])            # source 0: destination undefined
        rec.count("undefined_dst_skipped")
    if cmn in ('shld', 'shrd'):
        c = ops[-1]
        cnt = c['val'] if c['kind'] == 'imm' else st['gpr'][1] & 0xff
        cnt &= 63 if ops[0]['size'] == 64 else 31
        if cnt > ops[0]['size']:
            rec.count("undefined_dst_skipped")
            return
    # pc
    npc = nat['rip'] & mask
    if mi['pc'] != npc:
        fail("pc", "next pc miasm=%x processor=%x" % (mi['pc'], npc))
    if oc == 1:
        rec.count("branch_taken")
    # registers
    for i in range(n):
        if i in skip_gpr:
            continue
        if mi['gpr'][i] != nat['gpr'][i] & mask:
            fail("dst(gpr)", "%s miasm=%x processor=%x" % (X.GPR64[i], mi['gpr'][i], nat['gpr'][i] & mask))
            break
    for i in range(n):
        if mi['xmm'][i] != nat['xmm'][i]:
            fail("dst(xmm)", "XMM%d miasm=%s processor=%s" % (i, mi['xmm'][i].hex(), nat['xmm'][i].hex()))
            break
    if mi['win'] != nat['win']:
        a, b = mi['win'], nat['win']
        off = next(i for i in range(len(a)) if a[i] != b[i])
        fail("dst(mem)", "window+0x%x miasm=%s processor=%s (initially %s)" % (
            off, a[off:off + 16].hex(), b[off:off + 16].hex(), st['win'][off:off + 16].hex()))
    # flags
    fc = X.flags_compared(info, st)
    if fc is None:
        rec.count("flags_unchecked")
        rec.count("flags_unchecked:%s" % cmn)
        fc = ()
    else:
        rec.count("flags_checked")
    fp_compare = cmn in ('comiss', 'comisd', 'ucomiss', 'ucomisd')
    wrong = []
    for fl in list(X.STATUS) + ['DF']:
        if fl != 'DF' and fl not in fc:
            continue
        bit = X.FLAG_BITS[fl]
        if (mi['flags'] >> bit) & 1 != (nat['flags'] >> bit) & 1:
            if fp_compare:
                wrong.append(fl)
                continue
            fail("flag %s" % fl, "miasm=%d processor=%d (before: %d)" % (
                (mi['flags'] >> bit) & 1, (nat['flags'] >> bit) & 1, (st['flags'] >> bit) & 1))
    if wrong:
        # floating-point compares: one key per instruction and input class
        fail("flags", "%s differ: miasm=%x processor=%x" % (",".join(wrong), mi['flags'], nat['flags'] & 0xCD5))


def floors(tier, counters, evaluations):
    miss = []
    mns = [k for k in counters if k.startswith("mn:")]
    if len(mns) < 120:
        miss.append("only %d distinct mnemonics compared (<120)" % len(mns))
    for k in ("form:dst_reg", "form:dst_mem", "form:dst_xmm", "form:imm", "form:high_byte_reg",
              "form:rip_relative", "form:absolute", "form:sib_index", "form:lock", "form:rep",
              "opsize:8", "opsize:16", "opsize:32", "opsize:64", "opsize:128", "branch_taken",
              "compared:64:python", "compared:32:python", "src:T", "src:R", "agree:mem_fault"):
        if counters.get(k, 0) == 0:
            miss.append("never observed: %s" % k)
    if tier == "thorough" and counters.get("compared:64:gcc", 0) == 0:
        miss.append("GCC back end never compared")
    if tier == "thorough" and counters.get("src:A", 0) == 0:
        miss.append("assembler source never compared")
    comp = counters.get("compared:64:python", 0) + counters.get("compared:32:python", 0)
    if counters.get("form:dst_mem", 0) < 0.10 * max(1, comp):
        miss.append("memory-destination forms below 10%% of compared cases (%d of %d)" % (
            counters.get("form:dst_mem", 0), comp))
    dc = counters.get("div_cases", 0)
    if dc == 0 or counters.get("div_faults_native", 0) < 0.05 * dc:
        miss.append("faulting divisions below 5%% of division cases (%d of %d)" % (
            counters.get("div_faults_native", 0), dc))
    if counters.get("flags_checked", 0) < 0.5 * max(1, comp):
        miss.append("flags compared in fewer than half of the compared cases")
    return miss
