"""C16 instruction text parses back to the same instruction.

Monitored: str(instr) for every instruction obtained from mn.dis on the shared corpus, then
mn.fromstring(text, loc_db, mode), str() of the result, mn.asm of the result and mn.dis of every
encoding.  Oracle: the statement -- the parsed instruction prints identically, it has encodings,
and every encoding decodes to an instruction printing the original text (with the encoding's length).
"""
from vf.models import insn_roundtrip as rt

CHECK = dict(
    id="C16", level="exploration",
    rule=("16-byte candidates from the shared instruction corpus: a seed-independent walk over every class of "
          "each decoder table (fixed prefix classes x ModRM forms on x86, boundary values of every free field) plus a "
          "seed-dependent stream -- VERIF_SEED selects one of 13 (quick) / 2 (thorough) swept streams, seed mod N -- of random bytes, stratified opcode "
          "enumeration, decoder-table templates with random free fields, curated vectors of test/arch "
          "with bit flips) decoded by mn.dis in every arch/mode; the printed text is parsed back with "
          "mn.fromstring, printed, assembled and re-decoded; distinct = distinct (arch/mode, mnemonic, "
          "operand kinds); non-trivial = the decoder accepted the bytes"),
    assumptions=["the seed-dependent part is drawn from a closed set of streams (VERIF_SEED mod 13 quick, mod 2 thorough); other seeds repeat a stream",
                 "'same instruction' is compared on the printed text (the property is about text)",
                 "PC-relative operands are printed and parsed as integers (offset form, no label) at offset 0"],
    timeout={"quick": 900, "thorough": 3400},
    exhaustive={"quick": False, "thorough": False},
    technique="runtime monitoring: print -> parse -> print / assemble -> decode round trip on decoded instructions",
)
PER_ARCH = {"quick": 100, "thorough": 400}      # seed-dependent candidates per arch/mode
WALK = {"quick": (1, 16), "thorough": (1, 6)}      # table walk: (rounds, stride)


def shards(tier, seed, scale):
    return rt.shards(tier, seed, scale, PER_ARCH, WALK, "C16")


def run_shard(params, rec):
    rt.run(params, rec, "C16")


def floors(tier, counters, evaluations):
    return rt.floors(tier, counters, evaluations, "C16")
