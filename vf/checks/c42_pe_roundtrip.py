"""C42 PE images round-trip through build and parse.

A PE is created through the loader API (PE(), SHList.add_section, DirImport.add_dlldesc/set_rva,
DirExport.create/add_name/set_rva, DirReloc.add_reloc/set_rva, header attributes) while the
harness keeps its own model of what was asked for.  Oracle: PE(bytes(pe)) compared with the model
(sections and their raw contents, imports by dll/name/ordinal/thunk, exports, relocations, header
fields); the parsed image is then modified through the same API, serialised and compared again;
address-conversion laws inside sections; virt.set/virt.get; reloc_to(new base).
"""
import struct

from vf import common

CHECK = dict(
    id="C42", level="exploration",
    rule=("generated 32/64-bit PEs: 1-6 sections (random sizes 0..0x3000, explicit or automatic RVA, "
          "gaps, rawsize padding, flags), file alignment {0x200,0x400,0x1000}, section alignment "
          "{0x1000,0x2000,0x10000}, 0-4 imported DLLs with 1-12 names/ordinals (explicit or chained "
          "FirstThunk), 0-8 exports, 0-40 HIGHLOW relocations over 1-3 pages, random header fields; "
          "each image is built, parsed, modified again through the API (new section, more imports, "
          "exports, relocations, header fields, virtual writes), rebuilt, parsed, relocated and "
          "rebuilt; distinct = distinct (word size, alignments, section count, directory mix, "
          "modification mix); non-trivial = at least two sections or one directory"),
    assumptions=["the generator's model (what was passed to the API) is the reference",
                 "a fresh PE() has no relocation list: the harness initialises DirReloc.reldesc=[] and the "
                 "directory size to 0 before add_reloc (no API call exists for that)",
                 "CheckSum and SizeOfImage are derived by build_content and only compared between two "
                 "parses of the same bytes"],
    timeout={"quick": 900, "thorough": 3000},
    exhaustive={"quick": False, "thorough": False},
    technique="runtime monitoring: generator-side model of the image compared with the re-parsed structures",
)

SEC_NAMES = ["text", ".text", ".data", ".rdata", "code", "UPX0", ".bss", "xx", "12345678", ".tls", "a"]
DLLS = ["kernel32.dll", "USER32.dll", "ntdll.dll", "ADVAPI32.DLL", "msvcrt.dll", "ws2_32.dll", "x.dll"]
FUNCS = ["CreateFileA", "WriteFile", "CloseHandle", "GetMenu", "HideCaret", "ExitProcess", "VirtualAlloc",
         "LoadLibraryA", "GetProcAddress", "memcpy", "strlen", "recv", "send", "RegOpenKeyExW", "f", "_x"]


def shards(tier, seed, scale):
    per = 80 if tier == "quick" else 1500
    return common.mk_shards(16, seed, tier, per, scale, salt="c42")


def pad8(name):
    b = name.encode() if isinstance(name, str) else bytes(name)
    return b + b"\x00" * (8 - len(b))


def align_up(x, a):
    return (x + a - 1) & ~(a - 1)


class Model(object):
    """what the harness asked the API for"""

    def __init__(self, wsize):
        self.wsize = wsize
        self.ptr = wsize // 8
        self.sections = []      # dict(name, addr, size, rawsize, offset, flags, data(bytearray rawsize), owned)
        self.imports = []       # [dllname bytes, firstthunk, [funcs]]
        self.exports = None     # dict(name=bytes, funcs=[(name bytes, rva)])
        self.relocs = set()     # (type, rva)
        self.hdr = {}           # "Struct.field" -> value
        self.masks = []         # (rva, len) regions written by directory builders

    def sec_of(self, rva):
        for s in self.sections:
            if s["addr"] <= rva < s["addr"] + s["rawsize"]:
                return s
        return None

    def write(self, rva, data):
        s = self.sec_of(rva)
        s["data"][rva - s["addr"]:rva - s["addr"] + len(data)] = data

    def masked(self, s):
        out = bytearray(s["data"])
        keep = [True] * len(out)
        for rva, ln in self.masks:
            for x in range(max(rva, s["addr"]), min(rva + ln, s["addr"] + len(out))):
                keep[x - s["addr"]] = False
        return out, keep


def rnd_bytes(rng, n):
    if n == 0:
        return b""
    k = rng.random()
    if k < 0.3:
        return bytes([rng.randrange(1, 256)]) * n
    return (bytes(rng.getrandbits(8) for _ in range(64)) * (n // 64 + 1))[:n]


class Abort(Exception):
    """the case cannot go on after a reported failure"""


def add_section(pe, m, rng, rec, name=None, size=None, zero=False, where="fresh"):
    name = name or rng.choice(SEC_NAMES)
    if size is None:
        size = rng.choice([0, 1, 0x10, 0x123, 0x200, 0x3ff, 0x1000, 0x1001, 0x2345, rng.randint(1, 0x3000)])
    data = b"\x00" * size if zero else rnd_bytes(rng, size)
    kw = {}
    s_align = max(0x1000, pe.NThdr.sectionalignment)
    if len(pe.SHList):
        if rng.random() < 0.25:
            last = pe.SHList[-1]
            kw["addr"] = align_up(last.addr + last.size, s_align) + rng.choice([1, 2, 5]) * s_align
    else:
        if rng.random() < 0.7:
            kw["addr"] = rng.choice([1, 1, 2, 3]) * s_align
    if rng.random() < 0.3 or (zero and size):
        kw["rawsize"] = align_up(size, rng.choice([0x200, 0x1000])) if size else rng.choice([0, 0x200])
    if rng.random() < 0.5:
        kw["flags"] = rng.choice([0x60000020, 0xC0000040, 0x40000040, 0xE0000020, 0xC0000080])
    try:
        s = pe.SHList.add_section(name=name, data=data, **kw)
    except Exception as exc:
        rec.fail("add_section raises %s" % type(exc).__name__, repr(exc), dict(name=name, size=size, kw=kw, where=where))
        raise Abort()
    rec.count("api:add_section")
    raw = bytearray(data + b"\x00" * max(0, s.rawsize - len(data)))[:s.rawsize]
    m.sections.append(dict(name=pad8(name), addr=s.addr, size=s.size, rawsize=s.rawsize, offset=s.offset,
                           flags=s.flags, data=raw))
    return s


def gen_imports(rng, m, ndll):
    out = []
    used = set()
    for _ in range(ndll):
        dll = rng.choice(DLLS)
        funcs = []
        for _ in range(rng.randint(1, 12)):
            if rng.random() < 0.3:
                f = rng.randint(1, 0xFFFF)
            else:
                f = (rng.choice(FUNCS) + rng.choice(["", "A", "W", "2", "Ex"])).encode()
            if (dll, f) in used:
                continue
            used.add((dll, f))
            funcs.append(f)
        if funcs:
            out.append((dll, funcs))
    return out


def add_imports(pe, m, rng, rec, where):
    """new import descriptors + a new section that receives the directory"""
    dlls = gen_imports(rng, m, rng.randint(1, 3))
    if not dlls:
        return
    need_thunks = sum((len(f) + 1) * m.ptr for _, f in dlls)
    iat = add_section(pe, m, rng, rec, name=".iat", size=align_up(need_thunks + 0x40, 0x100), zero=True, where=where)
    ft = iat.addr + rng.choice([0, 8, 0x20])
    new_dll = []
    chained = False
    for i, (dll, funcs) in enumerate(dlls):
        explicit = i == 0 or rng.random() < 0.5
        desc = {"name": dll if rng.random() < 0.5 else dll.encode(), "firstthunk": ft if explicit else None}
        chained |= not explicit
        new_dll.append((desc, [f.decode() if isinstance(f, bytes) and rng.random() < 0.5 else f for f in funcs]))
        m.imports.append([dll.encode(), ft, list(funcs)])
        m.masks.append((ft, (len(funcs) + 1) * m.ptr))
        ft += (len(funcs) + 1) * m.ptr
    try:
        pe.DirImport.add_dlldesc(new_dll)
        total = len(pe.DirImport)
        sec = add_section(pe, m, rng, rec, name=".idata", size=align_up(total + 0x10, 0x200), zero=True, where=where)
        pe.DirImport.set_rva(sec.addr)
    except Abort:
        raise
    except Exception as exc:
        rec.fail("import API raises %s (%s)" % (type(exc).__name__, where), repr(exc), dict(dlls=repr(dlls)))
        raise Abort()
    m.masks.append((sec.addr, sec.rawsize))
    rec.count("api:add_dlldesc")
    rec.count("imports:" + where)
    if chained:
        rec.count("imports:chained_firstthunk")


def add_exports(pe, m, rng, rec, where):
    n = rng.randint(1, 8)
    try:
        if m.exports is None:
            dllname = rng.choice(["my.dll", "EXP.DLL", "a"])
            pe.DirExport.create(dllname)
            m.exports = dict(name=dllname.encode(), funcs=[])
        code = [s for s in m.sections if s["rawsize"] >= 0x10] or m.sections
        for _ in range(n):
            name = (rng.choice(FUNCS) + str(rng.randint(0, 999))).encode()
            if any(name == f[0] for f in m.exports["funcs"]):
                continue
            s = rng.choice(code)
            rva = s["addr"] + rng.randrange(max(1, s["rawsize"]))
            pe.DirExport.add_name(name, rva)
            m.exports["funcs"].append((name, rva))
        total = len(pe.DirExport)
        sec = add_section(pe, m, rng, rec, name=".edata", size=align_up(total + 0x10, 0x200), zero=True, where=where)
        pe.DirExport.set_rva(sec.addr)
    except Abort:
        raise
    except Exception as exc:
        rec.fail("export API raises %s (%s)" % (type(exc).__name__, where), repr(exc), dict(n=n))
        raise Abort()
    m.masks.append((sec.addr, sec.rawsize))
    rec.count("api:export_add_name")
    rec.count("exports:" + where)


def add_relocs(pe, m, rng, rec, where):
    cands = [s for s in m.sections if s["rawsize"] >= 8 and s["name"] not in (pad8(".idata"), pad8(".edata"), pad8(".reloc"), pad8(".iat"))]
    if not cands:
        return
    rtype = 3
    if m.wsize == 64 and rng.random() < 0.15:
        rtype = 10
    slots = set()
    for _ in range(rng.randint(1, 40)):
        s = rng.choice(cands[:3])
        step = 8 if rtype == 10 else 4
        off = rng.randrange(0, (s["rawsize"] - step) // step + 1) * step
        if rng.random() < 0.1:
            off = ((s["rawsize"] - step) // step) * step
        rva = s["addr"] + off
        if any(r == rva for _, r in m.relocs):
            continue
        slots.add(rva)
    slots = sorted(slots)
    if not slots:
        return
    try:
        if pe.DirReloc.reldesc is None:
            # no API creates an empty relocation directory
            pe.DirReloc.reldesc = []
            pe.NThdr.optentries[5].size = 0
        pe.DirReloc.add_reloc(list(slots), rtype=rtype)
        total = len(pe.DirReloc)
        sec = add_section(pe, m, rng, rec, name=".reloc", size=align_up(total + 0x10, 0x200), zero=True, where=where)
        pe.DirReloc.set_rva(sec.addr)
    except Abort:
        raise
    except Exception as exc:
        rec.fail("relocation API raises %s (%s)" % (type(exc).__name__, where), repr(exc), dict(n=len(slots)))
        raise Abort()
    for rva in slots:
        m.relocs.add((rtype, rva))
    m.masks.append((sec.addr, sec.rawsize))
    rec.count("api:add_reloc")
    rec.count("relocs:" + where)
    rec.count("reloc_type:%d" % rtype)


HDR_FIELDS = [("NThdr", "ImageBase"), ("Opthdr", "AddressOfEntryPoint"), ("NThdr", "subsystem"),
              ("NThdr", "dllcharacteristics"), ("NThdr", "sizeofstackreserve"), ("NThdr", "sizeofheapcommit"),
              ("Coffhdr", "timedatestamp"), ("Coffhdr", "characteristics"), ("Opthdr", "majorlinkerversion"),
              ("NThdr", "MajorImageVersion"), ("NThdr", "loaderflags"), ("Opthdr", "SizeOfCode"),
              ("Doshdr", "cblp"), ("Doshdr", "oemid")]


DOS_OFF = {"cblp": 2, "oemid": 36}


def set_headers(pe, m, rng, rec, where, n):
    for st, f in rng.sample(HDR_FIELDS, n):
        if f == "ImageBase":
            v = rng.choice([0x400000, 0x10000000, 0x1000000, 0x140000000 if m.wsize == 64 else 0x70000000,
                            rng.randrange(0x10000, 0x7FFF0000, 0x10000)])
        elif f == "AddressOfEntryPoint":
            s = rng.choice(m.sections)
            v = s["addr"] + rng.randrange(max(1, s["rawsize"]))
        elif f in ("subsystem", "majorlinkerversion", "MajorImageVersion", "cblp", "oemid"):
            v = rng.randint(0, 255) if f == "majorlinkerversion" else rng.randint(0, 0xFFFF)
        elif f in ("dllcharacteristics", "characteristics"):
            v = rng.choice([0x8000, 0x8140, 0x102, 0x2102, 0x22, 0x10f])
        elif f in ("sizeofstackreserve", "sizeofheapcommit"):
            v = rng.choice([0x1000, 0x100000, 0x200000, (1 << m.wsize) - 0x1000])
        else:
            v = rng.getrandbits(32)
        try:
            setattr(getattr(pe, st), f, v)
        except Exception as exc:
            rec.fail("header attribute raises %s" % type(exc).__name__, "%s.%s" % (st, f), dict(where=where))
            raise Abort()
        m.hdr["%s.%s" % (st, f)] = v
        rec.count("api:header_field")


# ------------------------------------------------------------------ comparison with the model

def compare(pe, m, rec, stage, wit):
    """pe: freshly parsed image; m: model"""
    ok = True

    def bad(key, what, extra=None):
        nonlocal ok
        ok = False
        w = dict(wit, stage=stage)
        if extra:
            w.update(extra)
        rec.fail(key, what, w)

    try:
        if pe._wsize != m.wsize:
            bad("word size changes over a round trip", "%d -> %d" % (m.wsize, pe._wsize))
            return False
        # ---- sections
        if len(pe.SHList) != len(m.sections) or pe.Coffhdr.numberofsections != len(m.sections):
            bad("number of sections differs after round trip", "%d vs %d" % (len(pe.SHList), len(m.sections)))
            return False
        hdr_end = pe.Doshdr.lfanew + 4 + 20 + pe.Coffhdr.sizeofoptionalheader + 40 * len(m.sections)
        if any(ms["rawsize"] and ms["offset"] < hdr_end for ms in m.sections):
            # the image overlaps itself: whatever is written last (headers, section data or a
            # directory) wins; nothing else can be expected from this image
            rec.count("layout:section_data_overlaps_header_table")
            bad("raw data of the first section overlaps the section header table "
                "(add_section leaves room for one section header only)",
                "first raw offset %#x, headers of %d sections end at %#x" % (
                    min(ms["offset"] for ms in m.sections if ms["rawsize"]), len(m.sections), hdr_end),
                dict(filealignment=pe.NThdr.filealignment, nsections=len(m.sections)))
            return False
        for i, (s, ms) in enumerate(zip(pe.SHList, m.sections)):
            for f in ("addr", "size", "rawsize", "offset", "flags"):
                if getattr(s, f) != ms[f]:
                    bad("section header field %s differs after round trip" % f,
                        "section %d: %#x, model %#x" % (i, getattr(s, f), ms[f]))
            if bytes(s.name) != ms["name"]:
                bad("section name differs after round trip", "%r vs %r" % (bytes(s.name), ms["name"]))
            got = bytes(s.data)[:ms["rawsize"]]
            want, keep = m.masked(ms)
            if len(got) < len(want):
                got = got + b"\x00" * (len(want) - len(got))
            diff = [k for k in range(len(want)) if keep[k] and got[k] != want[k]]
            rec.count("section_data_compared")
            if diff:
                bad("section raw data differs after round trip",
                    "section %d (%r) first difference at +%#x of %#x" % (i, ms["name"], diff[0], ms["rawsize"]),
                    dict(got=got[diff[0]:diff[0] + 8].hex(), want=bytes(want[diff[0]:diff[0] + 8]).hex()))
        # ---- header fields
        for k, v in sorted(m.hdr.items()):
            st, f = k.split(".")
            got = getattr(getattr(pe, st), f)
            rec.count("header_field_compared")
            if got != v:
                tls_len = 4 * m.ptr + 8
                if st == "Doshdr" and DOS_OFF[f] + 2 <= tls_len and stage != "PE(bytes(fresh image))" and \
                        not pe.NThdr.optentries[9].rva:
                    bad("DOS header field changed on a parsed image is reverted by build_content "
                        "(image without TLS directory)", "%s = %#x, model %#x" % (k, got, v))
                else:
                    bad("header field %s differs after round trip" % k, "%#x, model %#x" % (got, v))
        last = m.sections[-1]
        sa = pe.NThdr.sectionalignment
        if pe.NThdr.sizeofimage != align_up(last["addr"] + last["size"], sa):
            bad("SizeOfImage is not the aligned end of the last section", "%#x" % pe.NThdr.sizeofimage)
        # ---- imports
        got = pe.DirImport.get_dlldesc() if pe.DirImport.impdesc else []
        got = [[d["name"], d["firstthunk"], list(funcs)] for d, funcs in got]
        if got != m.imports:
            k = "import table differs after round trip"
            if len(got) == len(m.imports):
                if [g[0] for g in got] != [w[0] for w in m.imports]:
                    k += ": dll names"
                elif [g[1] for g in got] != [w[1] for w in m.imports]:
                    k += ": FirstThunk"
                else:
                    k += ": function list"
            else:
                k += ": number of descriptors"
            bad(k, "parsed %r" % got[:2], dict(model=repr(m.imports[:2])))
        elif m.imports:
            rec.count("imports_compared")
            for dll, ft, funcs in m.imports:
                for f in funcs:
                    if not isinstance(f, bytes):
                        continue
                    # get_funcrva answers for the first descriptor of that dll holding the name
                    want = None
                    for dll2, ft2, funcs2 in m.imports:
                        if dll2.lower() == dll.lower() and f in funcs2:
                            want = ft2 + funcs2.index(f) * m.ptr
                            break
                    r = pe.DirImport.get_funcrva(dll, f)
                    rec.count("get_funcrva_compared")
                    if r != want:
                        bad("get_funcrva disagrees with the import table",
                            "%r!%r -> %r, thunk slot at %#x" % (dll, f, r, want))
        # ---- exports
        if m.exports is not None:
            de = pe.DirExport
            if de.expdesc is None:
                bad("export directory lost after round trip", "expdesc is None")
            else:
                rec.count("exports_compared")
                if de.dlldescname.name != m.exports["name"]:
                    bad("export dll name differs after round trip", repr(de.dlldescname.name))
                if de.expdesc.numberoffunctions != len(m.exports["funcs"]) or \
                        de.expdesc.numberofnames != len(m.exports["funcs"]):
                    bad("export counts differ after round trip", "%d/%d vs %d" % (
                        de.expdesc.numberoffunctions, de.expdesc.numberofnames, len(m.exports["funcs"])))
                names = [bytes(x.name.name) for x in de.f_names]
                if names != sorted(n for n, _ in m.exports["funcs"]):
                    bad("export name table differs after round trip", repr(names[:4]))
                allf = pe.export_funcs()
                for idx, (name, rva) in enumerate(m.exports["funcs"]):
                    if de.get_funcrva(name) != rva:
                        bad("exported function address differs after round trip",
                            "%r -> %r, model %#x" % (name, de.get_funcrva(name), rva))
                    elif allf.get(name) != rva + pe.NThdr.ImageBase or \
                            allf.get(idx + de.expdesc.base) != rva + pe.NThdr.ImageBase:
                        bad("export_funcs disagrees with the export table", "%r" % name)
        elif pe.DirExport.expdesc is not None:
            bad("export directory appears after round trip", "")
        # ---- relocations
        got = set()
        if pe.DirReloc.reldesc:
            for rel in pe.DirReloc.reldesc:
                for r in rel.rels:
                    t, off = r.rel
                    if t == 0 and off == 0:
                        continue
                    got.add((t, rel.rva + off))
        if got != m.relocs:
            bad("relocation set differs after round trip",
                "missing %r extra %r" % (sorted(m.relocs - got)[:3], sorted(got - m.relocs)[:3]))
        elif m.relocs:
            rec.count("relocs_compared")
    except Exception as exc:
        bad("comparison of the parsed image raises %s" % type(exc).__name__, repr(exc))
    return ok


def address_laws(pe, m, rng, rec, stage, wit):
    base = pe.NThdr.ImageBase
    fa = pe.NThdr.filealignment
    for ms in m.sections:
        if ms["rawsize"] == 0:
            continue
        pts = set([0, ms["rawsize"] - 1, ms["rawsize"] // 2] + [rng.randrange(ms["rawsize"]) for _ in range(4)])
        for d in pts:
            rva = ms["addr"] + d
            rec.count("address_law_points")
            try:
                off = pe.rva2off(rva)
                back = pe.off2rva(off)
                v = pe.rva2virt(rva)
                r2 = pe.virt2rva(v)
                o2 = pe.virt2off(v)
                v2 = pe.off2virt(off)
            except Exception as exc:
                rec.fail("address conversion raises %s" % type(exc).__name__, "rva %#x: %r" % (rva, exc),
                         dict(wit, stage=stage))
                return
            want_off = ms["offset"] + d
            if off != want_off:
                rec.fail("rva2off is not section offset + delta", "rva2off(%#x) = %#x, section at file %#x rva %#x" % (
                    rva, off, ms["offset"], ms["addr"]), dict(wit, stage=stage, filealignment=fa))
            elif back != rva:
                rec.fail("off2rva(rva2off(x)) != x inside a section", "x=%#x -> off %#x -> %r" % (rva, off, back),
                         dict(wit, stage=stage))
            if v != base + rva or r2 != rva:
                rec.fail("virt2rva/rva2virt are not inverse", "rva %#x -> %#x -> %r" % (rva, v, r2), dict(wit, stage=stage))
            if o2 != off or v2 != v:
                rec.fail("virt2off/off2virt disagree with rva2off/off2rva", "rva %#x" % rva, dict(wit, stage=stage))
    if pe.virt2rva(base - 1) is not None and base > 0:
        rec.fail("virt2rva below ImageBase is not None", "%r" % pe.virt2rva(base - 1), dict(wit, stage=stage))


def virt_writes(pe, m, rng, rec, wit, persistent=True):
    base = pe.NThdr.ImageBase
    cands = [s for s in m.sections if s["rawsize"] > 0 and
             s["name"] not in (pad8(".idata"), pad8(".edata"), pad8(".reloc"), pad8(".iat"))]
    if not cands:
        return
    for _ in range(rng.randint(1, 6)):
        ms = rng.choice(cands)
        ln = rng.randint(1, min(32, ms["rawsize"]))
        d = rng.randrange(0, ms["rawsize"] - ln + 1)
        if rng.random() < 0.2:
            d = ms["rawsize"] - ln
        # keep clear of thunks and relocated slots
        lo, hi = ms["addr"] + d, ms["addr"] + d + ln
        if any(lo < r + l and r < hi for r, l in m.masks) or any(lo < r + 8 and r < hi for _, r in m.relocs):
            continue
        data = bytes(rng.getrandbits(8) for _ in range(ln))
        try:
            before_lo = pe.virt.get(base + lo - 1, base + lo) if d > 0 else b""
            pe.virt.set(base + lo, data)
            got = pe.virt.get(base + lo, base + hi)
            after_lo = pe.virt.get(base + lo - 1, base + lo) if d > 0 else b""
            got_rva = pe.rva.get(lo, hi)
        except Exception as exc:
            rec.fail("virt.set/get raises %s" % type(exc).__name__, repr(exc), dict(wit, rva=hex(lo), len=ln))
            return
        rec.count("virt_write_readback")
        if got != data or got_rva != data:
            rec.fail("virt.set then virt.get returns other bytes", "at rva %#x len %d" % (lo, ln), dict(wit, rva=hex(lo)))
        if before_lo != after_lo:
            rec.fail("virt.set changes the byte before the written range", "at rva %#x" % lo, dict(wit, rva=hex(lo)))
        if persistent:
            m.write(lo, data)


def relocate(pe, m, rng, rec, wit):
    """reloc_to on a parsed image; returns the new base or None"""
    old = pe.NThdr.ImageBase
    slots3 = sorted(r for t, r in m.relocs if t == 3)
    other = [t for t, r in m.relocs if t != 3]
    # give the slots meaningful values: pointers into the image
    for rva in slots3:
        if rng.random() < 0.7:
            tgt = rng.choice(m.sections)
            val = (old + tgt["addr"] + rng.randrange(0, max(1, tgt["size"]))) & 0xFFFFFFFF
            try:
                pe.virt.set(old + rva, struct.pack("<I", val))
            except Exception as exc:
                rec.fail("virt.set/get raises %s" % type(exc).__name__, repr(exc), dict(wit, rva=hex(rva)))
                return None
            m.write(rva, struct.pack("<I", val))
    new = rng.choice([0x10000000, 0x1000000, 0x400000, 0x70000000, 0x10000, old + 0x10000, max(0x10000, old - 0x10000),
                      0xFFFF0000 if m.wsize == 32 else 0x180000000])
    if new == old:
        new = old + 0x20000
    before = bytes(pe.img_rva)
    try:
        pe.reloc_to(new)
    except NotImplementedError:
        rec.count("reloc_to:unsupported_type")
        if not other:
            rec.fail("reloc_to raises NotImplementedError with HIGHLOW relocations only", "", wit)
        return None
    except Exception as exc:
        rec.fail("reloc_to raises %s" % type(exc).__name__, repr(exc), wit)
        return None
    rec.count("reloc_to")
    after = bytes(pe.img_rva)
    delta = new - old
    if pe.NThdr.ImageBase != new:
        rec.fail("reloc_to does not set ImageBase", "%#x" % pe.NThdr.ImageBase, wit)
        return None
    m.hdr["NThdr.ImageBase"] = new
    expect = bytearray(before)
    for rva in slots3:
        v = struct.unpack_from("<I", before, rva)[0]
        struct.pack_into("<I", expect, rva, (v + delta) & 0xFFFFFFFF)
        rec.count("reloc_slots_checked")
    if len(after) != len(expect):
        rec.fail("reloc_to changes the size of the image", "%d -> %d" % (len(before), len(after)), wit)
        return None
    if after != bytes(expect):
        first = next(i for i in range(len(after)) if after[i] != expect[i])
        slot = [r for r in slots3 if r <= first < r + 4]
        if slot:
            v = struct.unpack_from("<I", before, slot[0])[0]
            got = struct.unpack_from("<I", after, slot[0])[0]
            rec.fail("reloc_to: relocated value is not old value + base difference",
                     "slot %#x: %#x -> %#x, delta %#x" % (slot[0], v, got, delta & 0xFFFFFFFFFFFFFFFF),
                     dict(wit, old=hex(old), new=hex(new)))
        else:
            rec.fail("reloc_to changes bytes that are not relocated", "rva %#x" % first,
                     dict(wit, old=hex(old), new=hex(new)))
        return None
    for rva in slots3:
        m.write(rva, bytes(expect[rva:rva + 4]))
    return new


# ------------------------------------------------------------------ one case

def one_case(rng, rec, case_no):
    from miasm.loader.pe_init import PE
    wsize = rng.choice([32, 64])
    fa = rng.choice([0x1000, 0x1000, 0x200, 0x400])
    sa = rng.choice([0x1000, 0x1000, 0x1000, 0x2000, 0x10000])
    m = Model(wsize)
    wit = dict(wsize=wsize, filealignment=fa, sectionalignment=sa)
    rec.ev()
    try:
        pe = PE(wsize=wsize)
        pe.NThdr.filealignment = fa
        pe.NThdr.sectionalignment = sa
    except Exception as exc:
        rec.fail("PE() raises %s" % type(exc).__name__, repr(exc), wit)
        return
    m.hdr["NThdr.filealignment"] = fa
    m.hdr["NThdr.sectionalignment"] = sa
    rec.count("wsize:%d" % wsize)
    rec.count("filealignment:%#x" % fa)
    rec.count("sectionalignment:%#x" % sa)
    mix = []
    try:
        nsec = rng.choice([1, 1, 2, 2, 3, 4, 6])
        for _ in range(nsec):
            add_section(pe, m, rng, rec)
        if rng.random() < 0.6:
            add_imports(pe, m, rng, rec, "fresh")
            mix.append("imp")
        if rng.random() < 0.5:
            add_exports(pe, m, rng, rec, "fresh")
            mix.append("exp")
        if rng.random() < 0.6:
            add_relocs(pe, m, rng, rec, "fresh")
            mix.append("rel")
        set_headers(pe, m, rng, rec, "fresh", rng.randint(0, 6))
        wit["sections"] = [(s["name"].rstrip(b"\0").decode(), hex(s["addr"]), hex(s["size"]), hex(s["offset"]),
                            hex(s["rawsize"])) for s in m.sections]
        wit["mix"] = list(mix)
        address_laws(pe, m, rng, rec, "fresh image", wit)
        virt_writes(pe, m, rng, rec, dict(wit, stage="fresh image"))
        # ---- first round trip
        try:
            raw1 = bytes(pe)
            q = PE(raw1)
        except Exception as exc:
            rec.fail("build/parse raises %s (fresh image)" % type(exc).__name__, repr(exc), wit)
            return
        rec.count("roundtrip:fresh")
        if not compare(q, m, rec, "PE(bytes(fresh image))", wit):
            return
        address_laws(q, m, rng, rec, "parsed image", wit)
        # re-serialising an unmodified parsed image gives an image with the same structures
        try:
            q_again = PE(bytes(q))
        except Exception as exc:
            rec.fail("build/parse raises %s (unmodified parsed image)" % type(exc).__name__, repr(exc), wit)
            return
        rec.count("roundtrip:unmodified_parsed")
        if not compare(q_again, m, rec, "PE(bytes(PE(bytes(fresh))))", wit):
            return
        # ---- modifications of the parsed image
        mods = []
        virt_writes(q, m, rng, rec, dict(wit, stage="parsed image"))
        if rng.random() < 0.5:
            add_section(q, m, rng, rec, where="parsed")
            mods.append("sec")
        if rng.random() < 0.45:
            add_imports(q, m, rng, rec, "parsed")
            mods.append("imp")
        if rng.random() < 0.35:
            add_exports(q, m, rng, rec, "parsed")
            mods.append("exp")
        if rng.random() < 0.45:
            add_relocs(q, m, rng, rec, "parsed")
            mods.append("rel")
        if rng.random() < 0.7:
            set_headers(q, m, rng, rec, "parsed", rng.randint(1, 5))
            mods.append("hdr")
        wit["mods"] = mods
        wit["sections"] = [(s["name"].rstrip(b"\0").decode(), hex(s["addr"]), hex(s["size"]), hex(s["offset"]),
                            hex(s["rawsize"])) for s in m.sections]
        try:
            raw2 = bytes(q)
            r = PE(raw2)
        except Exception as exc:
            rec.fail("build/parse raises %s (modified parsed image)" % type(exc).__name__, repr(exc), wit)
            return
        rec.count("roundtrip:modified_parsed")
        for x in mods:
            rec.count("modified:" + x)
        rec.distinct("%d/%x/%x/%d/%s/%s" % (wsize, fa, sa, len(m.sections), "".join(mix), "".join(mods)))
        if case_no < 2:
            rec.sample(dict(wit, imports=len(m.imports), exports=len(m.exports["funcs"]) if m.exports else 0,
                            relocs=len(m.relocs), size=len(raw2)))
        if not compare(r, m, rec, "PE(bytes(modified parsed image))", wit):
            return
        address_laws(r, m, rng, rec, "re-parsed image", wit)
        # ---- relocation
        if m.relocs:
            new = relocate(r, m, rng, rec, wit)
            if new is not None:
                try:
                    t = PE(bytes(r))
                except Exception as exc:
                    rec.fail("build/parse raises %s (relocated image)" % type(exc).__name__, repr(exc), wit)
                    return
                rec.count("roundtrip:relocated")
                compare(t, m, rec, "PE(bytes(relocated image))", wit)
    except Abort:
        return


def run_shard(params, rec):
    common.quiet()
    common.limit_memory(4)
    rng = common.rng_for(params)
    for i in range(params["n"]):
        one_case(rng, rec, i)


def floors(tier, counters, evaluations):
    miss = []
    q = tier == "quick"
    need = {"roundtrip:fresh": 300 if q else 8000, "roundtrip:modified_parsed": 250 if q else 7000,
            "roundtrip:relocated": 60 if q else 2000, "wsize:32": 100, "wsize:64": 100,
            "imports_compared": 150, "exports_compared": 100, "relocs_compared": 100,
            "imports:parsed": 40, "exports:parsed": 30, "relocs:parsed": 40, "modified:sec": 60,
            "modified:hdr": 100, "address_law_points": 5000, "virt_write_readback": 500,
            "reloc_slots_checked": 500, "section_data_compared": 2000, "header_field_compared": 2000,
            "imports:chained_firstthunk": 30}
    for k, v in sorted(need.items()):
        if counters.get(k, 0) < v:
            miss.append("%s = %d < %d" % (k, counters.get(k, 0), v))
    return miss
