"""C09 possible-values enumeration covers exactly the concrete value.

For an expression with nested conditionals and a concrete valuation: at least
one alternative of possible_values() has all its path constraints true, and
every alternative whose constraints are all true evaluates (refsem) to the
value of the expression.  A constraint is judged by its class (expr == 0 /
expr != 0); its to_constraint() form must say the same.
"""
from vf import common

CHECK = dict(
    id="C09", level="exploration",
    rule=("expressions with conditionals nested in operator operands, slices, compositions, memory "
          "pointers, branches and conditions of other conditionals (directed containers around random "
          "trees, depth<=4, widths 1..128, at most 64 alternatives by the monitor's own count), "
          "ExprAssign wrappers; 6 valuations each (all-zero, boundary, random); distinct = distinct "
          "alpha-renamed shapes"),
    assumptions=["refsem.py defines the value of expressions, constraint expressions and alternatives",
                 "valuations on which the expression divides by zero are skipped; an alternative with an "
                 "undefined constraint is not judged (the alternative of the taken path never is)",
                 "an ExprAssign stands for the value of its source"],
    timeout={"quick": 900, "thorough": 5400},
    technique="runtime monitoring: reference-semantics oracle on every ConstrainedValue",
)

MAX_ALTS = 64
CONTAINERS = ["op", "slice", "compose", "mem", "cond_branch", "cond_condition", "assign"]


def shards(tier, seed, scale):
    per = 1300 if tier == "quick" else 32000
    return common.mk_shards(16, seed, tier, per, scale)


def run_shard(params, rec):
    common.quiet()
    common.limit_memory(4)
    from miasm.expression import expression as m2
    from miasm.expression import expression_helper as helper
    from vf import refsem, exprgen
    from vf.models import c08_exprs as X

    rng = common.rng_for(params)
    g = exprgen.Gen(rng, max_width=128, pow_op=False)
    g_nocond = exprgen.Gen(rng, max_width=128, pow_op=False, cond=False)

    def cond(n, d):
        c = g.expr(g.width() if rng.random() < 0.6 else 1, d)
        if rng.random() < 0.25:
            # a conditional inside the condition (kept whole in the constraint)
            c = m2.ExprCond(g_nocond.expr(g.width(), d), g_nocond.expr(c.size, d), c)
        a = g_nocond.expr(n, d) if rng.random() < 0.7 else cond(n, max(0, d - 1))
        b = g_nocond.expr(n, d) if rng.random() < 0.7 else cond(n, max(0, d - 1))
        return m2.ExprCond(c, a, b)

    def directed():
        n = g.width()
        d = rng.choice([0, 1, 1, 2])
        k = rng.random()
        if k < 0.18:
            op = rng.choice(exprgen.ASSOC + ['-', '>>', '<<', 'a>>', '<<<'])
            args = [cond(n, d), cond(n, d) if rng.random() < 0.6 else g_nocond.expr(n, d)]
            if op in exprgen.ASSOC and rng.random() < 0.3:
                args.append(cond(n, 0))
            rng.shuffle(args)
            return m2.ExprOp(op, *args)
        if k < 0.28:
            op = rng.choice(exprgen.CMPS + ['FLAG_SUB_CF', 'FLAG_ADD_OF', 'parity'])
            if op == 'parity':
                return m2.ExprOp(op, cond(n, d))
            return m2.ExprOp(op, cond(n, d), cond(n, d) if rng.random() < 0.5 else g.int_(n))
        if k < 0.40:
            m = max(n, 2)
            start = rng.randrange(0, m)
            stop = rng.randrange(start + 1, m + 1)
            inner = cond(m, d)
            if rng.random() < 0.4:
                inner = m2.ExprOp(rng.choice(['+', '^', '&']), inner, cond(m, 0))
            return m2.ExprSlice(inner, start, stop)
        if k < 0.55:
            parts = [cond(rng.choice([1, 3, 8, 16]), d) if rng.random() < 0.7 else g_nocond.expr(8, d)
                     for _ in range(rng.choice([1, 2, 3]))]
            if not any(p.is_cond() for p in parts):
                parts.append(cond(8, d))
            return m2.ExprCompose(*parts)
        if k < 0.68:
            pw = rng.choice([16, 32, 64])
            ptr = cond(pw, d)
            if rng.random() < 0.4:
                ptr = m2.ExprOp('+', ptr, g.int_(pw))
            return m2.ExprMem(ptr, rng.choice([8, 16, 32, 64]))
        if k < 0.80:
            return cond(n, d + 1)
        if k < 0.88:
            # zero/sign extension and nested containers
            inner = m2.ExprCompose(cond(8, d), m2.ExprMem(cond(32, 0), 8))
            return m2.ExprOp(rng.choice(['zeroExt_32', 'signExt_32']), inner)
        return g.expr(n, rng.choice([2, 3, 4]))

    def n_alts(e):
        """the monitor's own count of alternatives"""
        c = e.__class__
        if c is m2.ExprCond:
            return n_alts(e.src1) + n_alts(e.src2)
        if c is m2.ExprSlice:
            return n_alts(e.arg)
        if c is m2.ExprMem:
            return n_alts(e.ptr)
        if c is m2.ExprAssign:
            return n_alts(e.src)
        if c is m2.ExprOp or c is m2.ExprCompose:
            r = 1
            for a in e.args:
                r *= n_alts(a)
                if r > 1 << 20:
                    break
            return r
        return 1

    def splitting_conds(e, ctx, out):
        """(conditional, kinds of the containers above it) for every conditional
        that splits the enumeration"""
        c = e.__class__
        if c is m2.ExprCond:
            out.append(ctx)
            splitting_conds(e.src1, ctx | {"cond_branch"}, out)
            splitting_conds(e.src2, ctx | {"cond_branch"}, out)
            # conditionals in the condition do not split; they are seen through the constraint
            if any(s.__class__ is m2.ExprCond for s in X.subterms(e.cond)):
                out.append(ctx | {"cond_condition"})
        elif c is m2.ExprSlice:
            splitting_conds(e.arg, ctx | {"slice"}, out)
        elif c is m2.ExprMem:
            splitting_conds(e.ptr, ctx | {"mem"}, out)
        elif c is m2.ExprAssign:
            splitting_conds(e.src, ctx | {"assign"}, out)
        elif c is m2.ExprOp:
            for a in e.args:
                splitting_conds(a, ctx | {"op"}, out)
        elif c is m2.ExprCompose:
            for a in e.args:
                splitting_conds(a, ctx | {"compose"}, out)

    def valuation(ids, k, seed):
        vals = {}
        for i in ids:
            if k == 0:
                v = 0
            elif k < 3:
                v = rng.choice(exprgen.boundary_values(i.size))
            elif k == 3:
                v = rng.choice([0, 1, rng.getrandbits(i.size)])
            else:
                v = rng.getrandbits(i.size)
            vals[i] = v
        return refsem.Env(ids=vals, seed=seed)

    def envd(env):
        return dict(ids={str(k): hex(v) for k, v in env.ids.items()}, mem_seed=env.seed)

    for i in range(params["n"]):
        e = directed()
        if rng.random() < 0.06:
            dst = m2.ExprId("dst%d" % e.size, e.size) if rng.random() < 0.6 else \
                m2.ExprMem(cond(32, 0), e.size)
            e = m2.ExprAssign(dst, e)
        value_expr = e.src if e.is_assign() else e
        rec.ev()
        total = n_alts(e)
        if total > MAX_ALTS:
            rec.count("too_many_alternatives_skipped")
            continue
        ctxs = []
        splitting_conds(e, frozenset(), ctxs)
        nconds = len(ctxs)
        rec.count("conditionals:%s" % (nconds if nconds < 6 else ">=6"))
        if nconds >= 2:
            rec.count("cases_with_2_or_more_conditionals")
        for kind in set().union(*ctxs) if ctxs else ():
            rec.count("container:" + kind)
        rec.count("top:" + e.__class__.__name__)
        try:
            alts = list(helper.possible_values(e))
        except Exception as exc:
            rec.fail("possible_values raises %s (%s)" % (type(exc).__name__, e.__class__.__name__),
                     "possible_values(%s) raised %r" % (common.short(e), exc), dict(expr=repr(e)))
            continue
        rec.count("enumerated")
        rec.count("alternatives", len(alts))
        if exprgen.nontrivial(e):
            rec.distinct(exprgen.shape(e))
        bad_shape = False
        for alt in alts:
            if not (hasattr(alt, "constraints") and hasattr(alt, "value") and
                    isinstance(alt.value, m2.Expr) and alt.value.size == value_expr.size):
                rec.fail("alternative is not a value of the expression's width",
                         "possible_values(%s) contains %r" % (common.short(e), alt), dict(expr=repr(e)))
                bad_shape = True
                break
        if bad_shape:
            continue
        ids = X.plain_ids(e)
        judged = 0
        for k in range(6):
            env = valuation(ids, k, i * 8 + k)
            try:
                want = refsem.evaluate(value_expr, env)
            except refsem.Undef:
                rec.count("undef_skipped")
                continue
            except refsem.Unsupported:
                rec.count("refsem_unsupported")
                break
            judged += 1
            rec.count("valuations_judged")
            satisfied = 0
            failed = False
            for alt in alts:
                holds = True
                for c in alt.constraints:
                    try:
                        v = refsem.evaluate(c.expr, env)
                    except (refsem.Undef, refsem.Unsupported):
                        holds = None
                        break
                    if isinstance(c, helper.CondConstraintNotZero):
                        h = v != 0
                    elif isinstance(c, helper.CondConstraintZero):
                        h = v == 0
                    else:
                        rec.fail("unknown constraint class %s" % type(c).__name__, repr(c), dict(expr=repr(e)))
                        holds = None
                        break
                    rec.count("constraints_evaluated")
                    # the expression form of the constraint must say the same
                    try:
                        tc = c.to_constraint()
                        th = refsem.evaluate(tc.dst, env) == refsem.evaluate(tc.src, env)
                        if th != h:
                            rec.fail("to_constraint disagrees with %s" % type(c).__name__,
                                     "%r holds=%s but %s holds=%s" % (c, h, tc, th),
                                     dict(expr=repr(e), constraint=repr(c.expr), env=envd(env)))
                    except (refsem.Undef, refsem.Unsupported):
                        pass
                    except Exception as exc:
                        rec.fail("to_constraint raises %s (%s)" % (type(exc).__name__, type(c).__name__),
                                 "%r.to_constraint() raised %r" % (c, exc), dict(constraint=repr(c.expr)))
                    if not h:
                        holds = False
                        break
                if holds is None:
                    rec.count("alternative_with_undefined_constraint")
                    continue
                if not holds:
                    continue
                satisfied += 1
                rec.count("alternatives_satisfied")
                try:
                    got = refsem.evaluate(alt.value, env)
                except refsem.Undef:
                    got = "undefined"
                except refsem.Unsupported:
                    rec.count("refsem_unsupported")
                    continue
                if got != want:
                    top = e.__class__.__name__
                    rec.fail("satisfied alternative has another value (top=%s)" % top,
                             "%s: alternative %s under %s gives %s, expression gives 0x%x" % (
                                 common.short(e), common.short(alt.value),
                                 sorted(repr(c) for c in alt.constraints)[:6], got if got == "undefined" else hex(got), want),
                             dict(expr=repr(e), alternative=repr(alt.value),
                                  constraints=sorted(repr(c) for c in alt.constraints), env=envd(env),
                                  got=got if got == "undefined" else hex(got), want=hex(want)))
                    failed = True
                    break
            if failed:
                break
            if satisfied == 0:
                rec.fail("no alternative satisfied (top=%s)" % e.__class__.__name__,
                         "%s: none of the %d alternatives has all constraints true" % (common.short(e), len(alts)),
                         dict(expr=repr(e), env=envd(env), want=hex(want),
                              alternatives=[(sorted(repr(c) for c in a.constraints), str(a.value)[:200])
                                            for a in alts[:8]]))
                break
            if satisfied > 1:
                rec.count("valuations_with_several_satisfied_alternatives")
        if judged and i % 200 == 0:
            rec.sample(dict(expr=str(e)[:300], alternatives=len(alts), conditionals=nconds), limit=6)


def floors(tier, counters, evaluations):
    miss = []
    enum = counters.get("enumerated", 0)
    if enum < 0.5 * evaluations:
        miss.append("fewer than half of the cases were enumerated")
    if counters.get("cases_with_2_or_more_conditionals", 0) < 0.3 * evaluations:
        miss.append("fewer than 30%% of the cases have >= 2 nested conditionals (%d of %d)" % (
            counters.get("cases_with_2_or_more_conditionals", 0), evaluations))
    for kind in CONTAINERS:
        if counters.get("container:" + kind, 0) < 200:
            miss.append("conditional under container kind %s seen %d times (<200)" % (
                kind, counters.get("container:" + kind, 0)))
    if counters.get("valuations_judged", 0) < 3 * enum:
        miss.append("fewer than 3 judged valuations per enumerated case")
    if counters.get("alternatives_satisfied", 0) < counters.get("valuations_judged", 0):
        miss.append("fewer satisfied alternatives than judged valuations")
    return miss
