"""C31 recursive disassembly yields a well-formed control-flow graph.

Oracle: independent single-instruction re-decoding (mn.dis at every line
offset) and the flow predicates of the decoded instructions; the CFG returned by
disasmEngine.dis_multiblock is compared with what those say:

 * decode     every block is a consecutive chain of instructions equal to mn.dis
              at their offsets, starting at the block's address
 * unique     no instruction address in two blocks
 * heads      every constraint destination that is an instruction address of a
              block is a block head (and, without blocs_wd, owns a block)
 * successors bto == decoded direct destinations (+ call targets only with
              follow_call) + fall-through; graph edges mirror bto.  The rule is applied
              per block as produced by _dis_block: when apply_splitting cut it, every
              piece but the last falls through to the next piece and the last piece
              carries the flow (identical to the per-block rule without delay slots; a
              jump into a delay slot leaves the branch's destinations on the delay-slot
              piece, the order of execution)
              [weakened on purpose: the fall-through of a block cut by lines_wd
              is optional]
 * options    dont_dis never decoded, split_dis starts blocks, lines_wd and
              blocs_wd respected (a branch is never separated from its delay slots:
              split_dis on a delay-slot address is ignored and lines_wd may be exceeded
              by the delay slots, as the engine documents); termination: _dis_block is
              called at most once per address (step bound, not a clock)
 * simplifier bbl_simplifier: the sequences of non-jump instructions over all
              paths (first 10 instructions) from every surviving head are unchanged
"""
import traceback

from vf import common

CHECK = dict(
    id="C31", level="exploration",
    rule=("byte buffers = random bytes or structured code (slots drawn from decoder-found "
          "instruction pools, direct branches re-encoded to slot starts backwards/forwards, "
          "into the middle of instructions, to themselves, to their fall-through, outside) on "
          "16 architecture/mode pairs; random base and start address; each buffer is "
          "disassembled with default options and with a random option combination (dont_dis, "
          "split_dis, lines_wd, blocs_wd, follow_call, dontdis_retcall, dont_dis_retcall_funcs, "
          "callback); distinct = distinct (arch, buffer, start, options); non-trivial = the "
          "CFG has at least two blocks"),
    assumptions=["mn.dis single-instruction decoding and the instruction flow predicates "
                 "(breakflow/splitflow/dstflow/is_subcall/getdstflow) are the reference",
                 "the fall-through edge of a block cut by lines_wd is optional (design)"],
    timeout={"quick": 900, "thorough": 3400},
    exhaustive={"quick": False, "thorough": False},
    technique="runtime monitoring: model-based oracle on the returned AsmCFG",
)

NSHARDS = 16


def shards(tier, seed, scale):
    per = 500 if tier == "quick" else 12000
    return common.mk_shards(NSHARDS, seed, tier, per_shard=per, scale=scale)


def floors(tier, counters, evaluations):
    miss = []
    g = counters.get("graphs", 0)
    if g == 0:
        return ["no graph"]

    def need(name, frac):
        if counters.get(name, 0) < frac * g:
            miss.append("%s=%d < %.0f%% of %d graphs" % (name, counters.get(name, 0), 100 * frac, g))
    need("graph_with_split", 0.30)
    need("graph_multi_block", 0.5)
    need("opt:dont_dis_hit", 0.03)
    need("opt:split_dis_hit", 0.03)
    need("opt:lines_wd_cut", 0.03)
    need("opt:blocs_wd_binding", 0.02)
    need("simp:merged", 0.05)
    need("succ:checked_callsite", 0.03)
    for a in ("x86_32", "x86_64", "x86_16", "arml", "armtl", "aarch64l", "mips32l", "mips32b",
              "msp430", "ppc32b", "mepb"):
        if counters.get("arch:" + a, 0) == 0:
            miss.append("architecture %s never disassembled" % a)
    if counters.get("delayslot_blocks", 0) == 0:
        miss.append("no block with a delay slot")
    if counters.get("overlap_graphs", 0) == 0:
        miss.append("no graph with overlapping instructions")
    return miss


def _miasm_frame(exc):
    tb = traceback.extract_tb(exc.__traceback__)
    for fr in reversed(tb):
        if "/miasm/" in fr.filename:
            return "%s:%s" % (fr.filename.split("/miasm/")[-1], fr.name)
    return "?"


def _dis_block_offset(exc):
    tb = exc.__traceback__
    off = None
    while tb is not None:
        if tb.tb_frame.f_code.co_name == "_dis_block" and "offset" in tb.tb_frame.f_locals:
            off = tb.tb_frame.f_locals["offset"]
        tb = tb.tb_next
    return off


def run_shard(params, rec):
    common.quiet()
    from vf.models import c31_cfg as M
    rng = common.rng_for(params)
    table = M.arch_table()
    shard = params.get("shard", 0)
    # three architectures per shard (pool building is the expensive part), x86 everywhere
    mine = [table[(shard + 5 * j) % len(table)] for j in range(3)]
    mine.append(table[shard % 3])
    pools = {}
    for i in range(params["n"]):
        name, mn, attrib, align = mine[i % len(mine)]
        if name not in pools:
            pools[name] = M.Pools(mn, attrib, align, rng)
        pl = pools[name]
        base = rng.choice([0, 0, 0x10, 0x1000, 0x400000])
        if align > 1:
            base -= base % align
        structured = pl.usable() and rng.random() < 0.9
        if structured:
            data, offs, st = M.gen_program(pl, rng, base)
            for k, v in st.items():
                rec.count("gen:" + k, v)
            start = base if rng.random() < 0.75 else rng.choice(offs)
            if rng.random() < 0.05:
                start = base + rng.randrange(len(data))
        else:
            data = bytes(rng.getrandbits(8) for _ in range(rng.randint(8, 160)))
            offs = None
            start = base + (0 if rng.random() < 0.5 else rng.randrange(len(data)))
        rec.count("buffer:" + ("structured" if structured else "random"))
        ctx = dict(name=name, mn=mn, attrib=attrib, data=data, base=base, start=start,
                   structured=structured)
        run_case(rec, M, ctx, {})
        run_case(rec, M, ctx, random_options(rng, M, ctx, offs))


def random_options(rng, M, ctx, offs):
    data, base = ctx["data"], ctx["base"]
    # instruction starts of a linear sweep (candidates for address options)
    if offs is None:
        dec = M.Decoder(ctx["mn"], ctx["attrib"], data, base)
        offs, cur = [], ctx["start"]
        while cur < base + len(data) and len(offs) < 60:
            ins = dec.at(cur)
            if ins in (M.UNDEC, M.CRASH):
                break
            offs.append(cur)
            cur += ins.l
        if not offs:
            offs = [ctx["start"]]

    def pick(k):
        out = set(rng.choice(offs) for _ in range(rng.randint(1, k)))
        if rng.random() < 0.2:
            out.add(base + rng.randrange(len(data)))
        return out
    opts = {}
    if rng.random() < 0.45:
        opts["dont_dis"] = pick(3)
    if rng.random() < 0.45:
        opts["split_dis"] = pick(4)
    if rng.random() < 0.3:
        opts["lines_wd"] = rng.choice([1, 2, 2, 3, 3, 4, 5, 8])
    if rng.random() < 0.22:
        opts["blocs_wd"] = rng.choice([1, 2, 3, 3, 4, 5, 6, 8])
    if rng.random() < 0.5:
        opts["follow_call"] = True
    if rng.random() < 0.3:
        opts["dontdis_retcall"] = True
    if rng.random() < 0.15:
        opts["dont_dis_retcall_funcs"] = pick(3)
    if rng.random() < 0.5:
        opts["callback"] = True
    if rng.random() < 0.5:
        for k in ("dont_dis", "split_dis"):
            if k in opts and rng.random() < 0.5:
                opts[k] = sorted(opts[k])     # "object supporting membership test": list or set
    return opts


def run_case(rec, M, ctx, opts):
    from miasm.core.asmblock import disasmEngine, AsmBlockBad, AsmConstraint, bbl_simplifier
    from miasm.core.locationdb import LocationDB
    from miasm.core.bin_stream import bin_stream_str

    name, mn, attrib = ctx["name"], ctx["mn"], ctx["attrib"]
    data, base, start = ctx["data"], ctx["base"], ctx["start"]
    witness = dict(arch=name, data=data.hex(), base=base, start=start,
                   opts={k: (sorted(v) if isinstance(v, (set, list)) else v) for k, v in opts.items()})
    rec.ev()
    rec.count("arch:" + name)
    rec.distinct("%s/%s/%d/%d/%r" % (name, data.hex(), base, start, sorted(witness["opts"].items())))

    calls = []       # (offset, nlines, end) of every block produced by _dis_block
    cb_calls = []

    class NoProgress(Exception):
        pass
    # every call of _dis_block consumes an address that was not disassembled before, so their
    # number is bounded by the addresses of the buffer plus its out-of-buffer destinations
    max_calls = 4 * len(data) + 16

    class Engine(disasmEngine):
        def _dis_block(self, offset, job_done=None):
            if len(calls) > max_calls:
                raise NoProgress()
            blk, nexts = super(Engine, self)._dis_block(offset, job_done)
            rng_ = blk.get_range() if not isinstance(blk, AsmBlockBad) else (offset, offset)
            calls.append((offset, 0 if isinstance(blk, AsmBlockBad) else len(blk.lines), rng_[1]))
            return blk, nexts

    ldb = LocationDB()
    kwargs = {k: v for k, v in opts.items() if k != "callback"}
    if opts.get("callback"):
        kwargs["dis_block_callback"] = lambda mdis, blk, offsets: cb_calls.append(blk.loc_key)
    dont_dis = set(opts.get("dont_dis", ()))
    split_dis = set(opts.get("split_dis", ()))
    lines_wd = opts.get("lines_wd")
    blocs_wd = opts.get("blocs_wd")
    follow_call = opts.get("follow_call", False)
    dontdis_retcall = opts.get("dontdis_retcall", False)
    retcall_funcs = set(opts.get("dont_dis_retcall_funcs", ()))

    dec = M.Decoder(mn, attrib, data, base)
    try:
        mdis = Engine(mn, attrib, bin_stream_str(data, base_address=base), ldb, **kwargs)
        cfg = mdis.dis_multiblock(start)
    except NoProgress:
        rec.fail("dis_multiblock does not terminate",
                 "_dis_block called more than %d times on a buffer of %d bytes" % (max_calls, len(data)),
                 witness)
        return
    except Exception as exc:
        where = _miasm_frame(exc)
        rec.count("engine_exception")
        # an exception of mn.dis that is not the documented Disasm_Exception/IOError signal and
        # that the independent decoding reproduces at the offset the engine was decoding
        off = _dis_block_offset(exc)
        if off is not None and "asmblock.py" not in where:
            ref, rexc = dec.fresh(off)
            if ref == M.CRASH and type(rexc) is type(exc):
                rec.fail("decoder exception escapes dis_multiblock: %s arch=%s" % (
                    type(exc).__name__, mn.__name__),
                    "mn.dis at %#x raised %r (%s); the engine only expects Disasm_Exception/IOError"
                    % (off, exc, where), witness)
                return
        rec.fail("dis_multiblock raises %s at %s arch=%s" % (type(exc).__name__, where, mn.__name__),
                 "dis_multiblock raised %r" % (exc,), witness)
        return
    rec.count("graphs")
    for k in opts:
        rec.count("optset:" + k)

    def fail(key, what, **extra):
        w = dict(witness)
        w.update(extra)
        try:
            w["cfg"] = str(cfg)[:3000]
        except Exception:
            pass
        rec.fail(key, what, w)

    blocks = list(cfg.blocks)
    good = [b for b in blocks if not isinstance(b, AsmBlockBad)]
    bad = [b for b in blocks if isinstance(b, AsmBlockBad)]
    rec.count("blocks_good", len(good))
    rec.count("blocks_bad", len(bad))
    if len(blocks) >= 2:
        rec.count("graph_multi_block")
    nsplit = len(blocks) - len(calls)
    cat = ("structured" if ctx.get("structured") else "random") + ("_opts" if opts else "_default")
    rec.count("graphs:" + cat)
    if nsplit > 0:
        rec.count("graph_with_split")
        rec.count("graph_with_split:" + cat)
        rec.count("splits", nsplit)
    if len(rec.samples) < 4 and len(good) >= 3 and nsplit > 0:
        rec.sample(dict(arch=name, start=start, blocks=len(blocks), splits=nsplit,
                        opts=witness["opts"], cfg=str(cfg)[:600]))

    head_of = {}
    for b in blocks:
        off = ldb.get_location_offset(b.loc_key)
        if off in head_of:
            fail("two blocks at one address", "two blocks at %#x" % off)
        head_of[off] = b
    if start not in head_of:
        fail("no block at the start address", "no block at start %#x" % start)

    # ---- decode equality, consecutiveness, uniqueness
    owner = {}
    broken = set()
    oldb = LocationDB()     # the oracle's own location database
    for b in good:
        hoff = ldb.get_location_offset(b.loc_key)
        if not b.lines:
            fail("empty block", "block at %#x has no instruction" % hoff)
            broken.add(b)
            continue
        if b.lines[0].offset != hoff:
            fail("block address differs from first instruction",
                 "block %#x starts with the instruction at %#x" % (hoff, b.lines[0].offset))
            broken.add(b)
        cur = b.lines[0].offset
        for line in b.lines:
            rec.count("instr_checked")
            if line.offset != cur:
                fail("instructions not consecutive",
                     "block %#x: instruction at %#x follows one ending at %#x" % (hoff, line.offset, cur))
                broken.add(b)
            ref = dec.at(line.offset)
            if ref in (M.UNDEC, M.CRASH):
                fail("block holds an undecodable instruction",
                     "block %#x: %s at %#x but mn.dis fails there" % (hoff, line, line.offset))
                broken.add(b)
                cur = line.offset + line.l
                continue
            if bytes(ref.b) != bytes(line.b) or ref.l != line.l or ref.name != line.name or \
                    len(ref.args) != len(line.args):
                fail("instruction differs from single decoding",
                     "at %#x block has %s (%s) but mn.dis gives %s (%s)" % (
                         line.offset, line, bytes(line.b).hex(), ref, bytes(ref.b).hex()))
                broken.add(b)
            else:
                refargs = ref.args
                if any(a.is_loc() for a in line.args):
                    fi = M.flow_info(dec, line.offset, oldb)
                    refargs = fi["ins"].args
                for a, r in zip(line.args, refargs):
                    if a.is_loc():
                        same = r.is_loc() and ldb.get_location_offset(a.loc_key) == \
                            oldb.get_location_offset(r.loc_key) and a.size == r.size
                    else:
                        same = (a == r)
                    if not same:
                        fail("instruction operand differs from single decoding",
                             "at %#x block has %s, mn.dis gives %s" % (line.offset, line, ref))
                        broken.add(b)
                        break
            if line.offset in owner:
                fail("instruction address in two blocks",
                     "%#x is in block %#x and block %#x" % (
                         line.offset, ldb.get_location_offset(owner[line.offset].loc_key), hoff))
            owner[line.offset] = b
            cur = line.offset + line.l
    # overlapping instructions (bytes shared by two instructions of the graph)?
    spans = sorted((o, o + dec.at(o).l) for o in owner if dec.ok(o))
    if any(spans[j][1] > spans[j + 1][0] for j in range(len(spans) - 1)):
        rec.count("overlap_graphs")

    # ---- bad blocks are justified
    for b in bad:
        off = ldb.get_location_offset(b.loc_key)
        if off in dont_dis:
            rec.count("bad:forbidden")
            if b.errno != AsmBlockBad.ERROR_FORBIDDEN:
                fail("bad block errno", "forbidden address %#x gives errno %r" % (off, b.errno))
        elif not dec.ok(off):
            rec.count("bad:undecodable")
        else:
            fail("bad block at a decodable address",
                 "bad block (errno %r) at %#x but mn.dis gives %s" % (b.errno, off, dec.at(off)))

    # ---- options
    if dont_dis:
        hit = [o for o in owner if o in dont_dis]
        if hit:
            fail("dont_dis address decoded", "instruction at forbidden %#x" % hit[0])
        if any(ldb.get_location_offset(b.loc_key) in dont_dis for b in bad):
            rec.count("opt:dont_dis_hit")
    if split_dis:
        for o in owner:
            if o in split_dis:
                rec.count("split_dis_instr")
                if o not in head_of:
                    # a forced split never separates a branch from its delay slots
                    blk = owner[o]
                    pos = [l.offset for l in blk.lines].index(o)
                    in_ds = False
                    for j in range(pos):
                        fi = M.flow_info(dec, blk.lines[j].offset, oldb)
                        if fi is not None and fi["breakflow"] and pos <= j + fi["delayslot"]:
                            in_ds = True
                    if in_ds:
                        rec.count("split_dis_in_delayslot_ignored")
                        continue
                    fail("split_dis address inside a block",
                         "%#x is in split_dis but in the middle of block %#x" % (
                             o, ldb.get_location_offset(owner[o].loc_key)))
        if any(o in split_dis and o != start for o in owner):
            rec.count("opt:split_dis_hit")
    if lines_wd is not None:
        for b in good:
            if len(b.lines) > lines_wd and b not in broken:
                # the limit never separates a branch from its delay slots: a block may exceed it
                # only by the delay slots of a flow instruction among its first lines_wd lines
                extra_ok = False
                for j, line in enumerate(b.lines[:lines_wd]):
                    fi = M.flow_info(dec, line.offset, oldb)
                    if fi is not None and fi["breakflow"] and fi["delayslot"] and \
                            len(b.lines) <= j + 1 + fi["delayslot"]:
                        extra_ok = True
                        rec.count("lines_wd_delayslot_completed")
                        break
                if not extra_ok:
                    fail("lines_wd exceeded", "block of %d lines with lines_wd=%d" % (len(b.lines), lines_wd))
    if blocs_wd is not None:
        if len(calls) > blocs_wd:
            fail("blocs_wd exceeded", "%d blocks disassembled with blocs_wd=%d" % (len(calls), blocs_wd))
        if len(calls) == blocs_wd and cfg.pendings:
            rec.count("opt:blocs_wd_binding")
    # blocks cut by lines_wd: the final piece of a block that _dis_block stopped at lines_wd
    wd_cut_ends = set()
    if lines_wd is not None:
        for off, nl, end in calls:
            if nl == lines_wd:
                wd_cut_ends.add(end)

    # ---- successors
    # A "unit" is a block as produced by _dis_block; apply_splitting may have cut it in
    # pieces.  Every piece but the last must fall through to the next piece and nothing else;
    # the last piece carries the unit's decoded flow (without delay slots this is exactly the
    # per-block rule of the statement; a split after a branch, inside its delay slots, leaves
    # the branch's destinations on the delay-slot piece, which is the order of execution).
    unit_of = {}
    units = []
    for off, nl, uend in calls:
        if nl == 0 or off not in head_of or head_of[off] in broken or head_of[off] in bad:
            continue
        pieces, cur, okay = [], off, True
        while cur < uend:
            blk = head_of.get(cur)
            if blk is None or blk in broken or isinstance(blk, AsmBlockBad) or blk in unit_of:
                okay = False
                break
            pieces.append(blk)
            cur = blk.lines[-1].offset + blk.lines[-1].l
        if not okay or cur != uend or sum(len(p.lines) for p in pieces) != nl:
            fail("split pieces do not tile the disassembled block",
                 "block disassembled at %#x (%d lines, end %#x)" % (off, nl, uend))
            continue
        for p_ in pieces:
            unit_of[p_] = len(units)
        units.append((pieces, nl == lines_wd))
        if len(pieces) > 1:
            rec.count("units_split")
    for b in good:
        if b not in broken and b not in unit_of:
            fail("block not produced by the disassembly of any address",
                 "block %#x" % ldb.get_location_offset(b.loc_key))

    all_dsts = set()

    def constraints_of(b):
        actual, dup = {}, False
        for c in b.bto:
            d = ldb.get_location_offset(c.loc_key)
            if d in actual:
                dup = True
            actual[d] = c.c_t
            all_dsts.add(d)
        if dup:
            fail("two constraints to one destination", "block %s" % b)
        return actual

    def report(b, kind, actual, expected):
        missing = sorted(set(expected.items()) - set(actual.items()))
        extra = sorted(set(actual.items()) - set(expected.items()))
        cls = ("missing %s" % "/".join(sorted(set(t for _, t in missing))) if missing else "") + \
              (" extra %s" % "/".join(sorted(set(t for _, t in extra))) if extra else "")
        fail("successors differ (%s): %s" % (kind, cls.strip()),
             "block %#x: constraints %s, decoded flow gives %s" % (
                 ldb.get_location_offset(b.loc_key), sorted(actual.items()), sorted(expected.items())),
             block=str(b))

    for pieces, wd_cut in units:
        for j, p_ in enumerate(pieces[:-1]):
            actual = constraints_of(p_)
            nxt_head = ldb.get_location_offset(pieces[j + 1].loc_key)
            rec.count("succ:checked")
            if actual != {nxt_head: AsmConstraint.c_next}:
                report(p_, "first part of a split block", actual, {nxt_head: AsmConstraint.c_next})
        b = pieces[-1]
        hoff = ldb.get_location_offset(pieces[0].loc_key)
        offs = [l.offset for p_ in pieces for l in p_.lines]
        end = offs[-1] + b.lines[-1].l
        actual = constraints_of(b)
        infos = [M.flow_info(dec, o, oldb) for o in offs]
        k = next((j for j, fi in enumerate(infos) if fi["breakflow"]), None)
        exp_to, exp_next, next_optional = set(), set(), False
        if k is None:
            exp_next = {end}
            next_optional = wd_cut
            rec.count("succ:noflow_block")
        else:
            fi = infos[k]
            ds = fi["delayslot"]
            if ds:
                rec.count("delayslot_blocks")
                if len(pieces) > 1 and pieces[-1].lines[0].offset > offs[k]:
                    rec.count("delayslot_split")
            if len(offs) > k + 1 + ds:
                fail("instructions after the flow instruction",
                     "block %#x continues after %s (+%d delay slots)" % (hoff, fi["ins"], ds))
                continue
            if any(infos[j]["breakflow"] or infos[j]["splitflow"] for j in range(k + 1, len(offs))):
                fail("flow instruction kept in a delay slot", "block %#x: %s" % (hoff, b))
                continue
            if not fi["subcall"] or follow_call:
                exp_to = set(fi["dsts"])
            nxt = fi["splitflow"] and not (fi["subcall"] and dontdis_retcall) and \
                not any(d in retcall_funcs for d in fi["dsts"])
            if fi["subcall"]:
                rec.count("succ:checked_callsite")
            if len(offs) < k + 1 + ds:
                # delay slot not taken: must be justified; the block then falls through to it
                rec.count("delayslot_cut")
                nfi = M.flow_info(dec, end, oldb)
                why = (end in dont_dis or end in split_dis or (end in head_of) or nfi is None or
                       nfi["breakflow"] or nfi["splitflow"] or wd_cut)
                if not why:
                    fail("delay slot dropped without reason", "block %#x: %s" % (hoff, b))
                    continue
                exp_next = {end}
                next_optional = wd_cut
            else:
                exp_next = {end} if nxt else set()
                next_optional = wd_cut and bool(exp_next)
        expected = {d: AsmConstraint.c_to for d in exp_to}
        for d in exp_next:
            expected[d] = AsmConstraint.c_next
        ok = (actual == expected)
        if not ok and next_optional:
            # fall-through optional: present or absent
            ok = actual == {d: AsmConstraint.c_to for d in exp_to}
        if wd_cut and next_optional:
            rec.count("opt:lines_wd_cut")
        rec.count("succ:checked")
        if not ok:
            kind = "no flow instruction" if k is None else (
                "delay slot" if infos[k]["delayslot"] else
                ("call" if infos[k]["subcall"] else "branch"))
            report(b, kind + " block", actual, expected)

    # graph edges mirror bto
    for b in good:
        want_edges = {}
        for c in b.bto:
            if cfg.loc_key_to_block(c.loc_key) is not None:
                want_edges[c.loc_key] = c.c_t
        got_edges = {s_: cfg.edges2constraint.get((b.loc_key, s_)) for s_ in cfg.successors(b.loc_key)}
        if want_edges != got_edges:
            fail("graph edges differ from block constraints",
                 "block %#x: edges %s, constraints %s" % (
                     ldb.get_location_offset(b.loc_key), got_edges, want_edges))

    # ---- heads
    for d in all_dsts:
        if d in owner and d not in head_of:
            fail("destination inside a block is not a block head",
                 "%#x is a destination and an instruction of block %#x" % (
                     d, ldb.get_location_offset(owner[d].loc_key)))
        if blocs_wd is None and d not in head_of:
            fail("destination without block", "destination %#x has no block and no limit applies" % d)
        rec.count("heads_checked")

    # ---- bbl_simplifier keeps path instruction sequences
    if mn.delayslot or any(l.delayslot for b in good for l in b.lines[-1:]):
        rec.count("simp:skipped_delayslot")
        return
    if broken:
        return

    def is_direct_jump(line):
        return bool(line.breakflow() and line.dstflow() and not line.is_subcall())
    before = M.snapshot(cfg, is_direct_jump)
    nb_before = len(blocks)
    try:
        merged = bbl_simplifier(cfg)
    except Exception as exc:
        fail("bbl_simplifier raises %s at %s" % (type(exc).__name__, _miasm_frame(exc)),
             "bbl_simplifier raised %r" % (exc,))
        return
    rec.count("simp:runs")
    after = M.snapshot(merged, is_direct_jump)
    if len(list(merged.blocks)) < nb_before:
        rec.count("simp:merged")
        rec.count("simp:merges", nb_before - len(list(merged.blocks)))
    for lk in after:
        if lk not in before:
            fail("bbl_simplifier invents a node", "node %s" % lk)
            return
    starts = [lk for lk in after if merged.loc_key_to_block(lk) is not None]
    for lk in starts:
        t0 = M.traces(before, lk)
        t1 = M.traces(after, lk)
        if t0 is None or t1 is None:
            rec.count("simp:bound_skipped")
            continue
        rec.count("simp:heads_compared")
        if t0 != t1:
            only0 = sorted(t0 - t1, key=repr)[:2]
            only1 = sorted(t1 - t0, key=repr)[:2]
            fail("bbl_simplifier changes a path's instruction sequence",
                 "from %s: lost %s, new %s" % (ldb.pretty_str(lk), short_tr(only0), short_tr(only1)),
                 merged=str(merged)[:2000])
            break


def short_tr(trs):
    out = []
    for tr in trs:
        out.append([("%#x" % it[0]) if isinstance(it, tuple) and isinstance(it[0], int) else str(it)
                    for it in tr])
    return out
