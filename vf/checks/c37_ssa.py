"""C37 SSA construction is valid and out-of-SSA preserves behaviour.

Structural monitor on the output of SSADiGraph(ircfg).transform(head) (own edges
read from the IRDst expressions, own brute-force dominators) plus execution:
the original graph, the SSA graph (Phi = "argument assigned most recently") and
the UnSSADiGraph result are run by vf.irinterp from the same initial states and
must agree on control flow, memory and -- through ssa_variable_to_expr -- on
every register."""
from vf import common

CHECK = dict(
    id="C37", level="exploration",
    rule=("random connected IR graphs of 2-7 blocks over the x86_32/x86_64 register files (vf.irgen: parallel "
          "assignments, slices, memory reads/writes, push-like updates), random successor shapes with back and "
          "cross edges, explicit irreducible cores (two entries into a cycle), loops through the head "
          "(sanitize_graph_head), swap and lost-copy loops; 8 initial states per graph, runs cut after a fixed "
          "number of blocks so that endless loops are compared too; distinct = distinct (shape, block contents)"),
    assumptions=["vf.irinterp/refsem define the concrete meaning of the IR",
                 "the value of an original register in the SSA / out-of-SSA graph is the value of the variable "
                 "standing for it (ssa_variable_to_expr, plus the phi copy variables of UnSSADiGraph) that was "
                 "assigned most recently, or the register itself if none was",
                 "UnSSADiGraph is driven as miasm.analysis.simplifier.ssa_to_unssa does (DiGraphLivenessSSA, "
                 "init_var_info(lifter_model_call), compute_liveness)"],
    timeout={"quick": 900, "thorough": 5400},
    technique="runtime monitoring: structural rules with independent dominators + differential execution",
)

N_STATES = 8
MAX_BLOCKS = 14
CASE_CPU_SECONDS = 60      # CPU time (ITIMER_PROF), not wall-clock


def shards(tier, seed, scale):
    per = 150 if tier == "quick" else 1600
    return common.mk_shards(16, seed, tier, per, scale)


# --------------------------------------------------------------------------- generation

def build_graph(rng, ctx, gen):
    """-> (ircfg, locs, info)"""
    from miasm.expression.expression import ExprInt, ExprLoc, ExprCond
    from miasm.ir.ir import AssignBlock, IRBlock
    from vf.models import c37_ssa as M
    succs, tags = M.gen_shape(rng)
    n = len(succs)
    pattern = None
    k = rng.random()
    if k < 0.3 and n >= 2:
        # a self-looping block carrying a swap or a lost-copy body
        b = rng.randrange(1, n)
        other = [t for t in succs[b] if t != b]
        trial = [list(s) for s in succs]
        trial[b] = [b, other[0] if other else M.EXIT]
        g = {i: [t for t in trial[i] if t != M.EXIT] for i in range(n)}
        if len(M.reachable(g, 0)) == n and any(M.EXIT in s for s in trial):
            succs = trial
            pattern = (rng.choice(["swap", "swap-seq", "lost-copy"]), b)
            tags.add(pattern[0])
    locs = [ctx.loc_db.add_location() for _ in range(n)]
    exits = [ctx.loc_db.add_location() for _ in range(2)]
    ircfg = gen.new_ircfg()
    bits = ctx.bits
    for b in range(n):
        tl = [locs[t] if t != M.EXIT else rng.choice(exits) for t in succs[b]]
        if pattern and pattern[1] == b:
            x, y, z = rng.sample(ctx.gpr, 3)
            one = ExprInt(1, bits)
            if pattern[0] == "swap":
                body = [AssignBlock({x: y, y: x})]
            elif pattern[0] == "swap-seq":
                body = [AssignBlock({z: x}), AssignBlock({x: y}), AssignBlock({y: z})]
                z = rng.choice([r for r in ctx.gpr if r not in (x, y, z)])
            else:
                body = [AssignBlock({y: x}), AssignBlock({x: x + one})]
                z = x
            if rng.random() < 0.5:
                body.insert(rng.randrange(len(body) + 1), gen.assignblk(1))
            if pattern[0] != "lost-copy":
                body.append(AssignBlock({z: z - one}))
            cond = z & ExprInt(rng.choice([1, 3, 3, 7]), bits)
            last = {ctx.IRDst: ExprCond(cond, ExprLoc(tl[0], bits), ExprLoc(tl[1], bits))}
            if rng.random() < 0.3:
                # IRDst in the same AssignBlock as the last assignments (one-AssignBlock instructions)
                last.update(dict(body.pop()))
                tags.add("irdst-shared")
            body.append(AssignBlock(last))
            blk = IRBlock(ctx.loc_db, locs[b], body)
        else:
            blk = gen.block(locs[b], tl, depth=rng.choice([1, 1, 2]))
        ircfg.add_irblock(blk)
    return ircfg, locs, dict(succs=succs, tags=sorted(tags))


# --------------------------------------------------------------------------- structural rules

def ids_of(expr, out):
    from miasm.expression.expression import ExprId, ExprMem, ExprOp, ExprSlice, ExprCompose, ExprCond
    cls = expr.__class__
    if cls is ExprId:
        out.add(expr)
    elif cls is ExprMem:
        ids_of(expr.ptr, out)
    elif cls is ExprOp or cls is ExprCompose:
        for a in expr.args:
            ids_of(a, out)
    elif cls is ExprSlice:
        ids_of(expr.arg, out)
    elif cls is ExprCond:
        ids_of(expr.cond, out)
        ids_of(expr.src1, out)
        ids_of(expr.src2, out)
    return out


def structural(rec, ssa, head, base_regs, wit):
    """-> list of (key, text) violations of the SSA rules"""
    from vf.models import c37_ssa as M
    graph = ssa.graph
    irdst = graph.IRDst
    blocks = dict(graph.blocks)
    succ = M.succ_of_blocks(blocks, irdst)
    pred = M.preds_of(succ)
    out = []
    reach = M.reachable(succ, head)
    if set(reach) != set(blocks):
        out.append(("SSA graph: block not reachable from the head",
                    "blocks %s are not reachable through the IRDst expressions" % sorted(
                        str(b) for b in set(blocks) - set(reach))))
        return out
    dom = M.dominators(succ, head)
    to_orig = ssa.ssa_variable_to_expr
    # definitions
    defs = {}
    for lk, blk in blocks.items():
        for i, ab in enumerate(blk):
            for dst in ab:
                if dst.is_id() and dst != irdst:
                    defs.setdefault(dst, []).append((lk, i))
    for var, sites in defs.items():
        rec.count("ssa_vars")
        if len(sites) != 1:
            out.append(("SSA: variable defined more than once", "%s defined at %s" % (var, sites)))
        if var not in to_orig:
            out.append(("SSA: destination is not an SSA variable", "%s at %s" % (var, sites)))
    if out:
        return out
    defsite = {v: s[0] for v, s in defs.items()}
    # versions of each original register, for the un-versioned rule
    versions = {}
    for var, (lk, i) in defsite.items():
        versions.setdefault(to_orig[var], []).append((lk, i))
    in_cycle = set(b for b in succ if any(b in M.reachable(succ, s) for s in succ[b]))

    def def_before(dlk, di, ulk, ui):
        """definition (dlk, di) executed before the use (ulk, ui) on every path"""
        if dlk == ulk:
            return di < ui
        return dlk in dom[ulk]

    for lk, blk in blocks.items():
        for i, ab in enumerate(blk):
            for dst, src in ab.items():
                if src.is_op("Phi"):
                    rec.count("phis")
                    if i != 0:
                        out.append(("SSA: phi outside the first assignblock", "%s = %s at (%s, %d)" % (dst, src, lk, i)))
                    args = list(src.args)
                    for a in args:
                        if not a.is_id() or a not in defsite:
                            out.append(("SSA: phi argument without definition", "%s in %s = %s" % (a, dst, src)))
                            continue
                        dlk = defsite[a][0]
                        if not any(dlk in dom[p] for p in pred[lk]):
                            out.append(("SSA: phi argument not defined on a path from any predecessor",
                                        "%s (defined in %s) in %s = %s at %s, predecessors %s" % (
                                            a, dlk, dst, src, lk, pred[lk])))
                    for p in pred[lk]:
                        if not any(a in defsite and defsite[a][0] in dom[p] for a in args):
                            out.append(("SSA: predecessor of a phi block without a dominating phi argument",
                                        "predecessor %s of %s: none of %s is defined on every path to it" % (p, lk, args)))
                    continue
                uses = ids_of(src, set())
                if dst.is_mem():
                    ids_of(dst.ptr, uses)
                for u in uses:
                    if u == irdst:
                        continue
                    rec.count("uses_checked")
                    if u in defsite:
                        dlk, di = defsite[u]
                        if not def_before(dlk, di, lk, i):
                            out.append(("SSA: definition does not dominate a use",
                                        "%s defined at (%s, %d), used at (%s, %d) in %s = %s" % (u, dlk, di, lk, i, dst, src)))
                    else:
                        # un-versioned register: initial value, no definition of it may have been executed
                        if u in to_orig:
                            out.append(("SSA: use of an SSA variable without definition",
                                        "%s used at (%s, %d)" % (u, lk, i)))
                            continue
                        for (vlk, vi) in versions.get(u, ()):
                            earlier = (vlk == lk and (vi < i or lk in in_cycle)) or \
                                (vlk != lk and lk in M.reachable(succ, vlk))
                            if earlier:
                                out.append(("SSA: un-versioned use of a register after one of its definitions",
                                            "%s used at (%s, %d) while a version is defined at (%s, %d)" % (u, lk, i, vlk, vi)))
                                break
    return out


# --------------------------------------------------------------------------- execution

def run_graph(ircfg, loc_db, start, env, max_blocks, phi_mode=False):
    """-> (kind, tracker, result) kind: 'exit' | 'cut' | other irinterp status"""
    from vf import irinterp
    from vf.models import c37_ssa as M
    tr = M.Tracker(max_blocks)
    try:
        res = irinterp.run(ircfg, loc_db, start, env, max_steps=100000, phi_mode=phi_mode, track=tr)
    except M.Stop:
        return "cut", tr, None
    return res.status, tr, res


def reg_value(env, tracker, reg, standing):
    """value of original register @reg: the variable of @standing[reg] (plus reg itself) assigned last"""
    best, bt = reg, tracker.def_time.get(reg, 0)
    for v in standing.get(reg, ()):
        t = tracker.def_time.get(v, 0)
        if t > bt:
            best, bt = v, t
    return env.ident(best), best


def compare_runs(rec, what, ref, got, regs, standing, drop_first, rename):
    """ref/got: (kind, tracker, result, env).  -> None or (key, text)"""
    kind_r, tr_r, res_r, env_r = ref
    kind_g, tr_g, res_g, env_g = got
    if kind_g not in ("exit", "cut"):
        return ("%s: execution stops with status %s" % (what, kind_g),
                "original run: %s; this run: %s %s" % (kind_r, kind_g, res_g.detail if res_g else ""))
    path_g = [rename.get(l, l) for l in tr_g.path[drop_first:]]
    if path_g != tr_r.path or kind_g != kind_r:
        return ("%s: control flow diverges from the original" % what,
                "original %s %s, this run %s %s" % (kind_r, [str(l) for l in tr_r.path], kind_g,
                                                     [str(l) for l in tr_g.path]))
    if kind_r == "exit":
        if res_g.exit != res_r.exit:
            return ("%s: different exit" % what, "%s instead of %s" % (res_g.exit, res_r.exit))
    # memory effects = memory contents (a store of the value a cell already holds is no effect:
    # AssignBlock.simplify drops 'x = x', including '@16[p] = @16[p]')
    diff = [(a, env_r.byte(a), env_g.byte(a)) for a in sorted(set(env_g.mem) | set(env_r.mem))
            if env_g.byte(a) != env_r.byte(a)]
    rec.count("mem_bytes_compared", len(set(env_g.mem) | set(env_r.mem)))
    if diff:
        return ("%s: different memory contents" % what,
                "(address, original, here) %s" % [(hex(a), x, y) for a, x, y in diff[:6]])
    for reg in regs:
        want = env_r.ident(reg)
        val, var = reg_value(env_g, tr_g, reg, standing)
        rec.count("regs_compared")
        if val != want:
            return ("%s: register value differs" % what,
                    "%s: original 0x%x, here 0x%x (read through %s)" % (reg, want, val, var))
    return None


def one_case(rec, rng, ctxs, i):
    from miasm.analysis.ssa import SSADiGraph
    from miasm.analysis.outofssa import UnSSADiGraph
    from miasm.analysis.data_flow import DiGraphLivenessSSA
    from miasm.ir.ir import IRCFG
    from vf import irgen, refsem, exprgen
    from vf.models import c37_ssa as M
    ctx = ctxs[i % len(ctxs)]
    gen = irgen.IRGen(rng, ctx, div=False)
    ircfg, locs, info = build_graph(rng, ctx, gen)
    head = locs[0]
    orig = IRCFG(ctx.IRDst, ctx.loc_db)
    for lk in locs:
        orig.add_irblock(ircfg.blocks[lk])
    osucc = M.succ_of_blocks(dict(orig.blocks), ctx.IRDst)
    irreducible = M.is_irreducible(osucc, head)
    head_pred = any(head in s for s in osucc.values())
    rec.ev()
    rec.count("graphs")
    rec.count("blocks", len(locs))
    if irreducible:
        rec.count("graphs_irreducible")
    if head_pred:
        rec.count("graphs_loop_through_head")
    if M.has_cycle(osucc):
        rec.count("graphs_with_cycle")
    for t in info["tags"]:
        rec.count("pattern:" + t)
    if set(info["tags"]) & set(["swap", "swap-seq", "lost-copy"]):
        rec.count("graphs_swap_or_lost_copy")
    rec.distinct("|".join(";".join(sorted("%s<-%s" % (str(d) if d.is_id() else "M", exprgen.shape(s))
                                          for ab in orig.blocks[lk] for d, s in ab.items())) for lk in locs))
    wit = dict(machine=ctx.machine.name, head=str(head), shape=info["succs"], tags=info["tags"],
               blocks=[str(orig.blocks[lk]) for lk in locs])

    # ---- SSA construction
    try:
        ssa = SSADiGraph(ircfg)
        ssa.transform(head)
    except Exception as exc:
        rec.fail("SSADiGraph.transform raises %s" % type(exc).__name__, repr(exc), wit)
        return
    ssa_blocks = dict(ssa.graph.blocks)
    wit_ssa = dict(wit, ssa=[str(b) for b in ssa_blocks.values()])
    new_blocks = [lk for lk in ssa_blocks if lk not in orig.blocks]
    if head_pred:
        rec.count("head_sanitized" if new_blocks else "head_not_sanitized")
    bad = structural(rec, ssa, head, ctx.all_regs(), wit_ssa)
    for key, text in bad[:3]:
        rec.fail(key, text, wit_ssa)
    if bad:
        return
    rec.count("structural_ok")
    if any(src.is_op("Phi") for b in ssa_blocks.values() for ab in b for src in ab.values()):
        rec.count("graphs_with_phi")

    # snapshot of the SSA graph (UnSSADiGraph rewrites it in place)
    ssa_graph = IRCFG(ctx.IRDst, ctx.loc_db)
    for b in ssa_blocks.values():
        ssa_graph.add_irblock(b)
    standing = {}
    for var, reg in ssa.ssa_variable_to_expr.items():
        standing.setdefault(reg, set()).add(var)
    # head sanitising: new head jumps to a copy of the old head
    drop_first, rename = 0, {}
    if new_blocks:
        if len(new_blocks) != 1:
            rec.fail("sanitize_graph_head: unexpected new blocks", str(new_blocks), wit_ssa)
            return
        drop_first, rename = 1, {new_blocks[0]: head}

    # ---- out of SSA
    unssa_err = None
    try:
        cfg_liveness = DiGraphLivenessSSA(ssa.graph)
        cfg_liveness.init_var_info(ctx.lifter_model_call)
        cfg_liveness.compute_liveness()
        unssa = UnSSADiGraph(ssa, head, cfg_liveness)
    except Exception as exc:
        unssa_err = exc
    if unssa_err is not None:
        rec.fail("UnSSADiGraph raises %s" % type(unssa_err).__name__, repr(unssa_err), wit_ssa)
        un_graph = None
    else:
        un_graph = ssa.graph
        standing_un = {r: set(s) for r, s in standing.items()}
        for dst, nv in unssa.phi_new_var.items():
            reg = ssa.ssa_variable_to_expr.get(dst)
            if reg is not None:
                standing_un.setdefault(reg, set()).add(nv)
        wit_un = dict(wit_ssa, unssa=[str(b) for b in un_graph.blocks.values()])
        if any(src.is_op("Phi") for b in un_graph.blocks.values() for ab in b for src in ab.values()):
            rec.fail("UnSSADiGraph: phi left in the result", "", wit_un)
            un_graph = None

    # ---- executions
    regs = ctx.all_regs()
    locmap = irgen.LocMap(ctx.loc_db)
    done_ssa = done_un = False
    for s in range(N_STATES):
        env0 = irgen.initial_state(rng, ctx, seed=rng.getrandbits(30))
        base = dict(env0.ids)

        def mkenv():
            return refsem.Env(ids=dict(base), seed=env0.seed, locs=locmap)
        e_r = mkenv()
        kind, tr, res = run_graph(orig, ctx.loc_db, head, e_r, MAX_BLOCKS)
        if kind not in ("exit", "cut"):
            rec.count("skip_original_" + kind)
            continue
        rec.count("runs")
        rec.count("runs_" + kind)
        if len(set(tr.path)) < len(tr.path):
            rec.count("runs_with_repeated_block")
        ref = (kind, tr, res, e_r)
        state_w = {str(k): hex(v) for k, v in base.items()}
        if not done_ssa:
            e_s = mkenv()
            k2, tr2, res2 = run_graph(ssa_graph, ctx.loc_db, head, e_s, MAX_BLOCKS + drop_first, phi_mode=True)
            bad = compare_runs(rec, "SSA form", ref, (k2, tr2, res2, e_s), regs, standing, drop_first, rename)
            if bad:
                rec.fail(bad[0], bad[1], dict(wit_ssa, regs=state_w, mem_seed=env0.seed))
                done_ssa = True
            else:
                rec.count("ssa_runs_ok")
        if un_graph is not None and not done_un:
            e_u = mkenv()
            k3, tr3, res3 = run_graph(un_graph, ctx.loc_db, head, e_u, MAX_BLOCKS + drop_first)
            bad = compare_runs(rec, "out-of-SSA", ref, (k3, tr3, res3, e_u), regs, standing_un, drop_first, rename)
            if bad:
                rec.fail(bad[0], bad[1], dict(wit_un, regs=state_w, mem_seed=env0.seed))
                done_un = True
            else:
                rec.count("unssa_runs_ok")
    if i % 25 == 0:
        rec.sample(dict(shape=info["succs"], tags=info["tags"], ssa=wit_ssa["ssa"][:2]), limit=3)


def run_shard(params, rec):
    common.quiet()
    from vf import irgen
    rng = common.rng_for(params)
    from vf.models import cpulimit
    cpulimit.install()
    ctxs = [irgen.Ctx("x86_32"), irgen.Ctx("x86_64")]
    for i in range(params["n"]):
        try:
            with cpulimit.cpu_limit(CASE_CPU_SECONDS):
                one_case(rec, rng, ctxs, i)
        except cpulimit.CpuTimeout:
            rec.count("case_cpu_timeout")       # never a verdict; see floors


def floors(tier, counters, evaluations):
    miss = []
    g = max(1, counters.get("graphs", 0))
    if counters.get("case_cpu_timeout", 0) > 0.01 * g:
        miss.append("more than 1%% of the cases ran out of CPU time (%d)" % counters.get("case_cpu_timeout", 0))
    if counters.get("graphs_irreducible", 0) < 0.2 * g:
        miss.append("fewer than 20%% of the graphs are irreducible (%d of %d)" % (counters.get("graphs_irreducible", 0), g))
    if counters.get("graphs_swap_or_lost_copy", 0) < 0.1 * g:
        miss.append("fewer than 10% of the graphs carry a swap / lost-copy loop")
    if counters.get("head_sanitized", 0) + counters.get("head_not_sanitized", 0) < 0.1 * g:
        miss.append("fewer than 10% of the graphs loop through the head")
    if counters.get("graphs_with_phi", 0) < 0.5 * g:
        miss.append("fewer than 50% of the graphs got a phi")
    if counters.get("ssa_runs_ok", 0) + counters.get("unssa_runs_ok", 0) < 4 * g:
        miss.append("fewer than 4 compared executions per graph")
    if counters.get("runs_with_repeated_block", 0) < 0.1 * max(1, counters.get("runs", 0)):
        miss.append("fewer than 10% of the runs go round a loop")
    return miss
