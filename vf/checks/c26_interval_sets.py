"""C26 integer interval sets have exact set semantics.

Oracle: Python frozenset of integers.  Monitored: the results of the
miasm.core.interval API (constructor canonical form, + & - in == != length hull
empty iteration) on every interval list / pair of interval lists over small
universes.
"""
import itertools

from vf import common
from vf.models import cpulimit

CHECK = dict(
    id="C26", level="exploration",
    rule=("exhaustive: (ctor) every ordered list of <=K bound pairs (a,b) over a small universe, a>b "
          "(reversed/empty), a==b, adjacent, nested and duplicate bounds included; (pairs) every ordered pair "
          "of such lists (as multisets, the constructor sorts) and every ordered pair of subsets of a universe "
          "given as maximal runs; universes also shifted below zero and across 2^64; distinct = distinct "
          "(family, list) resp. (family, list A, list B); non-trivial = at least one operand is a non-empty set"),
    assumptions=["a pair (a, b) with a > b denotes the empty set (the constructor drops it)",
                 "operations are observed through the public API on objects built by the constructor"],
    exhaustive={"quick": True, "thorough": True},
    timeout={"quick": 900, "thorough": 3000},
    technique="runtime monitoring: exhaustive small-scope enumeration against a set-of-integers model",
    level_text="exhaustive over the stated universes (quick: up to 2 bound pairs over 6 integers, 3 over 4 and "
               "all subsets of 9 integers; thorough: up to 3 pairs over 5, 2 over 7, all subsets of 10)",
)

NSHARDS = 16

# family = (name, kind, lo, size, K)
#   ctor : ordered lists of <= K pairs over lo..lo+size-1
#   pairs: ordered pairs of multisets of <= K pairs
#   subs : ordered pairs of subsets of the universe (as canonical runs)
FAMILIES = {
    "quick": [
        ("ctor3/0..4", "ctor", 0, 5, 3),
        ("ctor2/0..6", "ctor", 0, 7, 2),
        ("ctor2/-3..2", "ctor", -3, 6, 2),
        ("pairs2/0..5", "pairs", 0, 6, 2),
        ("pairs2/-2..2", "pairs", -2, 5, 2),
        ("pairs3/0..3", "pairs", 0, 4, 3),
        ("subs/0..8", "subs", 0, 9, 0),
    ],
    "thorough": [
        ("ctor4/0..4", "ctor", 0, 5, 4),
        ("ctor3/0..6", "ctor", 0, 7, 3),
        ("ctor3/-3..2", "ctor", -3, 6, 3),
        ("ctor3/2^64", "ctor", (1 << 64) - 3, 6, 3),
        ("pairs2/0..6", "pairs", 0, 7, 2),
        ("pairs3/0..4", "pairs", 0, 5, 3),
        ("pairs2/-3..2", "pairs", -3, 6, 2),
        ("pairs2/2^64", "pairs", (1 << 64) - 3, 6, 2),
        ("subs/0..9", "subs", 0, 10, 0),
        ("subs/-4..3", "subs", -4, 8, 0),
    ],
}


def family_sizes(fam):
    name, kind, lo, size, K = fam
    p = size * size
    if kind == "ctor":
        return sum(p ** k for k in range(K + 1))
    if kind == "pairs":
        n = sum(len(list(itertools.combinations_with_replacement(range(p), k))) for k in range(K + 1))
        return n * n
    return (1 << size) ** 2


def shards(tier, seed, scale):
    out = common.mk_shards(NSHARDS, seed, tier, 0, scale)
    for sh in out:
        sh["stride"] = max(1, int(round(1.0 / scale))) if scale < 1 else 1
    return out


def runs(s):
    """maximal runs of consecutive integers of the set @s, ascending: the
    canonical interval list"""
    out = []
    for x in sorted(s):
        if out and out[-1][1] + 1 == x:
            out[-1][1] = x
        else:
            out.append([x, x])
    return [(a, b) for a, b in out]


def expand(pairs):
    s = set()
    for a, b in pairs:
        s.update(range(a, b + 1))
    return frozenset(s)


def relation(sa, sb):
    if not sa or not sb:
        return "an operand is empty"
    if sa == sb:
        return "equal operands"
    if sa <= sb or sb <= sa:
        return "nested operands"
    if sa & sb:
        return "overlapping operands"
    if any((x + 1) in sb or (x - 1) in sb for x in sa):
        return "adjacent disjoint operands"
    return "separated operands"


def run_shard(params, rec):
    common.quiet()
    cpulimit.install()
    from miasm.core.interval import interval
    shard, nsh = params["shard"], params.get("nshards", NSHARDS)
    stride = params.get("stride", 1)
    if stride > 1:
        rec.count("thinned")
    mon = Monitor(rec, interval)
    for fam in FAMILIES[params["tier"]]:
        name, kind, lo, size, K = fam
        uni = list(range(lo, lo + size))
        bounds = [(a, b) for a in uni for b in uni]
        if kind == "ctor":
            idx = 0
            for k in range(K + 1):
                for lst in itertools.product(bounds, repeat=k):
                    idx += 1
                    if idx % nsh != shard:
                        continue
                    if stride > 1 and (idx // nsh) % stride:
                        continue
                    rec.count("family:" + name)
                    mon.guarded(mon.unary, name, list(lst), uni)
            continue
        if kind == "pairs":
            lists = [list(c) for k in range(K + 1)
                     for c in itertools.combinations_with_replacement(bounds, k)]
        else:
            lists = [runs([uni[i] for i in range(size) if (m >> i) & 1]) for m in range(1 << size)]
        # operands are built once (operations must not change them: monitored)
        objs = []
        for lst in lists:
            try:
                objs.append((lst, interval(list(lst)), expand(lst)))
            except cpulimit.CpuTimeout:
                raise
            except Exception as exc:
                rec.fail("constructor raises %s" % type(exc).__name__, "interval(%r) raised %r" % (lst, exc),
                         dict(bounds=lst))
                objs.append(None)
        for ia in range(shard, len(objs), nsh):
            if stride > 1 and (ia // nsh) % stride:
                continue
            if objs[ia] is None:
                continue
            for ib in range(len(objs)):
                if objs[ib] is None:
                    continue
                rec.count("family:" + name)
                mon.guarded(mon.binary, name, objs[ia], objs[ib])
                if len(rec.samples) < 4 and (ia + ib) % 37 == 5 and objs[ia][0] and objs[ib][0]:
                    rec.sample(dict(family=name, a=[list(x) for x in objs[ia][0]],
                                    b=[list(x) for x in objs[ib][0]],
                                    union=str(objs[ia][1] + objs[ib][1]),
                                    intersection=str(objs[ia][1] & objs[ib][1])))


class Monitor(object):
    def __init__(self, rec, interval):
        self.rec = rec
        self.interval = interval
        self.hangs = 0

    def guarded(self, fn, fam, *args):
        """a case that does not finish is an observation (all operations on a
        handful of small integers normally take microseconds)"""
        if self.hangs >= 3:
            self.rec.count("skipped_after_hangs")
            return
        try:
            with cpulimit.cpu_limit(5):
                fn(fam, *args)
        except cpulimit.CpuTimeout:
            self.hangs += 1
            desc = repr([a[0] if isinstance(a, tuple) else a for a in args])
            self.bad("%s case does not terminate (5s CPU)" % fn.__name__, "%s: %s" % (fam, desc), case=desc)

    def bad(self, key, what, **wit):
        self.rec.fail(key, what, {k: (v if isinstance(v, (int, str, bool, type(None))) else repr(v))
                                  for k, v in wit.items()})

    # ---- one interval list
    def unary(self, fam, lst, uni):
        rec, interval = self.rec, self.interval
        rec.ev()
        rec.distinct("%s/%r" % (fam, lst))
        want = expand(lst)
        wr = runs(want)
        kinds = set()
        for a, b in lst:
            kinds.add("reversed" if a > b else ("single" if a == b else "range"))
        for k in kinds:
            rec.count("bounds:" + k)
        if len(wr) < len([1 for a, b in lst if a <= b]):
            rec.count("bounds:merged_by_canonical_form")
        saved = list(lst)
        try:
            i = interval(lst)
        except cpulimit.CpuTimeout:
            raise
        except Exception as exc:
            self.bad("constructor raises %s" % type(exc).__name__, "interval(%r) raised %r" % (saved, exc),
                     bounds=saved)
            return
        rec.count("op:constructor")
        if lst != saved:
            self.bad("constructor changes its argument", "interval(%r) left the list as %r" % (saved, lst),
                     bounds=saved)
        try:
            got = list(i.intervals)
            if got != wr:
                cls = "wrong set" if expand(got) != want else "not canonical"
                self.bad("constructor %s" % cls, "interval(%r).intervals = %r, the set is %r -> %r" % (
                    saved, got, sorted(want), wr), bounds=saved, got=got, want=wr)
                return
            rec.count("op:iter")
            if list(i) != wr:
                self.bad("iteration differs from the canonical runs", "list(interval(%r)) = %r" % (saved, list(i)),
                         bounds=saved)
            for x in [uni[0] - 2, uni[0] - 1] + uni + [uni[-1] + 1, uni[-1] + 2]:
                rec.count("op:contains_int")
                if (x in i) != (x in want):
                    self.bad("membership of an integer wrong", "%d in interval(%r) = %r" % (x, saved, x in i),
                             bounds=saved, x=x)
            rec.count("op:length")
            if i.length != len(want):
                self.bad("length wrong", "interval(%r).length = %r, set has %d" % (saved, i.length, len(want)),
                         bounds=saved)
            rec.count("op:hull")
            wh = (min(want), max(want)) if want else (None, None)
            if tuple(i.hull()) != wh:
                self.bad("hull wrong", "interval(%r).hull() = %r, want %r" % (saved, i.hull(), wh), bounds=saved)
            rec.count("op:empty")
            if i.empty != (not want):
                self.bad("empty wrong", "interval(%r).empty = %r" % (saved, i.empty), bounds=saved)
            # copy constructor and equality with the canonical spelling
            rec.count("op:copy")
            c = interval(i)
            if list(c.intervals) != wr or not (c == i) or (c != i):
                self.bad("copy constructor differs", "interval(interval(%r)) = %r" % (saved, c), bounds=saved)
            rec.count("op:eq")
            j = interval(list(wr))
            if not (i == j) or (i != j):
                self.bad("== false for the same set", "interval(%r) == interval(%r) is False" % (saved, wr),
                         bounds=saved, other=wr)
        except cpulimit.CpuTimeout:
            raise
        except Exception as exc:
            self.bad("unary operation raises %s" % type(exc).__name__, "on interval(%r): %r" % (saved, exc),
                     bounds=saved)

    # ---- one ordered pair
    def binary(self, fam, A, B):
        rec, interval = self.rec, self.interval
        la, a, sa = A
        lb, b, sb = B
        rec.ev()
        if sa or sb:
            rec.distinct("%s/%r/%r" % (fam, la, lb))
        rel = relation(sa, sb)
        rec.count("relation:" + rel)
        ka, kb = list(a.intervals), list(b.intervals)
        for op, fn, want in (
                ("union", lambda: a + b, sa | sb),
                ("union(list)", lambda: a.union(list(kb)), sa | sb),
                ("intersection", lambda: a & b, sa & sb),
                ("difference", lambda: a - b, sa - sb)):
            rec.count("op:" + op)
            try:
                r = fn()
                got = list(r.intervals)
            except cpulimit.CpuTimeout:
                raise
            except Exception as exc:
                self.bad("%s raises %s" % (op, type(exc).__name__), "%r %s %r raised %r" % (la, op, lb, exc),
                         a=la, b=lb)
                continue
            wr = runs(want)
            if got != wr:
                cls = "wrong set" if expand([p for p in got if p[0] <= p[1]]) != want else "result not canonical"
                self.bad("%s %s (%s)" % (op, cls, rel), "interval(%r) %s interval(%r) = %r, sets give %r" % (
                    la, op, lb, got, wr), a=la, b=lb, got=got, want=wr)
            elif not isinstance(r, interval):
                self.bad("%s result is not an interval" % op, repr(r), a=la, b=lb)
        for op, fn, want in (
                ("contains_interval", lambda: b in a, sb <= sa),
                ("eq", lambda: a == b, sa == sb),
                ("ne", lambda: a != b, sa != sb)):
            rec.count("op:" + op)
            try:
                got = fn()
            except cpulimit.CpuTimeout:
                raise
            except Exception as exc:
                self.bad("%s raises %s" % (op, type(exc).__name__), "%r %s %r raised %r" % (la, op, lb, exc),
                         a=la, b=lb)
                continue
            if got is not want and got != want:
                self.bad("%s wrong (%s)" % (op, rel), "%s(interval(%r), interval(%r)) = %r, sets give %r" % (
                    op, la, lb, got, want), a=la, b=lb, got=got, want=want)
        if list(a.intervals) != ka or list(b.intervals) != kb:
            self.bad("operand changed by an operation", "interval(%r) / interval(%r) became %r / %r" % (
                la, lb, a.intervals, b.intervals), a=la, b=lb)
            # repair so that one defect is not reported for every later pair
            a.intervals, b.intervals = ka, kb


OPS = ["constructor", "iter", "contains_int", "length", "hull", "empty", "copy", "eq", "union", "union(list)",
       "intersection", "difference", "contains_interval", "ne"]
RELS = ["an operand is empty", "equal operands", "nested operands", "overlapping operands",
        "adjacent disjoint operands", "separated operands"]


def floors(tier, counters, evaluations):
    miss = []
    for op in OPS:
        if counters.get("op:" + op, 0) < 1000:
            miss.append("operation %s observed %d times (<1000)" % (op, counters.get("op:" + op, 0)))
    for r in RELS:
        if counters.get("relation:" + r, 0) < 100:
            miss.append("operand relation '%s' observed %d times" % (r, counters.get("relation:" + r, 0)))
    for k in ("reversed", "single", "range", "merged_by_canonical_form"):
        if counters.get("bounds:" + k, 0) < 100:
            miss.append("bounds kind %s observed %d times" % (k, counters.get("bounds:" + k, 0)))
    if not counters.get("thinned"):
        for fam in FAMILIES[tier]:
            n = family_sizes(fam)
            if counters.get("family:" + fam[0], 0) != n:
                miss.append("family %s: %d of %d cases enumerated" % (fam[0], counters.get("family:" + fam[0], 0), n))
    return miss
